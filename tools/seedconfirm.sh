#!/bin/bash
# usage: seedconfirm.sh <worktree> <seeddir> <package dir rel.> <test regex>
# Confirms: patch applies, project builds, existing tests pass with it, demo fails with it and passes without.
wt=$1; sd=$2; pkg=$3; re=$4
export GOFLAGS=-mod=mod GOPROXY=off GOSUMDB=off
cd $wt || exit 2
mkdir -p /tmp/seedstash.$$ && mv seed1 seed2 /tmp/seedstash.$$/ 2>/dev/null
S=/tmp/seedstash.$$/$sd
git checkout -q -- . ; 
git apply $S/patch.diff || { echo "APPLY FAILED"; mv /tmp/seedstash.$$/* . ; exit 2; }
go build ./... && echo "build: ok" || echo "build: FAIL"
go test -vet=off -count=1 ./... 2>&1 | grep -v "no test files" | grep -vc "^ok" | sed 's/^/existing tests not-ok lines: /'
cp $S/demo_test.go $pkg/zz_seed_demo_test.go
go test -vet=off -count=1 -run "$re" ./$pkg/ > /tmp/seeddemo_with.log 2>&1; echo "demo WITH patch: exit $? ($(grep -c -- '--- FAIL' /tmp/seeddemo_with.log) FAIL lines)"
git checkout -q -- .
go test -vet=off -count=1 -run "$re" ./$pkg/ > /tmp/seeddemo_without.log 2>&1; echo "demo WITHOUT patch: exit $? ($(grep -c -- '--- FAIL' /tmp/seeddemo_without.log) FAIL lines)"
rm -f $pkg/zz_seed_demo_test.go
mv /tmp/seedstash.$$/* . ; rmdir /tmp/seedstash.$$
git status --short | head -5
