#!/bin/bash
# usage: seedcheck.sh <patch.diff> <tier> <property>...
# Applies the patch to a scratch worktree of /repo's HEAD ($SR; other people may be running checks
# against /repo itself), runs the checks there through VCHECK_REPO, and removes the change again.
patch=$1; tier=$2; shift 2
SR=${SEEDREPO:-/tmp/seedrepo}
if [ ! -d $SR ]; then git -C /repo worktree add -q --detach $SR HEAD || exit 2; fi
cd $SR || exit 2
git checkout -q --detach $(git -C /repo rev-parse HEAD) && git checkout -q -- . && git clean -fdq
git apply "$patch" || { echo "patch does not apply"; exit 2; }
trap "git -C $SR checkout -q -- . ; git -C $SR clean -fdq" EXIT
cd /verif
for p in "$@"; do
  cp evidence/$p.json /tmp/evidence_keep_$p.json 2>/dev/null
  VCHECK_REPO=$SR ./bin/vcheck run --property $p --tier $tier > /tmp/seedcheck_$p.log 2>&1
  rc=$?
  cp /tmp/evidence_keep_$p.json evidence/$p.json 2>/dev/null
  echo "$p rc=$rc :: $(grep -E '^VIOLATION' /tmp/seedcheck_$p.log | head -3 | sed 's/.*replays.//' | tr '\n' ' ' | cut -c1-300) $(tail -1 /tmp/seedcheck_$p.log | cut -c1-120)"
done
