#!/bin/bash
# usage: seedcheck.sh <patch.diff> <tier> <property>...   — applies the patch to /repo, runs the checks, reverts.
patch=$1; tier=$2; shift 2
cd /repo || exit 2
if ! git diff --quiet; then echo "/repo is dirty"; exit 2; fi
git apply "$patch" || { echo "patch does not apply"; exit 2; }
trap 'git -C /repo checkout -- . ; git -C /repo clean -fdq -- . 2>/dev/null' EXIT
cd /verif
for p in "$@"; do
  ./bin/vcheck run --property $p --tier $tier > /tmp/seedcheck_$p.log 2>&1
  rc=$?
  echo "$p rc=$rc :: $(grep -E '^VIOLATION' /tmp/seedcheck_$p.log | head -3 | tr '\n' ' ' | cut -c1-300) $(tail -1 /tmp/seedcheck_$p.log | cut -c1-160)"
done
