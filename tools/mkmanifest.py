#!/usr/bin/env python3
"""Regenerates /verif/MANIFEST.json from the table below (kept here so it stays consistent)."""
import json, os

ENV = "GOFLAGS=-mod=mod GOPROXY=off GOSUMDB=off GOTOOLCHAIN=local"
TECH = "bounded symbolic execution of the real Go code (go/ssa -> SMT, z3/cvc5), counterexamples replayed natively"
TRUST = ("Trusted base: go/ssa, the gosx interpreter and its intrinsics/stubs (listed in the evidence file), z3/cvc5, "
         "the harness-side reference oracle. Holds for all inputs within the bounds recorded in the evidence; nothing outside them.")

# id -> (level text, level_note extra, design_ref)
CLAIMS = {
 "C10": ("For every type (TypeID symbolic over all 12 ids, normalised unions, lists, objects, tuples to the stated depth) the solver shows Is is reflexive, "
         "TypeSum is an upper bound / commutative / idempotent, TypeIntersection is contained in both operands, NonNullable removes exactly NULL, and for every "
         "value within the C09 bounds the value matches Value.Type(). Two known findings (object/tuple deep merge, unnamed object fields) are excluded by narrow predicates and re-exhibited on every run.",
         "Bounds: nesting depth <= 1 per operand (values: depth 2), <= 1-2 fields/elements, field names from {a,b,c}.", "§5 C10"),
 "C01": ("For each query of a 14-shape single-source catalogue (WHERE, projections, DISTINCT, ORDER BY, LIMIT, subquery in FROM, WITH, COALESCE) and every table within the bounds, the real pipeline "
         "(SQL parser, logical plan, typechecker, optimizer, Materialize, execution nodes, top-level ORDER BY/LIMIT wiring) executed symbolically returns exactly the multiset (and order) a hand-written reference of SQL semantics defines.",
         "Bounds: t(a,b) 0..2 (quick) / 0..3 (thorough) rows, cells Int over all 2^64 values or NULL. Partial: catalogue queries only, Int|NULL columns only.", "§5 C01"),
 "C04": ("Differential: for each of 14 rewrite-triggering query shapes and every pair of tables within the bounds, the plan after the real optimizer.Optimize fixpoint and the unoptimized plan, both materialised and run "
         "symbolically on the same tables, return the same multiset of rows and the same error status; with a datasource that rejects push-down and one that accepts it.",
         "Bounds: t(a,b), u(a,b) 0..1 (quick) / 0..2 (thorough) rows, cells Int over all 2^64 values or NULL; catalogue queries only; csv/parquet column pruning inside the real file sources is outside.", "§5 C04"),
 "C07": ("No Go runtime panic on any path, for: every function descriptor on arbitrary symbolic arguments of its declared types (all int64 values incl. 0, negatives, MinInt64), COALESCE with the real ObjectLayoutFixer, "
         "every execution expression kind, VariablesUsed/SplitByAnd over every expression kind, max_diff_watermark and tumble over sampled durations. Partial claim: arbitrary query strings / CLI options / files are outside.",
         "Bounds: strings <= 2 bytes, lists/tuples <= 1-2 elements, types depth <= 1-2; like, ~, ~*, parse_time excluded (regexp/time parsing).", "§5 C07"),
 "C12": ("reverse = runes reversed for every string within the bounds (incl. multibyte and invalid UTF-8), substr/position/len/replace/upper/lower equal small references on ASCII input. Partial: LIKE / ~ / ~* are outside.",
         "Bounds: strings <= 3 (quick) / 4 (thorough) bytes.", "§5 C12"),
 "C20": ("For N records with arbitrary symbolic times, symbolic max_diff and each catalogue resolution the real generator emits a watermark exactly on a new rounded maximum with value rounded - max_diff, "
         "and passes exactly the records after the current watermark with EventTime := time field.",
         "Bounds: N = 1 (quick) / 2 (thorough) records, times in [1970, 2106), resolutions 1ns/1ms/1s/1min.", "§5 C20"),
 "C21": ("tumble: containment, window length, unchanged fields/watermarks for five window lengths over fully symbolic times (alignment decided for 250ms and 1s); range: each integer of [start,end) once ascending for symbolic start; "
         "poll: every round retracts the previous snapshot, emits the current one, then one watermark, under an arbitrary non-decreasing clock.",
         "Bounds: see evidence; alignment for 1ms/1min/1h windows is outside (solver unknown).", "§5 C21"),
 "C02": ("For every pair of input tables within the bounds (keys over all 2^64 Int values or NULL) and every receive order of the two inputs (each select with both inputs ready is a forked choice), "
         "the consolidated output of the real StreamJoin / OuterJoin (left, right, full) / LookupJoin node equals the relational join (equality never matches NULL, unmatched outer rows padded once). "
         "Bounded model checking of the real node code including its goroutines, channels and btrees.",
         "Bounds: 0..1 (quick) / 0..2 (thorough) rows per side, 1-2 key columns; node level (planner key extraction belongs to C04).", "§5 C02"),
 "C11": ("For every AND/OR/NOT tree within the bounds and every assignment of TRUE/FALSE/NULL to its leaves the real evaluators return the Kleene value (solver-checked per path).",
         "Bounds: trees of depth <= 2 (quick) / 3 (thorough), 2..K operands per AND/OR.", "§5 C11"),
 "C19": ("For two watermarked inputs within the bounds and EVERY interleaving of their records, watermarks and end-of-stream (all schedules observable by the join's select loop are enumerated by forking), "
         "whenever the real StreamJoin / OuterJoin emits watermark W its consolidated output equals the join of the input records with event time <= W, emitted watermarks never decrease, and at end of stream "
         "the output equals the join of the complete inputs. Schedule-dependent counterexamples are replayed natively through the `verif` hook that fixes the receive order.",
         "Bounds: 2 (quick) / 3 (thorough) messages per input, keys over all Int values or NULL, event times 1..TCH s after the input's watermark.", "§5 C19"),
 "C09": ("For every pair/triple of octosql values within the bounds (all 2^64 bit patterns per Int/Float/Duration leaf, every byte value per string byte, "
         "containers to the stated depth) the solver shows Compare is reflexive, antisymmetric, transitive, Equal agrees with it and compare-equal values "
         "hash equally (Value.Hash, the hash step used by containers and HashManyValues). Bounded model checking of the real functions; right level because the "
         "failing inputs (NaN, signed zero) are measure-zero for sampling but are returned as models by the solver.",
         "Bounds: strings <= 2 (quick) / 3 (thorough) bytes, container depth <= 1, <= 1-2 elements; times within 1678..2262.", "§5 C09"),
}

NA = {
 "C27": "crash/torn-write behaviour of OS filesystem operations, HTTP download and tar extraction: nothing of what decides the verdict is octosql code that can be executed symbolically; a stub filesystem would verify my model, not octosql (DESIGN §6)",
 "C29": "data races are a property of the Go memory model under real preemption; the engine's cooperative scheduler has no happens-before relation to put in a formula (DESIGN §6)",
}

ALL = ["C%02d" % i for i in range(1, 31)]

checks = []
for pid in ALL:
    if pid in CLAIMS:
        text, note, ref = CLAIMS[pid]
        checks.append({
            "property_id": pid,
            "quick_cmd": f"./bin/vcheck run --property {pid} --tier quick",
            "thorough_cmd": f"./bin/vcheck run --property {pid} --tier thorough",
            "evidence_file": f"/verif/evidence/{pid}.json",
            "replay_cmd_template": "./bin/vcheck replay {path}",
            "engine": "gosx",
            "level_claimed": {"category": "model_checking", "text": text, "design_ref": ref},
            "level_note": note + " " + TRUST,
            "technique": TECH,
        })
na = []
for pid in ALL:
    if pid not in CLAIMS:
        na.append({"property_id": pid, "reason": NA.get(pid, "no check registered yet: harness for this property has not been built/validated in this tree")})

manifest = {
 "version": 1,
 "setup_cmd": f"cd /verif/engine && {ENV} go build -o ../bin/vcheck ./cmd/vcheck",
 "hooks": {
   "guard": "verif",
   "enable": "go build tag `verif` (-tags=verif); harness code is injected with go build/test -overlay and golang.org/x/tools/go/packages Overlay, /repo is not modified",
   "baseline_off_cmd": f"cd /repo && {ENV} go test -vet=off -count=1 ./...",
   "source_commits": ["5801a85"],
   "add_only": True,
 },
 "engines": [{"name": "gosx", "path": "/verif/engine", "serves_properties": sorted(CLAIMS), "kind_free_text": "forking symbolic executor for Go SSA (own), SMT back ends z3 4.8.12 / cvc5 1.0, native replay through go test -overlay"}],
 "checks": checks,
 "not_applicable": na,
 "notes": "Every check regenerates SSA from /repo's working tree on each run. Exit 1 only for natively reproduced counterexamples.",
}
json.dump(manifest, open(os.path.join(os.path.dirname(__file__), "..", "MANIFEST.json"), "w"), indent=1)
print("claimed:", sorted(CLAIMS))
