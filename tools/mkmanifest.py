#!/usr/bin/env python3
"""Regenerates /verif/MANIFEST.json from the table below (kept here so it stays consistent)."""
import json, os

ENV = "GOFLAGS=-mod=mod GOPROXY=off GOSUMDB=off GOTOOLCHAIN=local"
TECH = "bounded symbolic execution of the real Go code (go/ssa -> SMT, z3/cvc5), counterexamples replayed natively"
TRUST = ("Trusted base: go/ssa, the gosx interpreter and its intrinsics/stubs (listed in the evidence file), z3/cvc5, "
         "the harness-side reference oracle. Holds for all inputs within the bounds recorded in the evidence; nothing outside them.")

# id -> (level text, level_note extra, design_ref)
CLAIMS = {
 "C10": ("For every type (TypeID symbolic over all 12 ids, normalised unions, lists, objects, tuples to the stated depth) the solver shows Is is reflexive, "
         "TypeSum is an upper bound / commutative / idempotent, TypeIntersection is contained in both operands, NonNullable removes exactly NULL (also from hand-written unions in any order), TypeSum leaves its operands untouched (append-grown unions), and for every "
         "value within the C09 bounds the value matches Value.Type(). Two known findings (object/tuple deep merge, unnamed object fields) are excluded by narrow predicates and re-exhibited on every run.",
         "Bounds: nesting depth <= 1 per operand (values: depth 2), <= 1-2 fields/elements, field names from {a,b,c}.", "§5 C10"),
 "C03": ("For every input table/changelog within the bounds the real SimpleGroupBy and CustomTriggerGroupBy (end-of-stream trigger) nodes, run symbolically with the real aggregate prototypes, return one row per distinct key (NULL is a key) holding count/sum/min/max, the DISTINCT variants and avg over the group's non-NULL inputs (NULL for none), and agree with each other.",
         "Bounds: <= 3 rows (avg: 2), 0-2 key columns, Int|NULL cells; node level (parser/typechecker overload resolution outside).", "§5 C03"),
 "C05": ("For every table within the bounds and every n in 0..K including 0: nodes.Limit, OrderSensitiveTransform (with/without keys and limit) and the batch OutputPrinter return exactly min(n, rows) rows forming a sub-multiset of the input; with ORDER BY they are the first n of the sort order counting duplicates individually; a nested ORDER BY/LIMIT over a retracting (TRIGGER COUNTING 1) grouping returns what it returns over the batch grouping (whole pipeline: parser, planner, optimizer, Materialize, nodes).",
         "Bounds: <= 3 rows from a small value domain (duplicates arise), n <= 3, 0-2 keys; 6 nested queries over <= 3-4 rows; the output-mode dispatch in cmd/root.go is reproduced by the harness, not executed.", "§5 C05"),
 "C06": ("For every operator kind (Filter, Map, Distinct, OrderSensitiveTransform, Limit, Unnest, EventTimeBuffer, group-bys, StreamJoin/OuterJoin either side, LookupJoin either side, query expressions, output printers) placed over a source that fails after k records (k forked), for failing expressions, for a failing consumer above each operator, for a join input that fails while its 10 000-slot channel is exactly full, and for standard input that fails with a read error under the real lines/json/csv datasources, Run/Evaluate/Creator returns a non-nil error.",
         "Bounds: k <= 2-3 records before the failure; stdin content <= 2-4 symbolic bytes (lines) or N in {0,2,101,130} well-formed rows (json/csv); process exit status and malformed rows inside the real decoders (C24) are outside.", "§5 C06"),
 "C14": ("For every aggregate prototype (count, sum, avg, min, max, array_agg and DISTINCT variants over Int/Float/Duration/Time) and every valid add/retract history within the bounds, the real aggregate reports what the same aggregate built fresh reports for the net multiset (plus an independent scalar reference).",
         "Bounds: histories of <= 3 (quick) / 5 (thorough) steps; Float sums only on an integer-valued table (|v| < 2^26).", "§5 C14"),
 "C15": ("For every valid input changelog within the bounds, each operator (Filter, Map, Distinct, Unnest, OrderSensitiveTransform, EventTimeBuffer, SimpleGroupBy, LookupJoin, StreamJoin/OuterJoin with retractions) emits a changelog that never retracts an absent row and whose consolidation equals the operator applied to the consolidated input.",
         "Bounds: <= 3 events (joins 2+1), Int|NULL cells; one known finding (lookup join retraction order) excluded by predicate.", "§5 C15"),
 "C16": ("For every trigger set (counting n=1..3, watermark, end of stream and their combinations) and every watermarked stream with retractions within the bounds, the consolidated output of the real CustomTriggerGroupBy (+EventTimeBuffer) at end of stream equals the reference grouping of the consolidated input.",
         "Bounds: streams of 2 (quick) / 3 (thorough, single triggers) events.", "§5 C16"),
 "C17": ("For every event sequence (KeyReceived/WatermarkReceived/EndOfStream/Poll over 2 keys) within the bounds each real trigger (counting, watermark, end-of-stream, multi) polls exactly the keys a reference model polls; at node level, at every forwarded watermark the output holds exactly the results of the keys due.",
         "Bounds: sequences of <= 4 (quick) / 5 (thorough) events.", "§5 C17"),
 "C18": ("For every watermarked stream without late records within the bounds: RecordEventTimeBuffer/EventTimeBuffer release every record unchanged, in event-time order, before the first watermark >= its time and the rest at end of stream; buffers, group-bys and joins forward non-decreasing watermarks and emit no record at or below an already emitted watermark (two known findings excluded by predicate).",
         "Bounds: <= 4 events (joins 2 per side), event times from a 3-value domain.", "§5 C18"),
 "C22": ("For every changelog with watermarks within the bounds, at each watermark W the real InternallyConsistentOutputStreamWrapper has emitted exactly the consolidated input records with event time <= W, never emits a record that was not in its input, and has emitted everything by end of stream.",
         "Bounds: <= 3 events, values from a 2-value domain, 3 event times.", "§5 C22"),
 "C23": ("Partial: the real lines / csv / json datasources, driven through the real bufio.Scanner / encoding/csv / fastjson over symbolic standard-input content (stdin bridge), return exactly one record per input row in order with the row's values; the lines split function splits exactly at the separator; the stdin preview-then-reopen path yields all bytes under arbitrary read chunkings.",
         "Bounds: content of a few symbolic bytes (see evidence); real files, parquet, real worker scheduling outside.", "§5 C23"),
 "C24": ("For csv and json inputs of a few symbolic cells / bounded JSON shapes, every value the real datasource produces (inside and beyond the preview) matches the type the real inference reported; two known findings (silent conversion beyond the preview instead of an error) are excluded by predicate.",
         "Bounds: cells <= 2-3 bytes, JSON depth <= 1-2; 100-row preview scaled down by harness parameters.", "§5 C24"),
 "C25": ("For every row of values within the bounds the real JSON formatter (fastjson arena, marshal, escaping) produces a line that a reference JSON reader decodes back to the same values and structure, strings byte for byte; the CSV value formatter decodes back for scalars (NULL = empty), and several rows through one real CSVFormatter (encoding/csv quoting included) decode back through an RFC 4180 reader.",
         "Bounds: ints |x| small, strings <= 2-3 arbitrary bytes, nesting depth <= 1-2; finite float / time / duration rendering and the encoding/csv quoting layer outside; NaN/Inf rendering is a known finding.", "§5 C25"),
 "C26": ("Values, types, schemas, records, metadata messages and both variable contexts survive the real native->proto->native converters unchanged (Compare / Equals) for all symbolic inputs within the bounds; for every function overload, the predicate repopulated by RepopulatePhysicalExpressionFunctions evaluates like the original on all symbolic arguments (also two overloads of one function in one predicate); the octosql side of the push-down exchange returns every predicate exactly once (subquery predicates never leave the process).",
         "Bounds: depth <= 1, <= 2 values/frames, <= 2-3 predicates; the JSON transport is simulated by clearing the json:\"-\" fields; protobuf wire bytes, gRPC and a live plugin are outside.", "§5 C26"),
 "C28": ("The real ListInstalledPlugins, run over a symbolic plugin directory tree (os.ReadDir / LookupEnv bridged), reports every plugin under exactly the name after the prefix (names with dashes included) with versions in descending semver order; the real Install (name/constraint parsing, GetManifest sort, selection loop; HTTP GET and JSON decode bridged) creates the directory of the highest version the constraint admits.",
         "Bounds: names <= 4-5 bytes over letters and '-', <= 2-3 versions from a catalogue, 10 constraints; download/unarchive and constraint resolution in cmd/root.go are outside.", "§5 C28"),
 "C30": ("String literals and identifiers with arbitrary symbolic content survive print -> lex (one token, same bytes); a catalogue of 61 statements covering OctoSQL's extensions, every stack of two unary operators and every combination of the optional SELECT clauses survive parse -> print -> parse with an identical tree (independent dump) and identical text.",
         "Bounds: literals <= 2-3 bytes, identifiers <= 3 bytes; statements outside the catalogue are outside.", "§5 C30"),
 "C01": ("For each query of a 16-shape single-source catalogue (WHERE, projections, DISTINCT, ORDER BY, LIMIT, subquery in FROM, WITH, COALESCE) and every table within the bounds, the real pipeline "
         "(SQL parser, logical plan, typechecker, optimizer, Materialize, execution nodes, top-level ORDER BY/LIMIT wiring) executed symbolically returns exactly the multiset (and order) a hand-written reference of SQL semantics defines.",
         "Bounds: t(a,b) 0..2 (quick) / 0..3 (thorough) rows, cells Int over all 2^64 values or NULL. Partial: catalogue queries only, Int|NULL columns only.", "§5 C01"),
 "C04": ("Differential: for each of 35 rewrite-triggering query shapes and every pair of tables within the bounds, the plan after the real optimizer.Optimize fixpoint and the unoptimized plan, both materialised and run "
         "symbolically on the same tables, return the same multiset of rows and the same error status; with a datasource that rejects push-down and one that accepts it; plus 7 queries over the REAL csv / json / lines datasources fed an arbitrary body through stdin.",
         "Bounds: t(a,b), u(a,b) 0..1 (quick) / 0..2 (thorough) rows, cells Int over all 2^64 values or NULL, w(a, l [Int]) for UNNEST; catalogue queries only; real-datasource bodies <= 2-3 arbitrary bytes after a fixed header; parquet is outside.", "§5 C04"),
 "C07": ("No Go runtime panic on any path, for: every function descriptor on arbitrary symbolic arguments of its declared types (all int64 values incl. 0, negatives, MinInt64), COALESCE with the real ObjectLayoutFixer, "
         "every execution expression kind, VariablesUsed/SplitByAnd over every expression kind, max_diff_watermark and tumble over sampled durations, and for ten query templates with an arbitrary byte fragment (1 byte quick, 2 bytes thorough) through lexer, parser, typechecker, optimizer and execution. Partial claim: other query strings / CLI options / files are outside.",
         "Bounds: strings <= 2 bytes, lists/tuples <= 1-2 elements, types depth <= 1-2; like, ~, ~*, parse_time excluded (regexp/time parsing).", "§5 C07"),
 "C12": ("reverse = runes reversed for every string within the bounds (incl. multibyte and invalid UTF-8), substr/position/len/replace/upper/lower equal small references on ASCII input; LIKE is translated to exactly the specified regular language and ~ / ~* hand pattern and subject to the regexp library as given (also after the same pattern text went through LIKE). Partial: the regexp engine itself is outside.",
         "Bounds: strings <= 3 (quick) / 4 (thorough) bytes.", "§5 C12"),
 "C20": ("For N records with arbitrary symbolic times, symbolic max_diff and each catalogue resolution the real generator emits a watermark exactly on a new rounded maximum with value rounded - max_diff, "
         "and passes exactly the records after the current watermark with EventTime := time field; watermarks of the source are not forwarded; a second run of the same node behaves like a first.",
         "Bounds: N = 1 (quick) / 2 (thorough) records, times in [1970, 2106), resolutions 1ns/1ms/1s/1min.", "§5 C20"),
 "C21": ("tumble: containment, window length, unchanged fields/watermarks for five window lengths over fully symbolic times (alignment decided for 250ms and 1s); range: each integer of [start,end) once ascending for symbolic start; "
         "poll: every round retracts the previous snapshot, emits the current one, then one watermark, under an arbitrary non-decreasing clock; the same range node run twice emits each run's own interval; tumble planned through its descriptor uses the designated time column.",
         "Bounds: see evidence; alignment for 1ms/1min/1h windows is outside (solver unknown).", "§5 C21"),
 "C02": ("For every pair of input tables within the bounds (keys over all 2^64 Int values or NULL) and every receive order of the two inputs (each select with both inputs ready is a forked choice), "
         "the consolidated output of the real StreamJoin / OuterJoin (left, right, full) / LookupJoin node equals the relational join (equality never matches NULL, unmatched outer rows padded once; inputs of equal and of different width). "
         "Bounded model checking of the real node code including its goroutines, channels and btrees.",
         "Bounds: 0..1 (quick) / 0..2 (thorough) rows per side, 1-2 key columns; node level (planner key extraction belongs to C04).", "§5 C02"),
 "C11": ("For every AND/OR/NOT tree within the bounds and every assignment of TRUE/FALSE/NULL to its leaves the real evaluators return the Kleene value (solver-checked per path); every call the typechecker resolves to a Strict overload returns NULL when an argument is NULL, with all or only some argument types nullable; IS [NOT] NULL never returns NULL.",
         "Bounds: trees of depth <= 2 (quick) / 3 (thorough), 2..K operands per AND/OR.", "§5 C11"),
 "C19": ("For two watermarked inputs within the bounds and EVERY interleaving of their records, watermarks and end-of-stream (all schedules observable by the join's select loop are enumerated by forking), "
         "whenever the real StreamJoin / OuterJoin emits watermark W its consolidated output equals the join of the input records with event time <= W, emitted watermarks never decrease, and at end of stream "
         "the output equals the join of the complete inputs. Schedule-dependent counterexamples are replayed natively through the `verif` hook that fixes the receive order.",
         "Bounds: 2 (quick) / 3 (thorough) messages per input, keys over all Int values or NULL, event times 1..TCH s after the input's watermark.", "§5 C19"),
 "C08": ("For every function name and overload accepted by the real typechecker over a universe of argument types (each optionally nullable), and for And/Or/Coalesce/TypeCast/Tuple/field access, the value the real Materialize + Evaluate produce on arbitrary conforming symbolic arguments matches the static type the typechecker reported (independent `matches`); at plan level every value returned by 6 aggregate / grouping / COALESCE queries over tables with NULLs matches its column type.",
         "Bounds: argument types of depth <= 1 (TS=1 quick / 2 thorough), strings <= 2 bytes, containers <= 1-2 elements; like/~/~*/now/parse_time typechecked but not evaluated; queries outside the 6-query catalogue outside.", "§5 C08"),
 "C13": ("For every overload of the arithmetic operators on Int/Float/Duration/Time/String, abs/ceil/floor/sqrt (exact IEEE via the FP theory; log/pow plumbing only), int()/float()/string(), time_from_unix/time_to_unix, IN/NOT IN, list indexing and COALESCE, the real closures return what small definitional references state, for all 64-bit argument values within the bounds (failed parses -> NULL, time_to_unix(time_from_unix(x)) = x, COALESCE = first non-NULL, re-laid-out by field name for objects of different layout).",
         "Bounds: strings <= 3 bytes, 7 object layouts for COALESCE, lists <= 2-3 elements, time_from_unix(Float) for |x| < 4; inputs that raise query errors (division by zero, negative counts/indices) assumed away; parse_time, now, string() rendering outside.", "§5 C13"),
 "C09": ("For every pair/triple of octosql values within the bounds (all 2^64 bit patterns per Int/Float/Duration leaf, every byte value per string byte, "
         "containers to the stated depth) the solver shows Compare is reflexive, antisymmetric, transitive and returns exactly -1/0/1, Equal and the SQL operator = agree with it and compare-equal values "
         "hash equally (Value.Hash, the hash step used by containers and HashManyValues). Bounded model checking of the real functions; right level because the "
         "failing inputs (NaN, signed zero) are measure-zero for sampling but are returned as models by the solver.",
         "Bounds: strings <= 2 (quick) / 3 (thorough) bytes, container depth <= 1, <= 1-2 elements; times within 1678..2262.", "§5 C09"),
}

NA = {
 "C27": "crash/torn-write behaviour of OS filesystem operations, HTTP download and tar extraction: nothing of what decides the verdict is octosql code that can be executed symbolically; a stub filesystem would verify my model, not octosql (DESIGN §6)",
 "C29": "data races are a property of the Go memory model under real preemption; the engine's cooperative scheduler has no happens-before relation to put in a formula (DESIGN §6)",
}

ALL = ["C%02d" % i for i in range(1, 31)]

checks = []
for pid in ALL:
    if pid in CLAIMS:
        text, note, ref = CLAIMS[pid]
        checks.append({
            "property_id": pid,
            "quick_cmd": f"./bin/vcheck run --property {pid} --tier quick",
            "thorough_cmd": f"./bin/vcheck run --property {pid} --tier thorough",
            "evidence_file": f"/verif/evidence/{pid}.json",
            "replay_cmd_template": "./bin/vcheck replay {path}",
            "engine": "gosx",
            "level_claimed": {"category": "model_checking", "text": text, "design_ref": ref},
            "level_note": note + " " + TRUST,
            "technique": TECH,
        })
na = []
for pid in ALL:
    if pid not in CLAIMS:
        na.append({"property_id": pid, "reason": NA.get(pid, "no check registered yet: harness for this property has not been built/validated in this tree")})

manifest = {
 "version": 1,
 "setup_cmd": f"cd /verif/engine && {ENV} go build -o ../bin/vcheck ./cmd/vcheck",
 "hooks": {
   "guard": "verif",
   "enable": "go build tag `verif` (-tags=verif); harness code is injected with go build/test -overlay and golang.org/x/tools/go/packages Overlay, /repo is not modified",
   "baseline_off_cmd": f"cd /repo && {ENV} go test -vet=off -count=1 ./...",
   "source_commits": ["5801a85"],
   "add_only": True,
 },
 "engines": [{"name": "gosx", "path": "/verif/engine", "serves_properties": sorted(CLAIMS), "kind_free_text": "forking symbolic executor for Go SSA (own), SMT back ends z3 4.8.12 / cvc5 1.0, native replay through go test -overlay"}],
 "checks": checks,
 "not_applicable": na,
 "notes": "Every check regenerates SSA from /repo's working tree on each run. Exit 1 only for natively reproduced counterexamples.",
}
json.dump(manifest, open(os.path.join(os.path.dirname(__file__), "..", "MANIFEST.json"), "w"), indent=1)
print("claimed:", sorted(CLAIMS))
