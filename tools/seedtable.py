#!/usr/bin/env python3
# Prints the markdown table of DESIGN.md §9.4 from /verif/seeded/*/meta.json.
import json, glob, os
rows = []
for f in sorted(glob.glob('/verif/seeded/*/meta.json')):
    m = json.load(open(f))
    sid = os.path.basename(os.path.dirname(f))
    cb = m['caught_by']
    verdict = {'caught': 'yes', 'caught-after-strengthening': 'after strengthening', 'caught-by-another-property': 'by another property', 'missed': 'NO', 'pending': '?'}[m.get('status', 'pending')]
    rows.append((sid, m['summary'].replace('|', '\\|'), m['needs'].replace('|', '\\|'), verdict, cb.replace('|', '\\|')))
print('| seed | change | needs | caught | by which check |')
print('|---|---|---|---|---|')
for r in rows:
    print('| %s | %s | %s | %s | %s |' % r)
import collections
c = collections.Counter(r[3] for r in rows)
print()
print('Totals: %d seeded changes; ' % len(rows) + ', '.join('%s: %d' % kv for kv in sorted(c.items())))
