#!/bin/bash
# Runs the quick (or given) tier of every claimed check and prints one line per property.
tier=${1:-quick}
cd /verif
for p in $(python3 -c "import json;print(' '.join(c['property_id'] for c in json.load(open('MANIFEST.json'))['checks']))"); do
  start=$(date +%s)
  ./bin/vcheck run --property $p --tier $tier > /tmp/runall_$p.log 2>&1
  rc=$?
  echo "$p rc=$rc $(( $(date +%s) - start ))s $(tail -1 /tmp/runall_$p.log | cut -c1-200)"
done
