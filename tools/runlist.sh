#!/bin/bash
# usage: runlist.sh <tier> <property>...   — runs the given checks one after the other, one summary line each
tier=$1; shift
cd /verif
for p in "$@"; do
  start=$(date +%s)
  ./bin/vcheck run --property $p --tier $tier > /tmp/runlist_${tier}_$p.log 2>&1
  rc=$?
  echo "$p $tier rc=$rc $(( $(date +%s) - start ))s $(tail -1 /tmp/runlist_${tier}_$p.log | cut -c1-220)"
done
