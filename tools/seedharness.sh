#!/bin/bash
# usage: seedharness.sh <patch.diff> <vcheck harness args...>   (dev tool: one harness against a patched scratch worktree)
patch=$1; shift
SR=${SEEDREPO:-/tmp/seedrepo2}
if [ ! -d $SR ]; then git -C /repo worktree add -q --detach $SR HEAD || exit 2; fi
cd $SR || exit 2
git checkout -q --detach $(git -C /repo rev-parse HEAD) && git checkout -q -- . && git clean -fdq
git apply "$patch" || { echo "patch does not apply"; exit 2; }
trap "git -C $SR checkout -q -- . ; git -C $SR clean -fdq" EXIT
cd /verif
VCHECK_REPO=$SR ./bin/vcheck harness "$@"
