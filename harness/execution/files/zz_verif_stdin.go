package files

import "bytes"

// VerifResetStdin puts the package-level stdin state back to "process just started": nothing
// previewed, no reader open, stdin not opened for execution yet. (Under the engine every path
// starts from fresh globals; a native replay process runs several vectors in a row.)
func VerifResetStdin() {
	previewedBuffer = &bytes.Buffer{}
	alreadyOpenedNoPreview = 0
	concurrentReaders = 0
}

// VerifStdinState exposes the counters for assertions.
func VerifStdinState() (previewed int, openedNoPreview, readers int64) {
	if previewedBuffer != nil {
		previewed = previewedBuffer.Len()
	}
	return previewed, alreadyOpenedNoPreview, concurrentReaders
}
