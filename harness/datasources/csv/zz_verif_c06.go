package csv

import (
	"context"
	"fmt"

	"github.com/cube2222/octosql/execution"
	"github.com/cube2222/octosql/execution/files"
	"github.com/cube2222/octosql/physical"
	"github.com/cube2222/octosql/zzverif"
)

// VerifC06CSVReadError (C06): standard input delivers a header and N well-formed rows and then
// fails with a read error (not EOF): Creator's preview or Run must return a non-nil error.
func VerifC06CSVReadError() {
	n := zzverif.Param("N")
	content := "a,b\n"
	for i := 0; i < n; i++ {
		content += fmt.Sprintf("%d,x\n", i+1)
	}
	files.VerifResetStdin()
	zzverif.SetStdinFailing([]byte(content))
	ctx := context.Background()
	im, schema, err := Creator(',')(ctx, "stdin", map[string]string{})
	if err != nil {
		zzverif.Reach("creator-error")
		return
	}
	node, err := im.Materialize(ctx, physical.Environment{}, schema, nil)
	zzverif.Assert(err == nil, "materialize-ok")
	sink := &verifSink{}
	err = node.Run(execution.ExecutionContext{Context: ctx}, sink.produce, verifMeta)
	zzverif.Reach("ran")
	zzverif.Assert(err != nil, "input-read-error-reported")
}
