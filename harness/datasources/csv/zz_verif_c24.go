package csv

import (
	"context"
	"fmt"
	"strconv"

	"github.com/valyala/fastjson/fastfloat"

	"github.com/cube2222/octosql/execution"
	"github.com/cube2222/octosql/execution/files"
	"github.com/cube2222/octosql/octosql"
	"github.com/cube2222/octosql/physical"
	"github.com/cube2222/octosql/zzverif"
)

// ---------------------------------------------------------------------------------------------
// C24 (CSV) — the REAL Creator (type inference over the preview) and the REAL
// DatasourceExecuting.Run (per-cell parsing), both through the real encoding/csv reader, over a
// file that is piped on stdin (zzverif.SetStdin): header "k,v", then rows "x,<cell>".
// ---------------------------------------------------------------------------------------------

// verifCell: a CSV cell of <= maxLen arbitrary bytes except the ones the quoting layer of
// encoding/csv gives a meaning to (separator, quote, CR, LF) — that layer is outside.
func verifCell(name string, maxLen int) string {
	s := zzverif.Bytes(name, maxLen)
	for i := 0; i < len(s); i++ {
		zzverif.Assume(zzverif.And(zzverif.And(s[i] != ',', s[i] != '"'), zzverif.And(s[i] != '\r', s[i] != '\n')))
	}
	return s
}

type verifSink struct{ rows [][]octosql.Value }

func (s *verifSink) produce(ctx execution.ProduceContext, rec execution.Record) error {
	s.rows = append(s.rows, append([]octosql.Value(nil), rec.Values...))
	return nil
}

func verifMeta(ctx execution.ProduceContext, msg execution.MetadataMessage) error { return nil }

// verifRunCSV infers the schema of content and then executes the datasource over the same content.
func verifRunCSV(content string) (physical.Schema, [][]octosql.Value, error, error) {
	files.VerifResetStdin()
	zzverif.SetStdin([]byte(content))
	ctx := context.Background()
	im, schema, err := Creator(',')(ctx, "stdin", map[string]string{})
	if err != nil {
		return schema, nil, err, nil
	}
	node, err := im.Materialize(ctx, physical.Environment{}, schema, nil)
	zzverif.Assert(err == nil, "materialize-ok")
	sink := &verifSink{}
	runErr := node.Run(execution.ExecutionContext{Context: ctx}, sink.produce, verifMeta)
	return schema, sink.rows, nil, runErr
}

// Reference classification of a cell, used ONLY for the regions of the known findings (the
// oracle itself is octosql.VerifMatches on what the real code produced).
type verifKinds struct{ null, integer, float, boolean, str bool }

func pInt(c string) bool   { _, err := strconv.ParseInt(c, 10, 64); return err == nil }
func pFloat(c string) bool { _, err := strconv.ParseFloat(c, 64); return err == nil }
func pBool(c string) bool  { _, err := strconv.ParseBool(c); return err == nil }
func fInt(c string) bool   { _, err := fastfloat.ParseInt64(c); return err == nil }
func fFloat(c string) bool { _, err := fastfloat.Parse(c); return err == nil }

// add records the kind the (repaired, c3d5377) inference sees in cell c: it classifies with the
// parsers of the execution, fastfloat.ParseInt64 / fastfloat.Parse (cells are too short to be times).
func (k *verifKinds) add(c string) {
	switch {
	case c == "":
		k.null = true
	case fInt(c):
		k.integer = true
	case fFloat(c):
		k.float = true
	case pBool(c):
		k.boolean = true
	default:
		k.str = true
	}
}

// verifNumberSyntaxGap: the inference (strconv) takes c for a number, the execution (fastfloat)
// cannot parse it: "+1", ".5", "5.", "-.5", "+.5", "1.", "+1e1", ...
func verifNumberSyntaxGap(c string) bool {
	if c == "" {
		return false
	}
	if pInt(c) {
		return !fInt(c)
	}
	return pFloat(c) && !fFloat(c)
}

// verifRepresentable: a cell beyond the preview can be represented in the column type inferred
// from a preview whose cells had the kinds p.
func verifRepresentable(p verifKinds, c string) bool {
	if c == "" {
		return p.null
	}
	if p.str {
		return true
	}
	return (p.integer && fInt(c)) || (p.float && fFloat(c)) || (p.boolean && pBool(c))
}

// VerifC24CSV: PRE distinct cells inside the preview, cells of <= L arbitrary bytes; with POST=1
// the first cell is repeated so that the preview is exactly full (100 rows) and one more row with
// its own cell lies beyond it. If Run succeeds every produced value matches the inferred type of
// its column (so a cell that the inferred column type cannot hold must make Run fail: a silently
// converted cell does not match).
func VerifC24CSV() {
	pre, l, post := zzverif.Param("PRE"), zzverif.Param("L"), zzverif.Param("POST")
	cells := make([]string, pre+post)
	fixed := 0
	if zzverif.ParamOr("FIX", 0) == 1 {
		// FIX=1: all previewed cells but the last come from a small catalogue of kinds (empty, int,
		// text, boolean, float) chosen by forking; only the last previewed cell (and the one beyond
		// the preview) is an arbitrary byte string. Reaches unions of three kinds cheaply.
		fixed = pre - 1
	}
	catalogue := []string{"", "1", "x", "t", "2.5"}
	for i := range cells {
		if i < fixed {
			cells[i] = catalogue[zzverif.Choice(fmt.Sprintf("c%d.kind", i), len(catalogue))]
			continue
		}
		cells[i] = verifCell(fmt.Sprintf("c%d", i), l)
	}
	content := "k,v\n"
	n := 0
	add := func(c string) {
		content += "x," + c + "\n"
		n++
	}
	if post == 1 {
		for i := 0; i < 100-pre; i++ {
			add(cells[0])
		}
	}
	for i := range cells {
		add(cells[i])
	}
	// POST=1: n = 101, rows 0..99 are the preview, the last one is beyond it
	schema, got, cerr, rerr := verifRunCSV(content)
	zzverif.Assert(cerr == nil, "creator-no-error")
	zzverif.Assert(len(schema.Fields) == 2 && schema.Fields[0].Name == "k" && schema.Fields[1].Name == "v", "schema-has-k-v")
	zzverif.Reach("inferred")

	// Before c3d5377 the inference classified with strconv and the execution parsed with fastfloat:
	// a previewed cell like "+1", ".5", "5." made an Int / Float column receive Strings
	// (C24-csv-number-syntax, repaired; verifNumberSyntaxGap describes those cells). No marker is
	// left for it: on the repaired tree nothing may fail there.
	var p verifKinds
	for i := 0; i < pre; i++ {
		p.add(cells[i])
	}
	zzverif.Known("C24-csv-beyond-preview-silent", post == 1 && !verifRepresentable(p, cells[pre]))

	if rerr != nil {
		zzverif.Reach("run-error")
		return // an error is the permitted outcome for an unrepresentable cell
	}
	zzverif.Assert(len(got) == n, "one-record-per-row")
	t := schema.Fields[1].Type
	for i := range got {
		zzverif.Assert(len(got[i]) == 2, "two-values")
		zzverif.Assert(octosql.VerifMatches(got[i][0], schema.Fields[0].Type), "k-matches-type")
		zzverif.Assert(octosql.VerifMatches(got[i][1], t), "v-matches-inferred-type")
	}
	zzverif.Reach("checked")
}
