package csv

import (
	"fmt"
	"math"
	"strconv"

	"github.com/cube2222/octosql/octosql"
	"github.com/cube2222/octosql/zzverif"
)

// ---------------------------------------------------------------------------------------------
// C23 (CSV) — one record per row, in file order, carrying the values the row contains.
// REAL Creator + Run through encoding/csv, file "a,b" + ROWS rows of two symbolic cells on stdin.
// ---------------------------------------------------------------------------------------------

// verifCellCarried: value v is what cell text c denotes: NULL for the empty cell, otherwise the
// text itself (String), or the number / boolean that the standard library reads from the text.
func verifCellCarried(c string, v octosql.Value) bool {
	switch v.TypeID {
	case octosql.TypeIDNull:
		return c == ""
	case octosql.TypeIDString:
		return c != "" && zzverif.StrEq(v.Str, c)
	case octosql.TypeIDInt:
		x, err := strconv.ParseInt(c, 10, 64)
		return err == nil && x == v.Int
	case octosql.TypeIDFloat:
		f, err := strconv.ParseFloat(c, 64)
		return err == nil && (math.Float64bits(f) == math.Float64bits(v.Float) || (f != f && v.Float != v.Float))
	case octosql.TypeIDBoolean:
		b, err := strconv.ParseBool(c)
		return err == nil && b == v.Boolean
	}
	return false
}

func VerifC23CSV() {
	rows, l := zzverif.Param("ROWS"), zzverif.Param("L")
	symB := zzverif.Param("B") == 1 // B=1: both columns symbolic; B=0: column b holds the row number
	cells := make([][2]string, rows)
	content := "a,b\n"
	for r := range cells {
		cells[r][0] = verifCell(fmt.Sprintf("r%d.c0", r), l)
		if symB {
			cells[r][1] = verifCell(fmt.Sprintf("r%d.c1", r), l)
		} else {
			cells[r][1] = strconv.Itoa(r) // concrete row number: shows the order
		}
		content += cells[r][0] + "," + cells[r][1] + "\n"
	}
	schema, got, cerr, rerr := verifRunCSV(content)
	zzverif.Assert(cerr == nil, "creator-no-error")
	zzverif.Assert(rerr == nil, "run-no-error")
	zzverif.Assert(len(schema.Fields) == 2 && schema.Fields[0].Name == "a" && schema.Fields[1].Name == "b", "schema-has-a-b")
	zzverif.Reach("ran")
	zzverif.Assert(len(got) == rows, "one-record-per-row")
	for r := range got {
		zzverif.Assert(len(got[r]) == 2, "two-values")
		for c := 0; c < 2; c++ {
			zzverif.Assert(verifCellCarried(cells[r][c], got[r][c]), "record-carries-the-cell")
		}
	}
}
