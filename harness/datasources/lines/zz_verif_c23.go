package lines

import (
	"context"
	"os"
	"syscall"
	"time"
	"unsafe"

	"github.com/cube2222/octosql/execution"
	"github.com/cube2222/octosql/execution/files"
	"github.com/cube2222/octosql/octosql"
	"github.com/cube2222/octosql/physical"
	"github.com/cube2222/octosql/zzverif"
)

// ---------------------------------------------------------------------------------------------
// C23 (a) — the lines datasource splits exactly at the configured separator.
// The REAL Creator, Materialize and DatasourceExecuting.Run (real bufio.Scanner, real split
// closure), content piped on stdin.
// ---------------------------------------------------------------------------------------------

type verifSink struct{ rows [][]octosql.Value }

func (s *verifSink) produce(ctx execution.ProduceContext, rec execution.Record) error {
	s.rows = append(s.rows, append([]octosql.Value(nil), rec.Values...))
	return nil
}

func verifMeta(ctx execution.ProduceContext, msg execution.MetadataMessage) error { return nil }

// verifSplit is the reference: the pieces of content between non-overlapping occurrences of sep,
// scanned left to right; a final piece is a row only if it is non-empty (a file that ends with the
// separator has no extra empty last row; an empty file has no rows).
func verifSplit(content, sep string) []string {
	var out []string
	start := 0
	for i := 0; i+len(sep) <= len(content); {
		if content[i:i+len(sep)] == sep {
			out = append(out, content[start:i])
			i += len(sep)
			start = i
		} else {
			i++
		}
	}
	if start < len(content) {
		out = append(out, content[start:])
	}
	return out
}

// verifSetStdinChunked: content on stdin. Under the engine the harness parameter STDIN_CHUNKS=1
// makes every read of stdin return an arbitrary non-empty part of what is left (forked, nd values
// stdin.chunk#k = part length - 1, drawn only when more than one byte is left), so that a
// separator can straddle two fills of the bufio.Scanner buffer with tiny content. A native replay
// reproduces exactly those parts: a feeder goroutine writes one part into a pipe and waits until
// the reader has drained it (FIONREAD == 0) before it writes the next one.
func verifSetStdinChunked(content []byte) {
	if zzverif.Symbolic() || zzverif.ParamOr("STDIN_CHUNKS", 0) != 1 {
		zzverif.SetStdin(content)
		return
	}
	var parts [][]byte
	for rest := content; len(rest) > 0; {
		n := 1
		if len(rest) > 1 {
			n = 1 + zzverif.Choice("stdin.chunk", len(rest))
		}
		parts = append(parts, append([]byte(nil), rest[:n]...))
		rest = rest[n:]
	}
	r, w, err := os.Pipe()
	if err != nil {
		panic(err)
	}
	fd := r.Fd()
	go func() {
		for _, part := range parts {
			w.Write(part)
			for {
				var avail int32
				syscall.Syscall(syscall.SYS_IOCTL, fd, 0x541B /* FIONREAD */, uintptr(unsafe.Pointer(&avail)))
				if avail == 0 {
					break
				}
				time.Sleep(50 * time.Microsecond)
			}
		}
		w.Close()
	}()
	os.Stdin = r
}

func verifContains(content, sep string) bool {
	for i := 0; i+len(sep) <= len(content); i++ {
		if content[i:i+len(sep)] == sep {
			return true
		}
	}
	return false
}

// VerifC23Lines: every content of <= L bytes, every separator of exactly SEP bytes (SEP=0: the
// default separator "\n", no option given). One record per piece, in order, numbered from 0,
// text = the piece.
func VerifC23Lines() {
	l, sepLen := zzverif.Param("L"), zzverif.Param("SEP")
	content := zzverif.Bytes("content", l)
	opts := map[string]string{}
	sep := "\n"
	if sepLen > 0 {
		sep = zzverif.BytesN("sep", sepLen)
		opts["sep"] = sep
	}
	files.VerifResetStdin()
	verifSetStdinChunked([]byte(content))
	ctx := context.Background()
	im, schema, err := Creator(ctx, "stdin", opts)
	zzverif.Assert(err == nil, "creator-no-error")
	node, err := im.Materialize(ctx, physical.Environment{}, schema, nil)
	zzverif.Assert(err == nil, "materialize-ok")
	sink := &verifSink{}
	err = node.Run(execution.ExecutionContext{Context: ctx}, sink.produce, verifMeta)
	zzverif.Assert(err == nil, "run-no-error")
	zzverif.Reach("ran")

	want := verifSplit(content, sep)
	// known: with the separator "\n" (the default) Run uses bufio.ScanLines, which also removes
	// one '\r' at the end of every piece
	crlf := false
	for _, w := range want {
		crlf = crlf || (len(w) > 0 && w[len(w)-1] == '\r')
	}
	zzverif.Known("C23-lines-newline-strips-cr", sep == "\n" && crlf)
	zzverif.Assert(len(sink.rows) == len(want), "one-record-per-piece")
	for i := range want {
		row := sink.rows[i]
		zzverif.Assert(len(row) == 2 && row[0].TypeID == octosql.TypeIDInt && row[1].TypeID == octosql.TypeIDString, "row-shape")
		zzverif.Assert(row[0].Int == int64(i), "numbered-in-order")
		zzverif.Assert(zzverif.StrEq(row[1].Str, want[i]), "text-is-the-piece")
	}
}
