package lines

import (
	"context"

	"github.com/cube2222/octosql/execution"
	"github.com/cube2222/octosql/execution/files"
	"github.com/cube2222/octosql/physical"
	"github.com/cube2222/octosql/zzverif"
)

// VerifC06LinesReadError (C06): standard input delivers an arbitrary content of <= L bytes and
// then fails with a read error (not EOF). The REAL Creator, Materialize and Run: the query must
// fail, i.e. Creator, Materialize or Run returns a non-nil error. SEP=0 default separator, else
// an arbitrary separator of SEP bytes.
func VerifC06LinesReadError() {
	l, sepLen := zzverif.Param("L"), zzverif.Param("SEP")
	content := zzverif.Bytes("content", l)
	opts := map[string]string{}
	if sepLen > 0 {
		opts["sep"] = zzverif.BytesN("sep", sepLen)
	}
	files.VerifResetStdin()
	zzverif.SetStdinFailing([]byte(content))
	ctx := context.Background()
	im, schema, err := Creator(ctx, "stdin", opts)
	if err != nil {
		zzverif.Reach("creator-error")
		return
	}
	node, err := im.Materialize(ctx, physical.Environment{}, schema, nil)
	if err != nil {
		return
	}
	sink := &verifSink{}
	err = node.Run(execution.ExecutionContext{Context: ctx}, sink.produce, verifMeta)
	zzverif.Reach("ran")
	zzverif.Assert(err != nil, "input-read-error-reported")
}
