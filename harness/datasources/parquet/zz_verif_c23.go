package parquet

import (
	"fmt"

	"github.com/segmentio/parquet-go"

	"github.com/cube2222/octosql/octosql"
	"github.com/cube2222/octosql/zzverif"
)

// C23 — parquet row reconstruction (reconstruct.go): a parquet row is the Dremel-order list of
// leaf values with repetition / definition levels and column indexes, as the parquet-go reader
// delivers it; reconstructFuncOfSchemaFields must rebuild exactly the nested value.
//
// The harness shreds a nested value itself (non-empty lists only, where the level encoding is
// unambiguous) for two schemas:
//   SCHEMA 0: message { repeated int64 a; required int64 b; }
//   SCHEMA 1: message { repeated group a { repeated int64 inner; } required int64 b; }
// List lengths 1..N are forked, the integers are symbolic. USED=0 reads both columns (a, b),
// USED=1 only a (what SELECT a does: column b is then absent from the row).

func verifLeaf(v int64, rep, def, col int) parquet.Value { return parquet.ValueOf(v).Level(rep, def, col) }

func verifIntList(vs []int64) octosql.Value {
	out := make([]octosql.Value, len(vs))
	for i := range vs {
		out[i] = octosql.NewInt(vs[i])
	}
	return octosql.NewList(out)
}

func VerifC23ParquetReconstruct() {
	n := zzverif.Param("N")
	onlyA := zzverif.Param("USED") == 1
	var schema parquet.Node
	var row parquet.Row
	var wantA octosql.Value
	switch zzverif.Param("SCHEMA") {
	case 0:
		schema = parquet.Group{"a": parquet.Repeated(parquet.Int(64)), "b": parquet.Int(64)}
		k := 1 + zzverif.Choice("a.len", n)
		vs := make([]int64, k)
		for i := range vs {
			vs[i] = zzverif.Int64(fmt.Sprintf("a%d", i))
			rep := 1
			if i == 0 {
				rep = 0
			}
			row = append(row, verifLeaf(vs[i], rep, 1, 0))
		}
		wantA = verifIntList(vs)
	default:
		schema = parquet.Group{"a": parquet.Repeated(parquet.Group{"inner": parquet.Repeated(parquet.Int(64))}), "b": parquet.Int(64)}
		outer := 1 + zzverif.Choice("a.len", n)
		elems := make([]octosql.Value, outer)
		for i := 0; i < outer; i++ {
			k := 1 + zzverif.Choice(fmt.Sprintf("a%d.len", i), n)
			vs := make([]int64, k)
			for j := range vs {
				vs[j] = zzverif.Int64(fmt.Sprintf("a%d.%d", i, j))
				rep := 2
				if j == 0 {
					rep = 1
					if i == 0 {
						rep = 0
					}
				}
				row = append(row, verifLeaf(vs[j], rep, 2, 0))
			}
			elems[i] = octosql.NewStruct([]octosql.Value{verifIntList(vs)})
		}
		wantA = octosql.NewList(elems)
	}
	b := zzverif.Int64("b")
	used := []string{"a", "b"}
	want := octosql.NewStruct([]octosql.Value{wantA, octosql.NewInt(b)})
	if onlyA {
		used = []string{"a"}
		want = octosql.NewStruct([]octosql.Value{wantA})
	} else {
		row = append(row, verifLeaf(b, 0, 0, 1))
	}
	reconstruct := reconstructFuncOfSchemaFields(schema, used)
	var value octosql.Value
	_, err := reconstruct(&value, levels{}, row)
	zzverif.Reach("reconstructed")
	zzverif.Assert(err == nil, "no-error")
	zzverif.Assert(verifSame(value, want), "record-is-the-nested-value")
}

func verifSame(a, b octosql.Value) bool {
	if a.TypeID != b.TypeID {
		return false
	}
	switch a.TypeID {
	case octosql.TypeIDInt:
		return a.Int == b.Int
	case octosql.TypeIDList:
		if len(a.List) != len(b.List) {
			return false
		}
		ok := true
		for i := range a.List {
			ok = zzverif.And(ok, verifSame(a.List[i], b.List[i]))
		}
		return ok
	case octosql.TypeIDStruct:
		if len(a.Struct) != len(b.Struct) {
			return false
		}
		ok := true
		for i := range a.Struct {
			ok = zzverif.And(ok, verifSame(a.Struct[i], b.Struct[i]))
		}
		return ok
	}
	return false
}
