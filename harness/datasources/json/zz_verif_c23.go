package json

import (
	"fmt"
	"time"

	"github.com/valyala/fastjson"

	"github.com/cube2222/octosql/execution"
	"github.com/cube2222/octosql/octosql"
	"github.com/cube2222/octosql/zzverif"
)

// ---------------------------------------------------------------------------------------------
// C23 (c) — JSON lines come out once each and in file order, whatever the order in which the
// parser workers finish. The REAL Creator and the REAL DatasourceExecuting.Run (line reader
// goroutine, token channel, reorder queue keyed by line number, termination test). The global
// worker pool is replaced (package variable parserWorkReceiveChannel) by ONE adversarial worker
// that holds the jobs it has received and, step by step, either receives the next job or finishes
// any one of the held jobs (both choices forked: every completion order, every interleaving with
// the reader). tail=true makes every line its own job (batch size 1).
// The engine's scheduler is cooperative and deterministic, so the real pool would never reorder.
// ---------------------------------------------------------------------------------------------

// verifParseJob is the body of the real worker loop (workers.go) for one job.
func verifParseJob(p *fastjson.Parser, job jobIn) []jobOutRecord {
	outJobs := make([]jobOutRecord, len(job.lines))
	for i := range outJobs {
		out := &outJobs[i]
		out.line = job.lines[i]
		v, err := p.ParseBytes(job.data[i])
		if err != nil {
			out.err = fmt.Errorf("couldn't parse json: %w", err)
			continue
		}
		o, err := v.Object()
		if err != nil {
			out.err = fmt.Errorf("expected JSON object, got '%s'", string(job.data[i]))
			continue
		}
		values := make([]octosql.Value, len(job.fields))
		for i := range values {
			values[i], _ = getOctoSQLValue(job.fields[i].Type, o.Get(job.fields[i].Name))
		}
		out.record = execution.NewRecord(values, false, time.Time{})
	}
	return outJobs
}

func verifAdversarialWorker(in <-chan jobIn, expectJobs int) {
	var p fastjson.Parser
	var held []jobIn
	received := 0
	for received < expectJobs || len(held) > 0 {
		receive := len(held) == 0
		if !receive && received < expectJobs {
			receive = zzverif.Choice("worker.receive", 2) == 1
		}
		if receive {
			held = append(held, <-in)
			received++
			continue
		}
		k := zzverif.Choice("worker.finish", len(held))
		job := held[k]
		held = append(held[:k:k], held[k+1:]...)
		job.outChan <- verifParseJob(&p, job)
	}
}

func VerifC23JSONOrder() {
	n := zzverif.Param("N")
	tail := zzverif.Param("TAIL") == 1
	// SCHED=1: every select with several ready cases forks (consumer: job output vs reader done)
	zzverif.FixedSchedule(zzverif.Param("SCHED") == 0)
	content := ""
	for i := 0; i < n; i++ {
		content += fmt.Sprintf("{\"v\":%d}\n", i+1)
	}
	if zzverif.Param("NOEOL") == 1 {
		content = content[:len(content)-1] // last line without terminator
	}
	// tail=true: one job per line; otherwise batches of 64 lines (N > 64: several jobs, so that a
	// LATER batch of several lines can be finished before an earlier one and has to wait in the queue)
	jobs := (n + 63) / 64
	if tail {
		jobs = n
	}
	in := make(chan jobIn, 128)
	saved := parserWorkReceiveChannel
	parserWorkReceiveChannel = in
	defer func() { parserWorkReceiveChannel = saved }()
	go verifAdversarialWorker(in, jobs)

	schema, got, cerr, rerr := verifRunJSON(content, tail)
	zzverif.Assert(cerr == nil, "creator-no-error")
	zzverif.Assert(rerr == nil, "run-no-error")
	zzverif.Assert(len(schema.Fields) == 1 && schema.Fields[0].Name == "v", "schema-has-v")
	zzverif.Reach("ran")
	zzverif.Assert(len(got) == n, "one-record-per-line")
	for i := range got {
		zzverif.Assert(len(got[i]) == 1 && got[i][0].TypeID == octosql.TypeIDFloat, "row-shape")
		zzverif.Assert(got[i][0].Float == float64(i+1), "file-order")
	}
}
