package json

import (
	"fmt"

	"github.com/cube2222/octosql/execution"
	"github.com/cube2222/octosql/execution/files"
	"github.com/cube2222/octosql/physical"
	"github.com/cube2222/octosql/zzverif"
)

// VerifC06JSONReadError (C06): standard input delivers N well-formed JSON lines and then fails
// with a read error (not EOF). N below the preview size: the failure is hit by Creator's preview;
// N above it (101+): by Run (real reader goroutine, real parser workers, real reorder loop). The
// query must fail: Creator or Run returns a non-nil error. SCHED=1 forks every select.
func VerifC06JSONReadError() {
	n := zzverif.Param("N")
	zzverif.FixedSchedule(zzverif.Param("SCHED") == 0)
	content := ""
	for i := 0; i < n; i++ {
		content += fmt.Sprintf("{\"v\":%d}\n", i+1)
	}
	files.VerifResetStdin()
	zzverif.SetStdinFailing([]byte(content))
	ctx := verifCtx()
	im, schema, err := Creator(ctx, "stdin", map[string]string{})
	if err != nil {
		zzverif.Reach("creator-error")
		return
	}
	node, err := im.Materialize(ctx, physical.Environment{}, schema, nil)
	zzverif.Assert(err == nil, "materialize-ok")
	sink := &verifSink{}
	err = node.Run(execution.ExecutionContext{Context: ctx}, sink.produce, verifMeta)
	zzverif.Reach("ran")
	zzverif.Assert(err != nil, "input-read-error-reported")
}
