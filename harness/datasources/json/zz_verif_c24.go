package json

import (
	"fmt"

	"github.com/valyala/fastjson"

	"github.com/cube2222/octosql/octosql"
	"github.com/cube2222/octosql/zzverif"
)

// ---------------------------------------------------------------------------------------------
// C24 (JSON) — values produced by getOctoSQLValue match the type inferred by getOctoSQLType
// ---------------------------------------------------------------------------------------------

const (
	vjNull = iota
	vjTrue
	vjFalse
	vjNumber
	vjString
	vjTime
	vjArray
	vjObject
)

// verifJ is the harness's own description of a JSON value (the text handed to the real fastjson
// parser is rendered from it, and the reference predicates are defined on it).
type verifJ struct {
	kind  int
	s     string // string content (raw, needs no escaping) or number lexeme
	elems []verifJ
	keys  []string
}

const verifTimeText = "2021-03-04T05:06:07.5Z"

// verifGenJ draws a JSON value: null, true, false, a number (-?D or D.D with symbolic digits), a
// string of <= strLen symbolic bytes (>= 0x20, no quote, no backslash: the escape layer of the
// parser is outside), one RFC 3339 time string, and for depth > 0 arrays of <= maxElems values and
// objects over the keys a, b (every subset of the first maxElems keys, in that order).
func verifGenJ(name string, depth, maxElems, strLen int) verifJ {
	n := vjArray
	if depth > 0 {
		n = vjObject + 1
	}
	kind := zzverif.Choice(name+".kind", n)
	switch kind {
	case vjNumber:
		d := zzverif.BytesN(name+".num", 2)
		zzverif.Assume(zzverif.And(zzverif.And(d[0] >= '0', d[0] <= '9'), zzverif.And(d[1] >= '0', d[1] <= '9')))
		switch zzverif.Choice(name+".numform", 3) {
		case 0:
			return verifJ{kind: kind, s: d[:1]}
		case 1:
			return verifJ{kind: kind, s: "-" + d[:1]}
		default:
			return verifJ{kind: kind, s: d[:1] + "." + d[1:]}
		}
	case vjString:
		s := zzverif.Bytes(name+".str", strLen)
		for i := 0; i < len(s); i++ {
			zzverif.Assume(zzverif.And(s[i] >= 0x20, zzverif.And(s[i] != '"', s[i] != '\\')))
		}
		return verifJ{kind: kind, s: s}
	case vjTime:
		return verifJ{kind: kind, s: verifTimeText}
	case vjArray:
		cnt := zzverif.Choice(name+".n", maxElems+1)
		j := verifJ{kind: kind}
		for i := 0; i < cnt; i++ {
			j.elems = append(j.elems, verifGenJ(fmt.Sprintf("%s.%d", name, i), depth-1, maxElems, strLen))
		}
		return j
	case vjObject:
		j := verifJ{kind: kind}
		for i := 0; i < maxElems; i++ {
			if zzverif.Choice(fmt.Sprintf("%s.has%d", name, i), 2) == 1 {
				j.keys = append(j.keys, string([]byte{byte('a' + i)}))
				j.elems = append(j.elems, verifGenJ(fmt.Sprintf("%s.%c", name, 'a'+i), depth-1, maxElems, strLen))
			}
		}
		return j
	}
	return verifJ{kind: kind}
}

func (j verifJ) text() string {
	switch j.kind {
	case vjNull:
		return "null"
	case vjTrue:
		return "true"
	case vjFalse:
		return "false"
	case vjNumber:
		return j.s
	case vjString, vjTime:
		return "\"" + j.s + "\""
	case vjArray:
		out := "["
		for i, e := range j.elems {
			if i > 0 {
				out += ","
			}
			out += e.text()
		}
		return out + "]"
	}
	out := "{"
	for i, e := range j.elems {
		if i > 0 {
			out += ","
		}
		out += "\"" + j.keys[i] + "\":" + e.text()
	}
	return out + "}"
}

func verifParse(j verifJ) *fastjson.Value {
	var p fastjson.Parser
	v, err := p.ParseBytes([]byte(j.text()))
	zzverif.Assert(err == nil, "generated-text-parses")
	return v
}

// VerifC24JSONSelf: a value X that is part of the preview. t = getOctoSQLType(X) (arrays make the
// real code TypeSum the element types, objects make it deep-merge): getOctoSQLValue(t, X) must
// succeed and its value must match t.
func VerifC24JSONSelf() {
	x := verifGenJ("x", zzverif.Param("D"), zzverif.Param("E"), zzverif.Param("S"))
	xv := verifParse(x)
	t := getOctoSQLType(xv)
	zzverif.Reach("typed")
	val, ok := getOctoSQLValue(t, xv)
	zzverif.Assert(ok, "preview-value-is-representable")
	zzverif.Assert(octosql.VerifMatches(val, t), "value-matches-inferred-type")
}
