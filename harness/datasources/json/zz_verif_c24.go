package json

import (
	"sync/atomic"
	"context"
	"fmt"
	"math"
	"strconv"
	"time"

	"github.com/valyala/fastjson"

	"github.com/cube2222/octosql/config"
	"github.com/cube2222/octosql/execution"
	"github.com/cube2222/octosql/execution/files"
	"github.com/cube2222/octosql/octosql"
	"github.com/cube2222/octosql/physical"
	"github.com/cube2222/octosql/zzverif"
)

// ---------------------------------------------------------------------------------------------
// C24 (JSON) — values produced by getOctoSQLValue match the type inferred by getOctoSQLType
// ---------------------------------------------------------------------------------------------

const (
	vjNull = iota
	vjTrue
	vjFalse
	vjNumber
	vjString
	vjTime
	vjArray
	vjObject
)

// verifJ is the harness's own description of a JSON value (the text handed to the real fastjson
// parser is rendered from it, and the reference predicates are defined on it).
type verifJ struct {
	kind  int
	s     string // string content (raw, needs no escaping) or number lexeme
	elems []verifJ
	keys  []string
}

// verifNumSamples: numbers are drawn from verifNumLexemes instead of symbolic digits (used where
// the produced Float is compared with strconv.ParseFloat of the lexeme: a symbolic decimal-to-
// float conversion is beyond the solver).
var verifNumSamples bool
var verifNumLexemes = []string{"0", "-7", "2.5", "0.1", "-0", "1e3", "12345678901234567890", "1.7976931348623157e308"}

const verifTimeText = "2021-03-04T05:06:07.5Z"

// verifGenJ draws a JSON value: null, true, false, a number (-?D or D.D with symbolic digits), a
// string of <= strLen symbolic bytes (>= 0x20, no quote, no backslash: the escape layer of the
// parser is outside), one RFC 3339 time string, and for depth > 0 arrays of <= maxElems values and
// objects over the keys a, b (every subset of the first maxElems keys, in that order).
func verifGenJ(name string, depth, maxElems, strLen int) verifJ {
	n := vjArray
	if depth > 0 {
		n = vjObject + 1
	}
	kind := zzverif.Choice(name+".kind", n)
	switch kind {
	case vjNumber:
		if verifNumSamples {
			return verifJ{kind: kind, s: verifNumLexemes[zzverif.Choice(name+".numsample", len(verifNumLexemes))]}
		}
		d := zzverif.BytesN(name+".num", 2)
		zzverif.Assume(zzverif.And(zzverif.And(d[0] >= '0', d[0] <= '9'), zzverif.And(d[1] >= '0', d[1] <= '9')))
		switch zzverif.Choice(name+".numform", 3) {
		case 0:
			return verifJ{kind: kind, s: d[:1]}
		case 1:
			return verifJ{kind: kind, s: "-" + d[:1]}
		default:
			return verifJ{kind: kind, s: d[:1] + "." + d[1:]}
		}
	case vjString:
		s := zzverif.Bytes(name+".str", strLen)
		for i := 0; i < len(s); i++ {
			zzverif.Assume(zzverif.And(s[i] >= 0x20, zzverif.And(s[i] != '"', s[i] != '\\')))
		}
		return verifJ{kind: kind, s: s}
	case vjTime:
		return verifJ{kind: kind, s: verifTimeText}
	case vjArray:
		cnt := zzverif.Choice(name+".n", maxElems+1)
		j := verifJ{kind: kind}
		for i := 0; i < cnt; i++ {
			j.elems = append(j.elems, verifGenJ(fmt.Sprintf("%s.%d", name, i), depth-1, maxElems, strLen))
		}
		return j
	case vjObject:
		j := verifJ{kind: kind}
		for i := 0; i < maxElems; i++ {
			if zzverif.Choice(fmt.Sprintf("%s.has%d", name, i), 2) == 1 {
				j.keys = append(j.keys, string([]byte{byte('a' + i)}))
				j.elems = append(j.elems, verifGenJ(fmt.Sprintf("%s.%c", name, 'a'+i), depth-1, maxElems, strLen))
			}
		}
		return j
	}
	return verifJ{kind: kind}
}

func (j verifJ) text() string {
	switch j.kind {
	case vjNull:
		return "null"
	case vjTrue:
		return "true"
	case vjFalse:
		return "false"
	case vjNumber:
		return j.s
	case vjString, vjTime:
		return "\"" + j.s + "\""
	case vjArray:
		out := "["
		for i, e := range j.elems {
			if i > 0 {
				out += ","
			}
			out += e.text()
		}
		return out + "]"
	}
	out := "{"
	for i, e := range j.elems {
		if i > 0 {
			out += ","
		}
		out += "\"" + j.keys[i] + "\":" + e.text()
	}
	return out + "}"
}

func verifParse(j verifJ) *fastjson.Value {
	var p fastjson.Parser
	v, err := p.ParseBytes([]byte(j.text()))
	zzverif.Assert(err == nil, "generated-text-parses")
	return v
}

// ---------- reference predicates (over the reported type and the harness's own tree) ----------

var verifMissing = verifJ{kind: -1}

func (j verifJ) get(key string) verifJ {
	for i, k := range j.keys {
		if k == key {
			return j.elems[i]
		}
	}
	return verifMissing
}

func (j verifJ) nullish() bool { return j.kind == vjNull || j.kind == -1 }

// verifRepr: JSON value y can be represented in type t ("the inferred schema"): null / a missing
// key need a nullable type, numbers need Float, booleans Boolean, strings String (or Time when the
// text is an RFC 3339 time), arrays a list whose element type represents every element, objects a
// struct type that represents every one of ITS fields (keys the type does not know are ignored,
// like unknown top-level columns).
func verifRepr(t octosql.Type, y verifJ) bool {
	switch t.TypeID {
	case octosql.TypeIDAny:
		return true
	case octosql.TypeIDNull:
		return y.nullish()
	case octosql.TypeIDFloat:
		return y.kind == vjNumber
	case octosql.TypeIDBoolean:
		return y.kind == vjTrue || y.kind == vjFalse
	case octosql.TypeIDString:
		return y.kind == vjString || y.kind == vjTime
	case octosql.TypeIDTime:
		return y.kind == vjTime
	case octosql.TypeIDList:
		if y.kind != vjArray {
			return false
		}
		for _, e := range y.elems {
			if t.List.Element == nil || !verifRepr(*t.List.Element, e) {
				return false
			}
		}
		return true
	case octosql.TypeIDStruct:
		if y.kind != vjObject {
			return false
		}
		for _, f := range t.Struct.Fields {
			if !verifRepr(f.Type, y.get(f.Name)) {
				return false
			}
		}
		return true
	case octosql.TypeIDUnion:
		for _, alt := range t.Union.Alternatives {
			if verifRepr(alt, y) {
				return true
			}
		}
	}
	return false
}

// verifNilElem: region of C24-json-empty-list-type-panic — y has a non-empty array at a position
// whose inferred type is a list WITHOUT element type (every array seen there by the inference was
// empty): getOctoSQLValue dereferences the nil element type.
func verifNilElem(t octosql.Type, y verifJ) bool {
	switch t.TypeID {
	case octosql.TypeIDList:
		if y.kind != vjArray {
			return false
		}
		if t.List.Element == nil {
			return len(y.elems) > 0
		}
		for _, e := range y.elems {
			if verifNilElem(*t.List.Element, e) {
				return true
			}
		}
	case octosql.TypeIDStruct:
		if y.kind != vjObject {
			return false
		}
		for _, f := range t.Struct.Fields {
			if verifNilElem(f.Type, y.get(f.Name)) {
				return true
			}
		}
	case octosql.TypeIDUnion:
		for _, alt := range t.Union.Alternatives {
			if verifNilElem(alt, y) {
				return true
			}
		}
	}
	return false
}

// verifHasNullish: y (read at type t) contains a null or lacks a field of t, at any depth.
func verifHasNullish(t octosql.Type, y verifJ) bool {
	if y.nullish() {
		return true
	}
	switch t.TypeID {
	case octosql.TypeIDList:
		if y.kind == vjArray && t.List.Element != nil {
			for _, e := range y.elems {
				if verifHasNullish(*t.List.Element, e) {
					return true
				}
			}
		}
	case octosql.TypeIDStruct:
		if y.kind == vjObject {
			for _, f := range t.Struct.Fields {
				if verifHasNullish(f.Type, y.get(f.Name)) {
					return true
				}
			}
		}
	case octosql.TypeIDUnion:
		for _, alt := range t.Union.Alternatives {
			if verifHasNullish(alt, y) {
				return true
			}
		}
	}
	return false
}

// verifNullInUnionContainer: region of C24-json-null-not-ok — getOctoSQLValue reports ok=false
// for every JSON null and for every missing key of a nullable field (the value NULL it returns is
// right). A Union type only accepts an alternative that reports ok=true, so an array / object that
// contains such a null, at a position typed as a union with a list / struct alternative, is
// rejected by every alternative and becomes NULL as a whole.
func verifNullInUnionContainer(t octosql.Type, y verifJ) bool {
	switch t.TypeID {
	case octosql.TypeIDList:
		if y.kind == vjArray && t.List.Element != nil {
			for _, e := range y.elems {
				if verifNullInUnionContainer(*t.List.Element, e) {
					return true
				}
			}
		}
	case octosql.TypeIDStruct:
		if y.kind == vjObject {
			for _, f := range t.Struct.Fields {
				if verifNullInUnionContainer(f.Type, y.get(f.Name)) {
					return true
				}
			}
		}
	case octosql.TypeIDUnion:
		for _, alt := range t.Union.Alternatives {
			if (alt.TypeID == octosql.TypeIDList && y.kind == vjArray) || (alt.TypeID == octosql.TypeIDStruct && y.kind == vjObject) {
				if verifHasNullish(alt, y) || verifNullInUnionContainer(alt, y) {
					return true
				}
			}
		}
	}
	return false
}

// VerifC24JSONSelf: a value X that is part of the preview. t = getOctoSQLType(X) (arrays make the
// real code TypeSum the element types, objects in arrays make it deep-merge): the value that
// getOctoSQLValue(t, X) returns (the worker ignores `ok`) must match t.
func VerifC24JSONSelf() {
	x := verifGenJ("x", zzverif.Param("D"), zzverif.Param("E"), zzverif.Param("S"))
	xv := verifParse(x)
	t := getOctoSQLType(xv)
	zzverif.Reach("typed")
	zzverif.Assert(verifRepr(t, x), "reference: a previewed value is representable in its own type")
	zzverif.Known("C24-json-null-not-ok", verifNullInUnionContainer(t, x))
	val, ok := getOctoSQLValue(t, xv)
	zzverif.Assert(octosql.VerifMatches(val, t), "value-matches-inferred-type")
	zzverif.Assert(ok || verifHasNullish(t, x), "ok-unless-null-inside")
}

// VerifC24JSONPair: X is what the preview saw, Y is a value of a later row, t = getOctoSQLType(X).
// getOctoSQLValue(t, Y) flags exactly the values that t cannot represent (ok=false — what the
// worker does with the flag is checked by VerifC24JSONFile) and an accepted value matches t.
func VerifC24JSONPair() {
	d, e, sl := zzverif.Param("D"), zzverif.Param("E"), zzverif.Param("S")
	x := verifGenJ("x", d, e, sl)
	y := verifGenJ("y", d, e, sl)
	t := getOctoSQLType(verifParse(x))
	yv := verifParse(y)
	zzverif.Reach("typed")
	zzverif.Known("C24-json-empty-list-type-panic", verifNilElem(t, y))
	val, ok := getOctoSQLValue(t, yv)
	zzverif.Assert(verifRepr(t, y) || !ok, "unrepresentable-is-flagged")
	zzverif.Assert(!ok || octosql.VerifMatches(val, t), "accepted-value-matches-type")
	// ok=false for every null / missing nullable field, although NULL is representable
	zzverif.Known("C24-json-null-not-ok", verifHasNullish(t, y))
	zzverif.Assert(ok || !verifRepr(t, y), "representable-is-accepted")
}

// ---------- file level: the REAL Creator and the REAL DatasourceExecuting.Run (line reader
// goroutine, global parser worker pool, reorder queue), file piped on stdin ----------

type verifSink struct {
	rows  [][]octosql.Value
	count int64 // atomic mirror of len(rows) (read by the native late-EOF feeder)
}

func (s *verifSink) produce(ctx execution.ProduceContext, rec execution.Record) error {
	s.rows = append(s.rows, append([]octosql.Value(nil), rec.Values...))
	atomic.AddInt64(&s.count, 1)
	return nil
}

// verifLineCount: number of non-empty lines in content (what a JSON-lines reader delivers).
func verifLineCount(content string) int64 {
	n, cur := int64(0), 0
	for i := 0; i < len(content); i++ {
		if content[i] == '\n' {
			if cur > 0 {
				n++
			}
			cur = 0
		} else {
			cur++
		}
	}
	if cur > 0 {
		n++
	}
	return n
}

func verifMeta(ctx execution.ProduceContext, msg execution.MetadataMessage) error { return nil }

// verifConfigCtx is context.Background() plus the configuration (context.WithValue is not
// interpretable; config.FromContext only calls Value).
type verifConfigCtx struct {
	context.Context
	cfg *config.Config
}

func (c verifConfigCtx) Value(key any) any { return c.cfg }

func verifCtx() context.Context {
	cfg := &config.Config{}
	cfg.Files.BufferSizeBytes = 4096
	cfg.Files.JSON.MaxLineSizeBytes = 4096
	return verifConfigCtx{Context: context.Background(), cfg: cfg}
}

// verifRunJSON: schema inference over content, then execution over the same content.
func verifRunJSON(content string, tail bool) (physical.Schema, [][]octosql.Value, error, error) {
	files.VerifResetStdin()
	sink := &verifSink{}
	// natively the end of input is held back until every row has been produced: the schedule in
	// which Run sees "reader done" last (the engine explores all select orders by itself)
	want := verifLineCount(content)
	zzverif.SetStdinLateEOF([]byte(content), func() bool { return atomic.LoadInt64(&sink.count) >= want })
	ctx := verifCtx()
	opts := map[string]string{}
	if tail {
		opts["tail"] = "true"
	}
	im, schema, err := Creator(ctx, "stdin", opts)
	if err != nil {
		return schema, nil, err, nil
	}
	node, err := im.Materialize(ctx, physical.Environment{}, schema, nil)
	zzverif.Assert(err == nil, "materialize-ok")
	runErr := node.Run(execution.ExecutionContext{Context: ctx}, sink.produce, verifMeta)
	return schema, sink.rows, nil, runErr
}

// verifLine: {"k":1,"v":<y>} or, for a missing y, {"k":1}.
func verifLine(y verifJ) string {
	if y.kind == -1 {
		return "{\"k\":1}\n"
	}
	return "{\"k\":1,\"v\":" + y.text() + "}\n"
}

// VerifC24JSONFile: a JSON-lines file with PRE distinct lines inside the preview (POST=0), or with
// the first line repeated so that the preview is exactly full (100 lines) and one more line beyond
// it (POST=1). Each line is {"k":1,"v":X} with X of depth <= D, or {"k":1} (key missing, MISS=1).
// If Run succeeds every produced value matches the reported column type, and Run must fail when a
// line cannot be represented in the reported schema.
func VerifC24JSONFile() { verifJSONFile(false) }

// VerifC23JSONValues (C23): the same run; additionally one record per line, in file order, and
// every record CARRIES the line's value: numbers as the Float that strconv.ParseFloat reads from
// the lexeme, strings byte for byte, booleans, null / missing key as NULL, the time string as that
// instant, arrays as lists element by element, objects as structs field by field (in the order
// of the reported struct type; keys the type does not know are dropped).
func VerifC23JSONValues() { verifJSONFile(true) }

// verifCarries: octosql value v is JSON value y read at type t.
func verifCarries(t octosql.Type, y verifJ, v octosql.Value) bool {
	switch {
	case y.nullish():
		return v.TypeID == octosql.TypeIDNull
	case y.kind == vjTrue || y.kind == vjFalse:
		return v.TypeID == octosql.TypeIDBoolean && v.Boolean == (y.kind == vjTrue)
	case y.kind == vjNumber:
		f, err := strconv.ParseFloat(y.s, 64)
		return err == nil && v.TypeID == octosql.TypeIDFloat && math.Float64bits(v.Float) == math.Float64bits(f)
	case y.kind == vjString:
		return v.TypeID == octosql.TypeIDString && zzverif.StrEq(v.Str, y.s)
	case y.kind == vjTime:
		// String | Time columns keep the text (String comes first in the union), Time columns parse it
		if v.TypeID == octosql.TypeIDString {
			return v.Str == y.s
		}
		want, err := time.Parse(time.RFC3339Nano, y.s)
		return err == nil && v.TypeID == octosql.TypeIDTime && v.Time.Equal(want)
	case y.kind == vjArray:
		lt := verifAlt(t, octosql.TypeIDList)
		if v.TypeID != octosql.TypeIDList || len(v.List) != len(y.elems) || lt.List.Element == nil && len(y.elems) > 0 {
			return false
		}
		for i := range y.elems {
			if !verifCarries(*lt.List.Element, y.elems[i], v.List[i]) {
				return false
			}
		}
		return true
	case y.kind == vjObject:
		st := verifAlt(t, octosql.TypeIDStruct)
		if v.TypeID != octosql.TypeIDStruct || len(v.Struct) != len(st.Struct.Fields) {
			return false
		}
		for i, f := range st.Struct.Fields {
			if !verifCarries(f.Type, y.get(f.Name), v.Struct[i]) {
				return false
			}
		}
		return true
	}
	return false
}

func verifAlt(t octosql.Type, id octosql.TypeID) octosql.Type {
	if t.TypeID == octosql.TypeIDUnion {
		for _, a := range t.Union.Alternatives {
			if a.TypeID == id {
				return a
			}
		}
	}
	return t
}

func verifJSONFile(checkValues bool) {
	verifNumSamples = checkValues
	zzverif.FixedSchedule(true) // C24 does not quantify over schedules (C23 does)
	pre, post, miss := zzverif.Param("PRE"), zzverif.Param("POST"), zzverif.Param("MISS")
	d, e, sl := zzverif.Param("D"), zzverif.Param("E"), zzverif.Param("S")
	vals := make([]verifJ, pre+post)
	anyPresent, anyMissingInPreview := false, false
	for i := range vals {
		if miss == 1 && zzverif.Choice(fmt.Sprintf("x%d.missing", i), 2) == 1 {
			vals[i] = verifMissing
			anyMissingInPreview = anyMissingInPreview || i < pre
		} else {
			vals[i] = verifGenJ(fmt.Sprintf("x%d", i), d, e, sl)
			anyPresent = anyPresent || i < pre
		}
	}
	zzverif.Assume(anyPresent) // otherwise the file has no column v at all
	content := ""
	var lines []verifJ
	add := func(y verifJ) {
		content += verifLine(y)
		lines = append(lines, y)
	}
	if post == 1 {
		for i := 0; i < 100-pre; i++ {
			add(vals[0])
		}
	}
	for i := range vals {
		add(vals[i])
	}
	schema, got, cerr, rerr := verifRunJSON(content, false)
	zzverif.Assert(cerr == nil, "creator-no-error")
	zzverif.Assert(len(schema.Fields) == 2 && schema.Fields[0].Name == "k" && schema.Fields[1].Name == "v", "schema-has-k-v")
	zzverif.Reach("inferred")
	t := schema.Fields[1].Type

	// regions of the known findings
	nullable := verifRepr(t, verifMissing)
	zzverif.Known("C24-json-missing-key-not-nullable", anyMissingInPreview && !nullable)
	nilElem, nullInUnion, unrepr := false, false, false
	for i, y := range lines {
		nilElem = nilElem || verifNilElem(t, y)
		nullInUnion = nullInUnion || verifNullInUnionContainer(t, y)
		unrepr = unrepr || !verifRepr(t, y)
		if (post == 0 || i < len(lines)-1) && y.kind != -1 {
			// reference sanity: the type inferred from the preview represents every previewed value
			zzverif.Assert(verifRepr(t, y), "previewed-value-is-representable")
		}
	}
	// A non-empty array beyond the preview at a list type without element type is one of the
	// unrepresentable values (on the tree before cbeae12 it crashed the worker instead:
	// C24-json-empty-list-type-panic, still marked in VerifC24JSONPair).
	_ = nilElem
	unreprPost := post == 1 && !verifRepr(t, vals[pre])
	zzverif.Known("C24-json-null-not-ok", nullInUnion && !unreprPost)
	zzverif.Known("C24-json-beyond-preview-silent", unreprPost)

	zzverif.Assert(!unrepr || rerr != nil, "unrepresentable-line-is-an-error")
	if rerr != nil {
		zzverif.Reach("run-error")
		return
	}
	zzverif.Assert(len(got) == len(lines), "one-record-per-line")
	for i := range got {
		zzverif.Assert(len(got[i]) == 2, "two-values")
		zzverif.Assert(octosql.VerifMatches(got[i][0], schema.Fields[0].Type), "k-matches-type")
		zzverif.Assert(octosql.VerifMatches(got[i][1], t), "v-matches-reported-type")
		if checkValues {
			zzverif.Assert(got[i][0].TypeID == octosql.TypeIDFloat && got[i][0].Float == 1, "k-is-1")
			zzverif.Assert(verifCarries(t, lines[i], got[i][1]), "record-carries-the-line-value")
		}
	}
	zzverif.Reach("checked")
}
