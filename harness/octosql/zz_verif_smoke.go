package octosql

import "github.com/cube2222/octosql/zzverif"

// VerifSmokeInt: antisymmetry of Compare on Int values (engine smoke test).
func VerifSmokeInt() {
	a := NewInt(zzverif.Int64("a"))
	b := NewInt(zzverif.Int64("b"))
	zzverif.Reach("start")
	zzverif.Assert(a.Compare(b) == -b.Compare(a), "antisym")
	zzverif.Assert(a.Compare(a) == 0, "refl")
	if a.Compare(b) == 0 {
		zzverif.Assert(a.Hash() == b.Hash(), "hash")
	}
}

// VerifSmokeFloatTrans: transitivity of equality for floats (expected to FAIL because of NaN).
func VerifSmokeFloatTrans() {
	a := NewFloat(zzverif.Float64("a"))
	b := NewFloat(zzverif.Float64("b"))
	c := NewFloat(zzverif.Float64("c"))
	if a.Compare(b) == 0 && b.Compare(c) == 0 {
		zzverif.Assert(a.Compare(c) == 0, "eqtrans")
	}
}

func VerifSmokeFloatLe() {
	a := NewFloat(zzverif.Float64("a"))
	b := NewFloat(zzverif.Float64("b"))
	c := NewFloat(zzverif.Float64("c"))
	ab := a.Compare(b)
	bc := b.Compare(c)
	ac := a.Compare(c)
	if ab <= 0 && bc <= 0 {
		zzverif.Assert(ac <= 0, "transitive-le")
	}
}

func VerifSmokeFloat3() {
	a := VerifNDScalar("a", zzverif.Choice("ak", 3), 1)
	b := VerifNDScalar("b", zzverif.Choice("bk", 3), 1)
	ab := a.Compare(b)
	c := VerifNDScalar("c", zzverif.Choice("ck", 3), 1)
	bc := b.Compare(c)
	ac := a.Compare(c)
	if ab <= 0 && bc <= 0 {
		zzverif.Assert(ac <= 0, "transitive-le")
		if ab == 0 && bc == 0 {
			zzverif.Assert(ac == 0, "transitive-eq")
		}
	}
}
