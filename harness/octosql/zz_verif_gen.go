package octosql

import (
	"fmt"
	"time"

	"github.com/cube2222/octosql/zzverif"
)

// Kind numbering used by VerifNDValue's symbolic choice.
const (
	VKNull = iota
	VKInt
	VKFloat
	VKBoolean
	VKString
	VKTime
	VKDuration
	VKList
	VKStruct
	VKTuple
	VKCount
)

// VerifNDScalar returns an arbitrary value of the given scalar kind (all bit patterns).
func VerifNDScalar(name string, kind int, strLen int) Value {
	switch kind {
	case VKNull:
		return NewNull()
	case VKInt:
		return NewInt(zzverif.Int64(name + ".int"))
	case VKFloat:
		return NewFloat(zzverif.Float64(name + ".float"))
	case VKBoolean:
		return NewBoolean(zzverif.Bool(name + ".bool"))
	case VKString:
		return NewString(zzverif.Bytes(name+".str", strLen))
	case VKTime:
		sec := zzverif.Int64(name + ".sec")
		nsec := zzverif.Int64(name + ".nsec")
		// 1678 .. 2262: the range in which UnixNano is defined
		zzverif.Assume(zzverif.And(sec >= -9214646400, sec < 9214646400))
		zzverif.Assume(zzverif.And(nsec >= 0, nsec < 1000000000))
		t := time.Unix(sec, nsec)
		if zzverif.Choice(name+".utc", 2) == 1 {
			t = t.UTC()
		}
		return NewTime(t)
	case VKDuration:
		return NewDuration(time.Duration(zzverif.Int64(name + ".dur")))
	}
	panic("VerifNDScalar: bad kind")
}

// VerifNDValue returns an arbitrary octosql value: the kind is a forked choice, scalars are
// fully symbolic, containers have 0..maxElems elements of depth-1.
func VerifNDValue(name string, depth, maxElems, strLen int) Value {
	n := VKList
	if depth > 0 {
		n = VKCount
	}
	kind := zzverif.Choice(name+".kind", n)
	if kind < VKList {
		return VerifNDScalar(name, kind, strLen)
	}
	cnt := zzverif.Choice(name+".n", maxElems+1)
	elems := make([]Value, cnt)
	for i := range elems {
		elems[i] = VerifNDValue(fmt.Sprintf("%s.%d", name, i), depth-1, maxElems, strLen)
	}
	switch kind {
	case VKList:
		return NewList(elems)
	case VKStruct:
		return NewStruct(elems)
	default:
		return NewTuple(elems)
	}
}
