package octosql

import (
	"fmt"
	"math"

	"github.com/cube2222/octosql/zzverif"
)

func verifSign(x int) int {
	return zzverif.IteInt(x < 0, -1, zzverif.IteInt(x > 0, 1, 0))
}

// VerifC09Order: reflexivity, antisymmetry, transitivity of Value.Compare and agreement of
// Value.Equal with it, over arbitrary triples of values.
// Params: D depth, E max elements, S max string bytes.
func VerifC09Order() {
	d, e, s := zzverif.Param("D"), zzverif.Param("E"), zzverif.Param("S")
	a := VerifNDValue("a", d, e, s)
	b := VerifNDValue("b", d, e, s)
	zzverif.Reach("generated-pair")
	ab := a.Compare(b)
	ba := b.Compare(a)
	zzverif.Assert(a.Compare(a) == 0, "reflexive")
	zzverif.Assert(verifSign(ab) == -verifSign(ba), "antisymmetric")
	if ab == 0 {
		bothNull := a.TypeID == TypeIDNull && b.TypeID == TypeIDNull
		zzverif.Assert(a.Equal(b) == !bothNull, "Equal-agrees-with-Compare")
	} else {
		zzverif.Assert(!a.Equal(b), "Equal-agrees-with-Compare")
	}
	c := VerifNDValue("c", d, e, s)
	zzverif.Reach("generated-triple")
	bc := b.Compare(c)
	ac := a.Compare(c)
	if ab <= 0 && bc <= 0 {
		zzverif.Assert(ac <= 0, "transitive-le")
		if ab == 0 && bc == 0 {
			zzverif.Assert(ac == 0, "transitive-eq")
		}
	}
}

// verifSplitBits forks on bit-equality of corresponding float leaves. It does not restrict
// anything (both sides are explored); on the "same bits" side the engine rewrites one float
// into the other so that equal hashes are syntactically identical, and on the other side only
// the few patterns with equal value but different bits (signed zeros, NaNs) remain.
func verifSplitBits(a, b Value) {
	if a.TypeID != b.TypeID {
		return
	}
	switch a.TypeID {
	case TypeIDFloat:
		if math.Float64bits(a.Float) == math.Float64bits(b.Float) {
			zzverif.Reach("same-float-bits")
			return
		}
		// further case-split hints (zero / NaN on either side)
		if a.Float == 0 {
			zzverif.Reach("a-zero")
		}
		if b.Float == 0 {
			zzverif.Reach("b-zero")
		}
		if a.Float != a.Float {
			zzverif.Reach("a-nan")
		}
		if b.Float != b.Float {
			zzverif.Reach("b-nan")
		}
	case TypeIDList:
		for i := 0; i < len(a.List) && i < len(b.List); i++ {
			verifSplitBits(a.List[i], b.List[i])
		}
	case TypeIDStruct:
		for i := 0; i < len(a.Struct) && i < len(b.Struct); i++ {
			verifSplitBits(a.Struct[i], b.Struct[i])
		}
	case TypeIDTuple:
		for i := 0; i < len(a.Tuple) && i < len(b.Tuple); i++ {
			verifSplitBits(a.Tuple[i], b.Tuple[i])
		}
	}
}

// VerifC09Hash: values that compare equal hash equally (Value.Hash), for arbitrary pairs.
func VerifC09Hash() {
	d, e, s := zzverif.Param("D"), zzverif.Param("E"), zzverif.Param("S")
	a := VerifNDValue("a", d, e, s)
	b := VerifNDValue("b", d, e, s)
	zzverif.Reach("generated-pair")
	if a.Compare(b) == 0 {
		zzverif.Reach("equal-pair")
		verifSplitBits(a, b)
		zzverif.Assert(a.Hash() == b.Hash(), "equal-implies-same-hash")
	}
}

// VerifC09HashStep: the inductive step behind hashing of containers and of value slices
// (HashManyValues): for an ARBITRARY incoming hash state h and scalars a, b that compare equal,
// folding a or b into h gives the same state.
func VerifC09HashStep() {
	s := zzverif.Param("S")
	ka := zzverif.Choice("a.kind", VKList)
	a := VerifNDScalar("a", ka, s)
	b := VerifNDScalar("b", zzverif.Choice("b.kind", VKList), s)
	h := zzverif.Uint64("h")
	if a.Compare(b) == 0 {
		zzverif.Reach("equal-pair")
		verifSplitBits(a, b)
		zzverif.Assert(a.hash(h) == b.hash(h), "equal-implies-same-hash-step")
		// HashManyValues over slices that are element-wise equal
		zzverif.Assert(HashManyValues([]Value{a, a}) == HashManyValues([]Value{b, a}), "HashManyValues-consistent")
	}
}

// VerifC09ListCompare: Compare on two lists of 0..E Ints (lengths forked, elements symbolic)
// returns exactly -1, 0 or 1 — the order-based users (ORDER BY, min/max, btree keys) test the
// result with == -1 — and is antisymmetric; equal-length-prefix cases included.
func VerifC09ListCompare() {
	e := zzverif.Param("E")
	mk := func(name string) Value {
		n := zzverif.Choice(name+".len", e+1)
		els := make([]Value, n)
		for i := range els {
			els[i] = NewInt(zzverif.Int64(fmt.Sprintf("%s.%d", name, i)))
		}
		return NewList(els)
	}
	a, b := mk("a"), mk("b")
	ab, ba := a.Compare(b), b.Compare(a)
	zzverif.Reach("compared")
	zzverif.Assert(ab == -1 || ab == 0 || ab == 1, "compare-result-is-minus-one-zero-or-one")
	zzverif.Assert(ab == -ba, "antisymmetric")
}
