package octosql

import (
	"fmt"

	"github.com/cube2222/octosql/zzverif"
)

// VerifNDType returns an arbitrary well-formed type: the TypeID is a symbolic integer (the solver
// decides every comparison on it); unions are normalised the way TypeSum builds them (>= 2
// alternatives, strictly increasing TypeIDs, no nested union, no Any); lists may have a nil
// element type; structs have 0..E fields with distinct 1-byte names from {a,b,c}; tuples 0..E.
func VerifNDType(name string, depth, maxElems int, allowUnion bool) Type {
	id := TypeID(zzverif.Int(name + ".id"))
	zzverif.Assume(zzverif.And(id >= TypeIDNull, id <= TypeIDAny))
	if depth == 0 {
		zzverif.Assume(zzverif.Or(id < TypeIDList, id == TypeIDAny))
	}
	if !allowUnion {
		zzverif.Assume(id != TypeIDUnion)
	}
	switch {
	case id == TypeIDList:
		if zzverif.Choice(name+".haselem", 2) == 0 {
			return Type{TypeID: TypeIDList}
		}
		el := VerifNDType(name+".el", depth-1, maxElems, true)
		return Type{TypeID: TypeIDList, List: struct{ Element *Type }{Element: &el}}
	case id == TypeIDStruct:
		n := zzverif.Choice(name+".n", maxElems+1)
		fields := make([]StructField, n)
		for i := range fields {
			nm := zzverif.Byte(fmt.Sprintf("%s.f%d.name", name, i))
			zzverif.Assume(zzverif.And(nm >= 'a', nm <= 'c'))
			for j := 0; j < i; j++ {
				zzverif.Assume(fields[j].Name[0] != nm)
			}
			fields[i] = StructField{Name: string([]byte{nm}), Type: VerifNDType(fmt.Sprintf("%s.f%d", name, i), depth-1, maxElems, true)}
		}
		return Type{TypeID: TypeIDStruct, Struct: struct{ Fields []StructField }{Fields: fields}}
	case id == TypeIDTuple:
		n := zzverif.Choice(name+".n", maxElems+1)
		els := make([]Type, n)
		for i := range els {
			els[i] = VerifNDType(fmt.Sprintf("%s.t%d", name, i), depth-1, maxElems, true)
		}
		return Type{TypeID: TypeIDTuple, Tuple: struct{ Elements []Type }{Elements: els}}
	case id == TypeIDUnion:
		n := 2 + zzverif.Choice(name+".n", 2)
		alts := make([]Type, n)
		for i := range alts {
			alts[i] = VerifNDType(fmt.Sprintf("%s.u%d", name, i), depth-1, maxElems, false)
			zzverif.Assume(alts[i].TypeID != TypeIDAny)
			if i > 0 {
				zzverif.Assume(alts[i-1].TypeID < alts[i].TypeID)
			}
		}
		return Type{TypeID: TypeIDUnion, Union: struct{ Alternatives []Type }{Alternatives: alts}}
	}
	return Type{TypeID: id}
}

// verifMatches is the independent reference for "value v is an instance of type t".
func verifMatches(v Value, t Type) bool {
	switch t.TypeID {
	case TypeIDAny:
		return true
	case TypeIDUnion:
		for _, alt := range t.Union.Alternatives {
			if verifMatches(v, alt) {
				return true
			}
		}
		return false
	case TypeIDList:
		if v.TypeID != TypeIDList {
			return false
		}
		for _, e := range v.List {
			if t.List.Element == nil || !verifMatches(e, *t.List.Element) {
				return false
			}
		}
		return true
	case TypeIDStruct:
		if v.TypeID != TypeIDStruct || len(v.Struct) != len(t.Struct.Fields) {
			return false
		}
		for i, e := range v.Struct {
			if !verifMatches(e, t.Struct.Fields[i].Type) {
				return false
			}
		}
		return true
	case TypeIDTuple:
		if v.TypeID != TypeIDTuple || len(v.Tuple) != len(t.Tuple.Elements) {
			return false
		}
		for i, e := range v.Tuple {
			if !verifMatches(e, t.Tuple.Elements[i]) {
				return false
			}
		}
		return true
	}
	return v.TypeID == t.TypeID
}

// VerifMatches is exported for harnesses of other packages.
func VerifMatches(v Value, t Type) bool { return verifMatches(v, t) }

// verifStructSumRegion is the exclusion predicate of known finding C10-deep-merge: computing
// TypeSum(a, b) deep-merges two object types whose field-name lists differ (at any level at
// which TypeSum recurses).
func verifStructSumRegion(a, b Type) bool {
	if a.TypeID == TypeIDUnion {
		for _, alt := range a.Union.Alternatives {
			if verifStructSumRegion(alt, b) {
				return true
			}
		}
		return false
	}
	if b.TypeID == TypeIDUnion {
		for _, alt := range b.Union.Alternatives {
			if verifStructSumRegion(a, alt) {
				return true
			}
		}
		return false
	}
	if a.TypeID != b.TypeID {
		return false
	}
	switch a.TypeID {
	case TypeIDStruct:
		if len(a.Struct.Fields) != len(b.Struct.Fields) {
			return true
		}
		for i := range a.Struct.Fields {
			if a.Struct.Fields[i].Name != b.Struct.Fields[i].Name {
				return true
			}
			// the merged object has its fields sorted by name; Is compares positionally
			if i > 0 && a.Struct.Fields[i-1].Name > a.Struct.Fields[i].Name {
				return true
			}
		}
		for i := range a.Struct.Fields {
			if verifStructSumRegion(a.Struct.Fields[i].Type, b.Struct.Fields[i].Type) {
				return true
			}
		}
	case TypeIDList:
		if a.List.Element != nil && b.List.Element != nil {
			return verifStructSumRegion(*a.List.Element, *b.List.Element)
		}
	case TypeIDTuple:
		if len(a.Tuple.Elements) != len(b.Tuple.Elements) {
			return true
		}
		for i := 0; i < len(a.Tuple.Elements) && i < len(b.Tuple.Elements); i++ {
			if verifStructSumRegion(a.Tuple.Elements[i], b.Tuple.Elements[i]) {
				return true
			}
		}
	}
	return false
}

// verifValueStructSumRegion: the value contains a list whose elements' types would be summed
// into the C10-deep-merge region (objects of different arity inside one list).
func verifValueStructSumRegion(v Value) bool {
	switch v.TypeID {
	case TypeIDList:
		for i := range v.List {
			if verifValueStructSumRegion(v.List[i]) {
				return true
			}
			for j := 0; j < i; j++ {
				if v.List[i].TypeID == TypeIDStruct && v.List[j].TypeID == TypeIDStruct && len(v.List[i].Struct) != len(v.List[j].Struct) {
					return true
				}
				if v.List[i].TypeID == TypeIDTuple && v.List[j].TypeID == TypeIDTuple && len(v.List[i].Tuple) != len(v.List[j].Tuple) {
					return true
				}
			}
		}
	case TypeIDStruct:
		for i := range v.Struct {
			if verifValueStructSumRegion(v.Struct[i]) {
				return true
			}
		}
	case TypeIDTuple:
		for i := range v.Tuple {
			if verifValueStructSumRegion(v.Tuple[i]) {
				return true
			}
		}
	}
	return false
}

// verifUnnamedFieldsRegion is the exclusion predicate of known finding C10-unnamed-object-fields:
// the value contains a list with two object elements of which one has two or more fields
// (Value.Type() leaves all field names empty and TypeSum merges fields by name).
func verifUnnamedFieldsRegion(v Value) bool {
	switch v.TypeID {
	case TypeIDList:
		structs, wide := 0, false
		for i := range v.List {
			if verifUnnamedFieldsRegion(v.List[i]) {
				return true
			}
			if v.List[i].TypeID == TypeIDStruct {
				structs++
				if len(v.List[i].Struct) >= 2 {
					wide = true
				}
			}
		}
		return structs >= 2 && wide
	case TypeIDStruct:
		for i := range v.Struct {
			if verifUnnamedFieldsRegion(v.Struct[i]) {
				return true
			}
		}
	case TypeIDTuple:
		for i := range v.Tuple {
			if verifUnnamedFieldsRegion(v.Tuple[i]) {
				return true
			}
		}
	}
	return false
}

// verifNDUnion: a normalised union of exactly two alternatives of the given depth (so that the
// alternatives themselves can be lists / objects / tuples with inner types).
func verifNDUnion(name string, depth, maxElems int) Type {
	a0 := VerifNDType(name+".u0", depth, maxElems, false)
	a1 := VerifNDType(name+".u1", depth, maxElems, false)
	zzverif.Assume(zzverif.And(a0.TypeID != TypeIDAny, a1.TypeID != TypeIDAny))
	zzverif.Assume(a0.TypeID < a1.TypeID)
	return Type{TypeID: TypeIDUnion, Union: struct{ Alternatives []Type }{Alternatives: []Type{a0, a1}}}
}

// VerifC10UnionLaws: the TypeSum laws for two UNION operands whose alternatives are themselves
// container types (the case VerifC10Laws only reaches at depth 2).
func VerifC10UnionLaws() {
	d, e := zzverif.Param("D"), zzverif.Param("E")
	a := verifNDUnion("a", d, e)
	b := verifNDUnion("b", d, e)
	zzverif.Reach("generated-pair")
	zzverif.Known("C10-deep-merge", verifStructSumRegion(a, b))
	sum := TypeSum(a, b)
	zzverif.Assert(a.Is(sum) == TypeRelationIs, "TypeSum-upper-bound-left")
	zzverif.Assert(b.Is(sum) == TypeRelationIs, "TypeSum-upper-bound-right")
	zzverif.Assert(sum.Equals(TypeSum(b, a)), "TypeSum-commutative")
	if inter := TypeIntersection(a, b); inter != nil {
		zzverif.Assert(inter.Is(a) == TypeRelationIs, "TypeIntersection-contained-left")
		zzverif.Assert(inter.Is(b) == TypeRelationIs, "TypeIntersection-contained-right")
	}
}

// VerifC10Laws: reflexivity of Is, TypeSum upper bound / commutative / idempotent,
// TypeIntersection contained in both, over arbitrary pairs of types.
func VerifC10Laws() {
	d, e := zzverif.Param("D"), zzverif.Param("E")
	a := VerifNDType("a", d, e, true)
	zzverif.Reach("generated-a")
	zzverif.Assert(a.Is(a) == TypeRelationIs, "Is-reflexive")
	zzverif.Assert(TypeSum(a, a).Equals(a), "TypeSum-idempotent")
	b := VerifNDType("b", zzverif.Param("DB"), e, true)
	zzverif.Reach("generated-pair")
	zzverif.Known("C10-deep-merge", verifStructSumRegion(a, b))
	sum := TypeSum(a, b)
	zzverif.Assert(a.Is(sum) == TypeRelationIs, "TypeSum-upper-bound-left")
	zzverif.Assert(b.Is(sum) == TypeRelationIs, "TypeSum-upper-bound-right")
	zzverif.Assert(sum.Equals(TypeSum(b, a)), "TypeSum-commutative")
	if inter := TypeIntersection(a, b); inter != nil {
		zzverif.Reach("non-empty-intersection")
		zzverif.Assert(inter.Is(a) == TypeRelationIs, "TypeIntersection-contained-left")
		zzverif.Assert(inter.Is(b) == TypeRelationIs, "TypeIntersection-contained-right")
	}
}

// VerifC10NonNullable: NonNullable removes exactly the NULL alternative.
func VerifC10NonNullable() {
	d, e := zzverif.Param("D"), zzverif.Param("E")
	t := VerifNDType("t", d, e, true)
	r := NonNullable(t)
	zzverif.Reach("generated")
	if t.TypeID != TypeIDUnion {
		zzverif.Assert(r.Equals(t), "non-union-unchanged")
		return
	}
	hadNull := false
	for _, alt := range t.Union.Alternatives {
		if alt.TypeID == TypeIDNull {
			hadNull = true
		} else {
			zzverif.Assert(alt.Is(r) == TypeRelationIs, "other-alternatives-kept")
		}
	}
	zzverif.Assert(r.Is(t) == TypeRelationIs, "result-within-input")
	if hadNull {
		zzverif.Reach("nullable-input")
		zzverif.Assert(Null.Is(r) != TypeRelationIs, "NULL-removed")
	} else {
		zzverif.Assert(r.Equals(t), "no-NULL-unchanged")
	}
}

// VerifC10ValueType: every value matches the type it reports for itself.
func VerifC10ValueType() {
	d, e, s := zzverif.Param("D"), zzverif.Param("E"), zzverif.Param("S")
	v := VerifNDValue("v", d, e, s)
	zzverif.Reach("generated")
	zzverif.Known("C10-deep-merge", verifValueStructSumRegion(v))
	zzverif.Known("C10-unnamed-object-fields", verifUnnamedFieldsRegion(v))
	zzverif.Assert(verifMatches(v, v.Type()), "value-matches-own-type")
}

// VerifC10SumKeepsOperands: TypeSum must not modify its operands. The left operand is a union
// BUILT BY TypeSum from three distinct scalar types (so its alternatives slice has the capacity
// append gave it, not a literal's), the right one a fourth scalar type: afterwards the left operand
// still has exactly its three alternatives, the sum is an upper bound of both and commutative.
func VerifC10SumKeepsOperands() {
	var ts [4]Type
	for i := range ts {
		ts[i] = VerifNDType(fmt.Sprintf("t%d", i), 0, 0, false)
		zzverif.Assume(ts[i].TypeID != TypeIDAny)
		for j := 0; j < i; j++ {
			zzverif.Assume(ts[j].TypeID != ts[i].TypeID)
		}
	}
	a := TypeSum(TypeSum(ts[0], ts[1]), ts[2])
	zzverif.Assume(a.TypeID == TypeIDUnion && len(a.Union.Alternatives) == 3)
	before := make([]TypeID, 3)
	for i, alt := range a.Union.Alternatives {
		before[i] = alt.TypeID
	}
	sum := TypeSum(a, ts[3])
	zzverif.Reach("summed")
	same := len(a.Union.Alternatives) == 3
	for i := 0; i < 3 && i < len(a.Union.Alternatives); i++ {
		same = zzverif.And(same, a.Union.Alternatives[i].TypeID == before[i])
	}
	zzverif.Assert(same, "left-operand-unchanged")
	zzverif.Assert(a.Is(sum) == TypeRelationIs, "TypeSum-upper-bound-left")
	zzverif.Assert(ts[3].Is(sum) == TypeRelationIs, "TypeSum-upper-bound-right")
	zzverif.Assert(sum.Equals(TypeSum(ts[3], a)), "TypeSum-commutative")
	for i := 0; i < 3; i++ {
		zzverif.Assert(ts[i].Is(sum) == TypeRelationIs, "every-original-alternative-still-covered")
	}
}

// VerifC10NonNullableAnyOrder: NonNullable on a union written by hand with its alternatives in ANY
// order (octosql builds `{...} | NULL` that way in logical.TypecheckPossiblyNullableStruct):
// NULL is removed wherever it stands, the other alternatives stay.
func VerifC10NonNullableAnyOrder() {
	d, e := zzverif.Param("D"), zzverif.Param("E")
	n := 2 + zzverif.Choice("n", 2)
	alts := make([]Type, n)
	for i := range alts {
		alts[i] = VerifNDType(fmt.Sprintf("u%d", i), d, e, false)
		zzverif.Assume(alts[i].TypeID != TypeIDAny)
		for j := 0; j < i; j++ {
			zzverif.Assume(alts[j].TypeID != alts[i].TypeID)
		}
	}
	t := Type{TypeID: TypeIDUnion, Union: struct{ Alternatives []Type }{Alternatives: alts}}
	r := NonNullable(t)
	zzverif.Reach("generated")
	zzverif.Assert(Null.Is(r) != TypeRelationIs, "NULL-removed")
	for _, alt := range alts {
		if alt.TypeID != TypeIDNull {
			zzverif.Assert(alt.Is(r) == TypeRelationIs, "other-alternatives-kept")
		}
	}
}
