package executor

import (
	"context"
	"encoding/json"
	"fmt"
	"time"

	"google.golang.org/grpc"

	"github.com/cube2222/octosql/execution"
	"github.com/cube2222/octosql/functions"
	"github.com/cube2222/octosql/octosql"
	"github.com/cube2222/octosql/physical"
	"github.com/cube2222/octosql/plugins/internal/plugins"
	"github.com/cube2222/octosql/zzverif"
)

// C26 — the octosql side of predicate push-down to a plugin
// ((*PhysicalDatasource).PushDownPredicates): predicates without a subquery are sent to the plugin
// (JSON), what the plugin answers is repopulated, predicates WITH a subquery never leave the
// process. Whatever the plugin decides, every new predicate must come back exactly once: pushed
// down if the plugin accepted it, rejected otherwise, subquery predicates always rejected.
//
// Engine: json.Marshal / json.Unmarshal are bridged (zzverif.JSONMarshal hands the value through,
// zzverif.JSONUnmarshalFn below copies it); natively the real encoding/json runs on both sides.

// verifClient is the plugin: it accepts the serializable predicates chosen by `accept`.
type verifClient struct {
	plugins.DatasourceClient
	accept []bool
	seen   int
}

func (c *verifClient) PushDownPredicates(ctx context.Context, in *plugins.PushDownPredicatesRequest, opts ...grpc.CallOption) (*plugins.PushDownPredicatesResponse, error) {
	var newPreds, pushed []physical.Expression
	if err := json.Unmarshal(in.NewPredicates, &newPreds); err != nil {
		return nil, err
	}
	if err := json.Unmarshal(in.PushedDownPredicates, &pushed); err != nil {
		return nil, err
	}
	c.seen = len(newPreds)
	rejected := []physical.Expression{}
	changed := false
	for i, p := range newPreds {
		if i < len(c.accept) && c.accept[i] {
			pushed = append(pushed, p)
			changed = true
		} else {
			rejected = append(rejected, p)
		}
	}
	rb, err := json.Marshal(&rejected)
	if err != nil {
		return nil, err
	}
	pb, err := json.Marshal(&pushed)
	if err != nil {
		return nil, err
	}
	return &plugins.PushDownPredicatesResponse{Rejected: rb, PushedDown: pb, Changed: changed}, nil
}

func verifIntEq(tag int64) physical.Expression {
	desc := functions.FunctionMap()["="].Descriptors[0] // (Any, Any) -> Boolean, the only overload
	return physical.Expression{Type: octosql.Boolean, ExpressionType: physical.ExpressionTypeFunctionCall, FunctionCall: &physical.FunctionCall{
		Name: "=",
		Arguments: []physical.Expression{
			{Type: octosql.Int, ExpressionType: physical.ExpressionTypeVariable, Variable: &physical.Variable{Name: "a", IsLevel0: true}},
			{Type: octosql.Int, ExpressionType: physical.ExpressionTypeConstant, Constant: &physical.Constant{Value: octosql.NewInt(tag)}},
		},
		FunctionDescriptor: desc,
	}}
}

// verifSubquery: `(SELECT <tag>)` as a Boolean-position query expression over in-memory records.
func verifSubquery(tag int64) physical.Expression {
	src := physical.Node{
		Schema:   physical.NewSchema([]physical.SchemaField{{Name: "x", Type: octosql.Int}}, -1),
		NodeType: physical.NodeTypeInMemoryRecords,
		InMemoryRecords: &physical.InMemoryRecords{Records: []execution.Record{
			execution.NewRecord([]octosql.Value{octosql.NewInt(tag)}, false, time.Time{}),
		}},
	}
	return physical.Expression{Type: octosql.Int, ExpressionType: physical.ExpressionTypeQueryExpression, QueryExpression: &physical.QueryExpression{Source: src}}
}

// verifTagOf recovers the tag of a predicate built above (-1: not one of ours).
func verifTagOf(e physical.Expression) (tag int64, subquery bool) {
	switch e.ExpressionType {
	case physical.ExpressionTypeFunctionCall:
		if e.FunctionCall != nil && len(e.FunctionCall.Arguments) == 2 && e.FunctionCall.Arguments[1].Constant != nil {
			return e.FunctionCall.Arguments[1].Constant.Value.Int, false
		}
	case physical.ExpressionTypeQueryExpression:
		if e.QueryExpression != nil && e.QueryExpression.Source.InMemoryRecords != nil && len(e.QueryExpression.Source.InMemoryRecords.Records) == 1 {
			return e.QueryExpression.Source.InMemoryRecords.Records[0].Values[0].Int, true
		}
	}
	return -1, false
}

func VerifC26ExecutorPushDown() {
	if zzverif.Symbolic() {
		zzverif.JSONUnmarshalFn = func(stored, into interface{}) error {
			src, ok1 := stored.(*[]physical.Expression)
			dst, ok2 := into.(*[]physical.Expression)
			if !ok1 || !ok2 {
				return fmt.Errorf("verif: unexpected JSON transport of %T into %T", stored, into)
			}
			*dst = append([]physical.Expression(nil), (*src)...)
			return nil
		}
	}
	n := 1 + zzverif.Choice("preds", zzverif.Param("P"))
	preds := make([]physical.Expression, n)
	isSub := make([]bool, n)
	accept := []bool{}
	for i := range preds {
		if zzverif.Choice(fmt.Sprintf("p%d.subquery", i), 2) == 1 {
			preds[i], isSub[i] = verifSubquery(int64(i)), true
		} else {
			preds[i] = verifIntEq(int64(i))
			accept = append(accept, zzverif.Choice(fmt.Sprintf("p%d.accepted", i), 2) == 1)
		}
	}
	cli := &verifClient{accept: accept}
	ds := &PhysicalDatasource{ctx: context.Background(), cli: cli, tableContext: &plugins.TableContext{TableName: "t"}}
	rejected, pushedDown, changed := ds.PushDownPredicates(preds, nil)
	zzverif.Reach("returned")
	zzverif.Assert(cli.seen == len(accept), "plugin-sees-exactly-the-predicates-without-subquery")
	zzverif.Assert(len(rejected)+len(pushedDown) == n, "every-predicate-comes-back-exactly-once")
	k := 0
	anyAccepted := false
	for i := range preds {
		inRej, inPush := 0, 0
		for _, e := range rejected {
			if t, s := verifTagOf(e); t == int64(i) && s == isSub[i] {
				inRej++
			}
		}
		for _, e := range pushedDown {
			if t, s := verifTagOf(e); t == int64(i) && s == isSub[i] {
				inPush++
			}
		}
		if isSub[i] {
			zzverif.Assert(inRej == 1 && inPush == 0, "subquery-predicate-stays-rejected")
			continue
		}
		if accept[k] {
			anyAccepted = true
			zzverif.Assert(inRej == 0 && inPush == 1, "accepted-predicate-is-pushed-down")
		} else {
			zzverif.Assert(inRej == 1 && inPush == 0, "refused-predicate-is-rejected")
		}
		k++
	}
	zzverif.Assert(changed == anyAccepted, "changed-flag")
	for _, e := range pushedDown {
		zzverif.Assert(e.FunctionCall != nil && e.FunctionCall.FunctionDescriptor.Function != nil, "pushed-down-predicate-is-repopulated")
	}
}
