package plugins

import (
	"fmt"
	"time"

	"github.com/cube2222/octosql/functions"
	"github.com/cube2222/octosql/octosql"
	"github.com/cube2222/octosql/physical"
	"github.com/cube2222/octosql/zzverif"
	"github.com/cube2222/octosql/zzverif/vx"
)

// verifCallOf builds, for descriptor d of function name, the function call the typechecker
// builds (arguments are variables of the declared types, or of the idx-th sample signature for
// TypeFn overloads) with the json:"-" fields cleared; it also returns the argument types.
func verifCallOf(name string, d physical.FunctionDescriptor, tag string) (physical.Expression, []octosql.Type) {
	types := d.ArgumentTypes
	outType := d.OutputType
	if d.TypeFn != nil {
		samples := verifSampleTypes(name, d)
		zzverif.Assume(len(samples) > 0)
		types = samples[zzverif.Choice(tag+".sample", len(samples))]
		outType, _ = d.TypeFn(types)
	}
	args := make([]physical.Expression, len(types))
	for i := range types {
		args[i] = physical.Expression{
			Type:           types[i],
			ExpressionType: physical.ExpressionTypeVariable,
			Variable:       &physical.Variable{Name: fmt.Sprintf("%s.a%d", tag, i)},
		}
	}
	sent := d
	sent.TypeFn, sent.Function = nil, nil
	return physical.Expression{
		Type:           outType,
		ExpressionType: physical.ExpressionTypeFunctionCall,
		FunctionCall:   &physical.FunctionCall{Name: name, Arguments: args, FunctionDescriptor: sent},
	}, types
}

// verifCanonValue: one fixed non-trivial value of type t (SYM=0: cheap arguments that still tell
// overloads apart, since an implementation applied to values of other types reads zero fields).
func verifCanonValue(t octosql.Type) octosql.Value {
	switch t.TypeID {
	case octosql.TypeIDNull:
		return octosql.NewNull()
	case octosql.TypeIDInt, octosql.TypeIDAny:
		return octosql.NewInt(3)
	case octosql.TypeIDFloat:
		return octosql.NewFloat(2.5)
	case octosql.TypeIDBoolean:
		return octosql.NewBoolean(true)
	case octosql.TypeIDString:
		return octosql.NewString("ab")
	case octosql.TypeIDTime:
		return octosql.NewTime(time.Unix(1600000000, 5).UTC())
	case octosql.TypeIDDuration:
		return octosql.NewDuration(1500 * time.Millisecond)
	case octosql.TypeIDList:
		if t.List.Element == nil {
			return octosql.NewList([]octosql.Value{})
		}
		return octosql.NewList([]octosql.Value{verifCanonValue(*t.List.Element), verifCanonValue(*t.List.Element)})
	case octosql.TypeIDStruct:
		out := make([]octosql.Value, len(t.Struct.Fields))
		for i := range out {
			out[i] = verifCanonValue(t.Struct.Fields[i].Type)
		}
		return octosql.NewStruct(out)
	case octosql.TypeIDTuple:
		out := make([]octosql.Value, len(t.Tuple.Elements))
		for i := range out {
			out[i] = verifCanonValue(t.Tuple.Elements[i])
		}
		return octosql.NewTuple(out)
	case octosql.TypeIDUnion:
		for _, alt := range t.Union.Alternatives {
			if alt.TypeID != octosql.TypeIDNull {
				return verifCanonValue(alt)
			}
		}
	}
	return octosql.NewNull()
}

// verifSameBehaviour: the repopulated function returns what the original returns on arbitrary
// arguments of the given types.
func verifSameBehaviour(name string, ov int, d physical.FunctionDescriptor, got physical.FunctionDescriptor, types []octosql.Type, tag string) {
	zzverif.Assert(got.Function != nil, "function-repopulated")
	values := make([]octosql.Value, len(types))
	for i := range types {
		if zzverif.Param("SYM") == 1 {
			values[i] = vx.ValueOfType(fmt.Sprintf("%s.v%d", tag, i), types[i], zzverif.Param("E"), zzverif.Param("S"))
		} else {
			values[i] = verifCanonValue(types[i])
		}
		if d.Strict {
			zzverif.Assume(values[i].TypeID != octosql.TypeIDNull)
		}
	}
	if name == "*" && (ov == 4 || ov == 5) {
		cnt := values[1].Int
		if ov == 5 {
			cnt = values[0].Int
		}
		zzverif.Assume(zzverif.And(cnt >= -1, cnt <= 2))
	}
	want := verifCall(d.Function, values)
	have := verifCall(got.Function, values)
	zzverif.Assert(have.panicked == want.panicked, "same-panic")
	zzverif.Assert(have.failed == want.failed, "same-error")
	if !want.panicked && !want.failed && !have.panicked && !have.failed {
		zzverif.Assert(verifSameValue(want.value, have.value), "same-result")
	}
}

// VerifC26RepopulatePair: ONE predicate that uses two different overloads of the same function
// (every ordered pair of distinct descriptors of every function, e.g. `a + 1 > 2 OR f + 0.5 > 2.0`
// uses +(Int,Int) and +(Float,Float)): SHAPE=0: the two calls are the arguments of an OR;
// SHAPE=1: the second call is nested as the first argument position of a surrounding AND next to
// the first. After the simulated JSON transport and RepopulatePhysicalExpressionFunctions BOTH
// calls must behave as their own original overload (resolution must be per call, not per name).
// SYM=1: arbitrary arguments of the declared types; SYM=0: one fixed non-trivial value per type.
func VerifC26RepopulatePair() {
	fi := zzverif.Param("FN")
	if fi < 0 {
		fi = zzverif.Choice("fn", len(verifFnNames))
	}
	name := verifFnNames[fi]
	ds := functions.FunctionMap()[name].Descriptors
	if len(ds) < 2 || verifNoEval(name) {
		return
	}
	i := zzverif.Choice("first", len(ds))
	j := zzverif.Choice("second", len(ds))
	zzverif.Assume(i != j)
	if zzverif.Param("HEAVY") == 0 && (verifHeavy(name, i) || verifHeavy(name, j)) {
		return
	}
	c1, t1 := verifCallOf(name, ds[i], "c1")
	c2, t2 := verifCallOf(name, ds[j], "c2")
	var expr physical.Expression
	if zzverif.Param("SHAPE") == 0 {
		expr = physical.Expression{Type: octosql.Boolean, ExpressionType: physical.ExpressionTypeOr, Or: &physical.Or{Arguments: []physical.Expression{c1, c2}}}
	} else {
		expr = physical.Expression{Type: octosql.Boolean, ExpressionType: physical.ExpressionTypeAnd, And: &physical.And{Arguments: []physical.Expression{c1, c2}}}
	}
	out, ok := RepopulatePhysicalExpressionFunctions(expr)
	zzverif.Reach("repopulated")
	zzverif.Assert(ok, "known-overloads-accepted")
	var r1, r2 physical.Expression
	if zzverif.Param("SHAPE") == 0 {
		r1, r2 = out.Or.Arguments[0], out.Or.Arguments[1]
	} else {
		r1, r2 = out.And.Arguments[0], out.And.Arguments[1]
	}
	// evaluate only one of the two calls per path (keeps the argument spaces apart)
	if zzverif.Choice("check", 2) == 0 {
		verifSameBehaviour(name, i, ds[i], r1.FunctionCall.FunctionDescriptor, t1, "c1")
	} else {
		verifSameBehaviour(name, j, ds[j], r2.FunctionCall.FunctionDescriptor, t2, "c2")
	}
}
