package plugins

import (
	"fmt"

	"github.com/cube2222/octosql/functions"
	"github.com/cube2222/octosql/octosql"
	"github.com/cube2222/octosql/physical"
	"github.com/cube2222/octosql/zzverif"
	"github.com/cube2222/octosql/zzverif/vx"
)

// verifFnNames is a fixed enumeration of functions.FunctionMap() (a Go map has no order);
// VerifC26FnCoverage checks that it is complete.
var verifFnNames = []string{
	"<", "<=", "=", "!=", ">=", ">", "is null", "is not null", // 0..7
	"+", "-", "*", "/", // 8..11
	"abs", "sqrt", "ceil", "floor", "log2", "log", "log10", "pow", // 12..19
	"not",             // 20
	"like", "~", "~*", // 21..23
	"upper", "lower", "reverse", "substr", "replace", "position", "len", // 24..30
	"now", "parse_time", "time_from_unix", "time_to_unix", // 31..34
	"int", "float", "string", // 35..37
	"[]", "in", "not in", // 38..40
	"panic", // 41
}

func VerifC26FnCoverage() {
	m := functions.FunctionMap()
	zzverif.Assert(len(m) == len(verifFnNames), "every-function-enumerated")
	for i, name := range verifFnNames {
		_, ok := m[name]
		zzverif.Assert(ok, "enumerated-name-exists")
		for j := 0; j < i; j++ {
			zzverif.Assert(verifFnNames[j] != name, "names-distinct")
		}
	}
}

// verifNoEval: functions whose two evaluations cannot be compared under the engine (regexp match
// results and the clock are fresh nondeterministic values per call; time.Parse is not executable;
// string/panic render values with fmt). For these only the acceptance and the presence of the
// repopulated closures are asserted; each has exactly one overload, so the selection is not in doubt.
func verifNoEval(name string) bool {
	switch name {
	case "like", "~", "~*", "now", "parse_time", "string", "panic":
		return true
	}
	return false
}

// verifHeavy: single-signature functions whose evaluation is expensive under the engine (unicode
// tables, strings.Replace, float-to-time conversion); evaluated only with HEAVY=1.
func verifHeavy(name string, ov int) bool {
	return name == "upper" || name == "lower" || name == "replace" || (name == "time_from_unix" && ov == 1)
}

func verifListOf(el octosql.Type) octosql.Type {
	return octosql.Type{TypeID: octosql.TypeIDList, List: struct{ Element *octosql.Type }{Element: &el}}
}

func verifTupleOf(els ...octosql.Type) octosql.Type {
	return octosql.Type{TypeID: octosql.TypeIDTuple, Tuple: struct{ Elements []octosql.Type }{Elements: els}}
}

func verifStructOf(names []string, types []octosql.Type) octosql.Type {
	fields := make([]octosql.StructField, len(names))
	for i := range names {
		fields[i] = octosql.StructField{Name: names[i], Type: types[i]}
	}
	return octosql.Type{TypeID: octosql.TypeIDStruct, Struct: struct{ Fields []octosql.StructField }{Fields: fields}}
}

// verifSampleTypes: argument types for descriptors that have a TypeFn instead of ArgumentTypes.
func verifSampleTypes(name string, d physical.FunctionDescriptor) [][]octosql.Type {
	pair := func(t octosql.Type) []octosql.Type { return []octosql.Type{t, t} }
	ab := verifStructOf([]string{"a", "b"}, []octosql.Type{octosql.Int, octosql.String})
	tup := verifTupleOf(octosql.Int, octosql.String)
	all := [][]octosql.Type{
		pair(octosql.Int), pair(octosql.String), pair(octosql.Float), pair(verifListOf(octosql.Int)), pair(tup),
		{verifListOf(octosql.Int)}, {ab}, {tup}, {octosql.String}, {octosql.Int},
		{verifListOf(octosql.Int), octosql.Int},
		{octosql.Int, verifListOf(octosql.Int)}, {octosql.Int, tup}, {octosql.String, verifTupleOf(octosql.String)},
	}
	var out [][]octosql.Type
	for _, ts := range all {
		if _, ok := d.TypeFn(ts); ok {
			out = append(out, ts)
		}
	}
	return out
}

type verifResult struct {
	value    octosql.Value
	failed   bool
	panicked bool
}

func verifCall(f func([]octosql.Value) (octosql.Value, error), values []octosql.Value) (res verifResult) {
	defer func() {
		if r := recover(); r != nil {
			res = verifResult{panicked: true}
		}
	}()
	v, err := f(values)
	return verifResult{value: v, failed: err != nil}
}

// verifAmbiguous: the region of C26-typefn-overloads-indistinguishable: descriptor ov has a TypeFn
// and an earlier descriptor of the same function with the same Strict flag has one too (after the
// JSON transport both have no ArgumentTypes and the zero OutputType).
func verifAmbiguous(ds []physical.FunctionDescriptor, ov int) bool {
	if ds[ov].TypeFn == nil {
		return false
	}
	for j := 0; j < ov; j++ {
		if ds[j].TypeFn != nil && ds[j].Strict == ds[ov].Strict {
			return true
		}
	}
	return false
}

// VerifC26Repopulate: for overload OV of function FN (-1 = all): build the physical function call
// the typechecker builds, clear the fields tagged json:"-" (TypeFn, Function) as the JSON transport
// does, run RepopulatePhysicalExpressionFunctions, and require that the predicate is accepted and
// that the repopulated Function returns what the original Function returns on the same arguments
// (arbitrary arguments of the declared types / of sample types for TypeFn overloads).
func VerifC26Repopulate() {
	fi := zzverif.Param("FN")
	if fi < 0 {
		fi = zzverif.Choice("fn", len(verifFnNames))
	}
	name := verifFnNames[fi]
	ds := functions.FunctionMap()[name].Descriptors
	ov := zzverif.Param("OV")
	if ov < 0 {
		ov = zzverif.Choice("overload", len(ds))
	}
	d := ds[ov]

	// argument types: the declared ones, or sample types accepted by the TypeFn
	types := d.ArgumentTypes
	if d.TypeFn != nil {
		samples := verifSampleTypes(name, d)
		zzverif.Assert(len(samples) > 0, "typefn-overload-has-a-sample")
		types = samples[zzverif.Choice("sample", len(samples))]
	}
	args := make([]physical.Expression, len(types))
	for i := range types {
		args[i] = physical.Expression{
			Type:           types[i],
			ExpressionType: physical.ExpressionTypeVariable,
			Variable:       &physical.Variable{Name: fmt.Sprintf("t.a%d", i)},
		}
	}
	outType := d.OutputType
	if d.TypeFn != nil {
		outType, _ = d.TypeFn(types)
	}

	sent := d
	sent.TypeFn, sent.Function = nil, nil
	expr := physical.Expression{
		Type:           outType,
		ExpressionType: physical.ExpressionTypeFunctionCall,
		FunctionCall:   &physical.FunctionCall{Name: name, Arguments: args, FunctionDescriptor: sent},
	}
	out, ok := RepopulatePhysicalExpressionFunctions(expr)
	zzverif.Reach("repopulated")
	zzverif.Assert(ok, "known-overload-accepted")
	got := out.FunctionCall.FunctionDescriptor
	zzverif.Assert(got.Function != nil, "function-repopulated")
	zzverif.Assert((got.TypeFn != nil) == (d.TypeFn != nil), "typefn-repopulated")
	if verifNoEval(name) {
		return
	}
	if zzverif.Param("HEAVY") == 0 && verifHeavy(name, ov) {
		return
	}

	values := make([]octosql.Value, len(types))
	for i := range types {
		values[i] = vx.ValueOfType(fmt.Sprintf("a%d", i), types[i], zzverif.Param("E"), zzverif.Param("S"))
		if d.Strict {
			zzverif.Assume(values[i].TypeID != octosql.TypeIDNull)
		}
	}
	if name == "*" && (ov == 4 || ov == 5) {
		// strings.Repeat needs a concrete, small count under the engine
		cnt := values[1].Int
		if ov == 5 {
			cnt = values[0].Int
		}
		zzverif.Assume(zzverif.And(cnt >= -1, cnt <= 2))
	}
	want := verifCall(d.Function, values)
	have := verifCall(got.Function, values)
	zzverif.Known("C26-typefn-overloads-indistinguishable", verifAmbiguous(ds, ov))
	zzverif.Assert(have.panicked == want.panicked, "same-panic")
	zzverif.Assert(have.failed == want.failed, "same-error")
	if !want.panicked && !want.failed && !have.panicked && !have.failed {
		zzverif.Assert(verifSameValue(want.value, have.value), "same-result")
	}
}

// VerifC26RepopulateUnknown: a predicate whose function (CASE=0) or signature (CASE=1: abs(String),
// CASE=2: a TypeFn-less call of "=" with declared argument types) the receiving side does not
// know must be rejected (ok == false), otherwise a call with a nil Function reaches execution.
func VerifC26RepopulateUnknown() {
	var fc physical.FunctionCall
	switch zzverif.Param("CASE") {
	case 0:
		fc = physical.FunctionCall{Name: "no_such_function", FunctionDescriptor: physical.FunctionDescriptor{ArgumentTypes: []octosql.Type{octosql.Int}, OutputType: octosql.Int, Strict: true}}
	case 1:
		fc = physical.FunctionCall{Name: "abs", FunctionDescriptor: physical.FunctionDescriptor{ArgumentTypes: []octosql.Type{octosql.String}, OutputType: octosql.String, Strict: true}}
	default:
		fc = physical.FunctionCall{Name: "=", FunctionDescriptor: physical.FunctionDescriptor{ArgumentTypes: []octosql.Type{octosql.Int, octosql.Int}, OutputType: octosql.Boolean, Strict: true}}
	}
	expr := physical.Expression{Type: fc.FunctionDescriptor.OutputType, ExpressionType: physical.ExpressionTypeFunctionCall, FunctionCall: &fc}
	out, ok := RepopulatePhysicalExpressionFunctions(expr)
	zzverif.Reach("repopulated")
	zzverif.Known("C26-unknown-signature-accepted", zzverif.Param("CASE") != 0)
	zzverif.Assert(zzverif.Or(zzverif.Not(ok), out.FunctionCall.FunctionDescriptor.Function != nil), "accepted-only-with-a-function")
}
