package plugins

import (
	"fmt"
	"time"

	"github.com/cube2222/octosql/execution"
	"github.com/cube2222/octosql/octosql"
	"github.com/cube2222/octosql/physical"
	"github.com/cube2222/octosql/zzverif"
)

// ---------- references (shapes are concrete per path, payload comparisons are branch-free) ----------

// verifSameInstant: both times denote the same instant (Unix seconds and nanosecond part).
func verifSameInstant(a, b time.Time) bool {
	return zzverif.And(a.Unix() == b.Unix(), a.Nanosecond() == b.Nanosecond())
}

// verifSameValue: a and b are the same value, field by field (floats: equal or both NaN; times:
// same instant). Independent of Value.Compare.
func verifSameValue(a, b octosql.Value) bool {
	if a.TypeID != b.TypeID {
		return false
	}
	switch a.TypeID {
	case octosql.TypeIDNull:
		return true
	case octosql.TypeIDInt:
		return a.Int == b.Int
	case octosql.TypeIDFloat:
		return zzverif.Or(zzverif.F64Eq(a.Float, b.Float), zzverif.And(zzverif.F64IsNaN(a.Float), zzverif.F64IsNaN(b.Float)))
	case octosql.TypeIDBoolean:
		return a.Boolean == b.Boolean
	case octosql.TypeIDString:
		return zzverif.StrEq(a.Str, b.Str)
	case octosql.TypeIDTime:
		return verifSameInstant(a.Time, b.Time)
	case octosql.TypeIDDuration:
		return a.Duration == b.Duration
	case octosql.TypeIDList:
		return verifSameValues(a.List, b.List)
	case octosql.TypeIDStruct:
		return verifSameValues(a.Struct, b.Struct)
	case octosql.TypeIDTuple:
		return verifSameValues(a.Tuple, b.Tuple)
	}
	return false
}

// verifAssertSameValues asserts element by element, durations and times first: the duration round
// trip (x/1e9*1e9, decided by the cvc5 integer back end) is undecided as soon as a floating-point
// fact of an earlier assertion is part of the path condition (the same holds for times when a
// changed encoder goes through UnixNano, see seeded/C26-s1).
func verifAssertSameValues(a, b []octosql.Value, tag string) {
	zzverif.Assert(len(a) == len(b), tag+"-count")
	for pass := 0; pass < 2; pass++ {
		for i := range a {
			if (a[i].TypeID == octosql.TypeIDDuration || a[i].TypeID == octosql.TypeIDTime) == (pass == 0) {
				zzverif.Assert(verifSameValue(a[i], b[i]), tag)
			}
		}
	}
}

func verifSameValues(a, b []octosql.Value) bool {
	if len(a) != len(b) {
		return false
	}
	eq := true
	for i := range a {
		eq = zzverif.And(eq, verifSameValue(a[i], b[i]))
	}
	return eq
}

// verifSameType: structural identity of two types (same ids, same element / field / alternative
// lists in the same order, same field names, nil list element preserved).
func verifSameType(a, b octosql.Type) bool {
	if a.TypeID != b.TypeID {
		return false
	}
	switch a.TypeID {
	case octosql.TypeIDList:
		if (a.List.Element == nil) != (b.List.Element == nil) {
			return false
		}
		if a.List.Element == nil {
			return true
		}
		return verifSameType(*a.List.Element, *b.List.Element)
	case octosql.TypeIDStruct:
		if len(a.Struct.Fields) != len(b.Struct.Fields) {
			return false
		}
		eq := true
		for i := range a.Struct.Fields {
			eq = zzverif.And(eq, zzverif.StrEq(a.Struct.Fields[i].Name, b.Struct.Fields[i].Name))
			eq = zzverif.And(eq, verifSameType(a.Struct.Fields[i].Type, b.Struct.Fields[i].Type))
		}
		return eq
	case octosql.TypeIDTuple:
		return verifSameTypes(a.Tuple.Elements, b.Tuple.Elements)
	case octosql.TypeIDUnion:
		return verifSameTypes(a.Union.Alternatives, b.Union.Alternatives)
	}
	return true
}

func verifSameTypes(a, b []octosql.Type) bool {
	if len(a) != len(b) {
		return false
	}
	eq := true
	for i := range a {
		eq = zzverif.And(eq, verifSameType(a[i], b[i]))
	}
	return eq
}

func verifSameFields(a, b []physical.SchemaField) bool {
	if len(a) != len(b) {
		return false
	}
	eq := true
	for i := range a {
		eq = zzverif.And(eq, zzverif.StrEq(a[i].Name, b[i].Name))
		eq = zzverif.And(eq, verifSameType(a[i].Type, b[i].Type))
		eq = zzverif.And(eq, a[i].Type.Equals(b[i].Type))
	}
	return eq
}

// ---------- generators ----------

func verifNDTime(name string) time.Time {
	return octosql.VerifNDScalar(name, octosql.VKTime, 0).Time
}

// verifDurations: the durations used inside records and variable contexts (an arbitrary duration
// is covered by VerifC26Value; every symbolic duration costs several slow integer-division queries).
var verifDurations = []time.Duration{0, 1, -1, 1500 * time.Millisecond, -1500 * time.Millisecond, 1<<63 - 1, -1 << 63}

// verifNDValue is octosql.VerifNDValue with durations drawn from verifDurations and times from
// verifFarTimes + 2 (arbitrary durations / times: VerifC26Value, VerifC26TimeValue). A time or
// duration that is symbolic costs several slow integer-division queries as soon as the code under
// test multiplies or divides it by 1e9, and two of them in one value are not decided at all.
func verifNDValue(name string, depth, maxElems, strLen int) octosql.Value {
	n := octosql.VKList
	if depth > 0 {
		n = octosql.VKCount
	}
	kind := zzverif.Choice(name+".kind", n)
	if kind == octosql.VKDuration {
		return octosql.NewDuration(verifDurations[zzverif.Choice(name+".dur", len(verifDurations))])
	}
	if kind == octosql.VKTime {
		// fixed instants (see verifFarTimes) plus a present-day one in local and UTC representation
		k := zzverif.Choice(name+".time", len(verifFarTimes)+2)
		switch {
		case k < len(verifFarTimes):
			return octosql.NewTime(verifFarTimes[k])
		case k == len(verifFarTimes):
			return octosql.NewTime(time.Unix(1600000000, 5))
		}
		return octosql.NewTime(time.Unix(1600000000, 5).UTC())
	}
	if kind < octosql.VKList {
		return octosql.VerifNDScalar(name, kind, strLen)
	}
	cnt := zzverif.Choice(name+".n", maxElems+1)
	elems := make([]octosql.Value, cnt)
	for i := range elems {
		elems[i] = verifNDValue(fmt.Sprintf("%s.%d", name, i), depth-1, maxElems, strLen)
	}
	switch kind {
	case octosql.VKList:
		return octosql.NewList(elems)
	case octosql.VKStruct:
		return octosql.NewStruct(elems)
	default:
		return octosql.NewTuple(elems)
	}
}

func verifNDFields(name string, maxFields, depth, elems, strLen int) []physical.SchemaField {
	n := zzverif.Choice(name+".fields", maxFields+1)
	out := make([]physical.SchemaField, n)
	for i := range out {
		out[i] = physical.SchemaField{
			Name: zzverif.Bytes(fmt.Sprintf("%s.%d.name", name, i), strLen),
			Type: octosql.VerifNDType(fmt.Sprintf("%s.%d.type", name, i), depth, elems, true),
		}
	}
	return out
}

// ---------- converters ----------

// VerifC26Value: every value (depth <= D, <= E elements, strings <= S bytes) survives
// NativeValueToProto / ToNativeValue unchanged (field by field and under Compare). SYMDUR=1:
// durations are arbitrary; SYMDUR=0: durations are drawn from verifDurations (two arbitrary
// durations in one value are two of the slow x/1e9*1e9 kernels in one query, which the solvers do
// not decide in time; the arbitrary duration is covered by the SYMDUR=1 instance with E=1).
func VerifC26Value() {
	D, E, S := zzverif.Param("D"), zzverif.Param("E"), zzverif.Param("S")
	var v octosql.Value
	if zzverif.Param("SYMDUR") == 1 {
		v = octosql.VerifNDValue("v", D, E, S)
	} else {
		v = verifNDValue("v", D, E, S)
	}
	w := NativeValueToProto(v).ToNativeValue()
	zzverif.Reach("converted")
	zzverif.Assert(verifSameValue(v, w), "same-value")
	zzverif.Assert(w.Compare(v) == 0, "compare-equal")
}

// VerifC26Type: every well-formed type (depth <= D, <= E members) survives NativeTypeToProto /
// ToNativeType structurally and under Equals.
func VerifC26Type() {
	t := octosql.VerifNDType("t", zzverif.Param("D"), zzverif.Param("E"), true)
	u := NativeTypeToProto(t).ToNativeType()
	zzverif.Reach("converted")
	zzverif.Assert(verifSameType(t, u), "same-type")
	zzverif.Assert(t.Equals(u), "equals")
}

// VerifC26Schema: schemas of <= F fields (types of depth <= D), any TimeField in [-1, F), both
// NoRetractions flags.
func VerifC26Schema() {
	fields := verifNDFields("s", zzverif.Param("F"), zzverif.Param("D"), zzverif.Param("E"), zzverif.Param("S"))
	tf := zzverif.Int("s.timefield")
	zzverif.Assume(zzverif.And(tf >= -1, tf < len(fields)))
	s := physical.Schema{Fields: fields, TimeField: tf, NoRetractions: zzverif.Bool("s.noretractions")}
	r := NativeSchemaToProto(s).ToNativeSchema()
	zzverif.Reach("converted")
	zzverif.Assert(verifSameFields(s.Fields, r.Fields), "same-fields")
	zzverif.Assert(r.TimeField == s.TimeField, "same-time-field")
	zzverif.Assert(r.NoRetractions == s.NoRetractions, "same-no-retractions")
}

// VerifC26Record: records of <= N values, both retraction flags, any event time in 1678..2262
// (UTC or local representation) and the zero time (no event time).
func VerifC26Record() {
	n := zzverif.Choice("r.n", zzverif.Param("N")+1)
	values := make([]octosql.Value, n)
	for i := range values {
		values[i] = verifNDValue(fmt.Sprintf("r.%d", i), zzverif.Param("D"), zzverif.Param("E"), zzverif.Param("S"))
	}
	rec := execution.Record{Values: values, Retraction: zzverif.Bool("r.retraction")}
	if zzverif.Choice("r.hastime", 2) == 1 {
		rec.EventTime = verifNDTime("r.time")
	}
	out := NativeRecordToProto(rec).ToNativeRecord()
	zzverif.Reach("converted")
	verifAssertSameValues(rec.Values, out.Values, "same-values")
	zzverif.Assert(out.Retraction == rec.Retraction, "same-retraction")
	zzverif.Assert(verifSameInstant(rec.EventTime, out.EventTime), "same-event-time")
	zzverif.Assert(out.EventTime.IsZero() == rec.EventTime.IsZero(), "zero-event-time-preserved")
}

// VerifC26Metadata: watermark messages (and any message type value that fits int32).
func VerifC26Metadata() {
	typ := zzverif.Int32("m.type")
	msg := execution.MetadataMessage{Type: execution.MetadataMessageType(typ), Watermark: verifNDTime("m.watermark")}
	out := NativeMetadataMessageToProto(msg).ToNativeMetadataMessage()
	zzverif.Reach("converted")
	zzverif.Assert(out.Type == msg.Type, "same-type")
	zzverif.Assert(verifSameInstant(msg.Watermark, out.Watermark), "same-watermark")
}

// VerifC26PhysicalContext: variable contexts of 0..FR frames of <= F fields keep frame order,
// names and types.
func VerifC26PhysicalContext() {
	fr := zzverif.Choice("c.frames", zzverif.Param("FR")+1)
	var c *physical.VariableContext
	for i := fr - 1; i >= 0; i-- {
		c = &physical.VariableContext{Parent: c, Fields: verifNDFields(fmt.Sprintf("c.%d", i), zzverif.Param("F"), zzverif.Param("D"), zzverif.Param("E"), zzverif.Param("S"))}
	}
	out := NativePhysicalVariableContextToProto(c).ToNativePhysicalVariableContext()
	zzverif.Reach("converted")
	a, b := c, out
	for i := 0; i < fr; i++ {
		zzverif.Assert(b != nil, "frame-present")
		zzverif.Assert(verifSameFields(a.Fields, b.Fields), "same-frame")
		a, b = a.Parent, b.Parent
	}
	zzverif.Assert(b == nil, "no-extra-frame")
}

// VerifC26ExecutionContext: variable contexts of 0..FR frames of <= N values keep frame order and values.
func VerifC26ExecutionContext() {
	fr := zzverif.Choice("c.frames", zzverif.Param("FR")+1)
	var c *execution.VariableContext
	for i := fr - 1; i >= 0; i-- {
		n := zzverif.Choice(fmt.Sprintf("c.%d.n", i), zzverif.Param("N")+1)
		values := make([]octosql.Value, n)
		for j := range values {
			values[j] = verifNDValue(fmt.Sprintf("c.%d.%d", i, j), zzverif.Param("D"), zzverif.Param("E"), zzverif.Param("S"))
		}
		c = &execution.VariableContext{Parent: c, Values: values}
	}
	out := NativeExecutionVariableContextToProto(c).ToNativeExecutionVariableContext()
	zzverif.Reach("converted")
	// frame structure first, then all values of all frames (durations first, see verifAssertSameValues)
	var want, have []octosql.Value
	a, b := c, out
	for i := 0; i < fr; i++ {
		zzverif.Assert(b != nil, "frame-present")
		zzverif.Assert(len(a.Values) == len(b.Values), "same-frame-size")
		want = append(want, a.Values...)
		have = append(have, b.Values...)
		a, b = a.Parent, b.Parent
	}
	zzverif.Assert(b == nil, "no-extra-frame")
	verifAssertSameValues(want, have, "same-frame-values")
}

// verifFarTimes: instants outside the window in which UnixNano is defined (1678..2262) and on
// its edges: Go's zero time, year 1, 1500, the last second before / first after the window,
// 9999-12-31 ("no end date" sentinels), and execution's watermark extremes.
var verifFarTimes = []time.Time{
	{},
	time.Date(1, 1, 1, 0, 0, 0, 1, time.UTC),
	time.Date(1500, 6, 15, 12, 0, 0, 500, time.UTC),
	time.Date(1677, 9, 21, 0, 12, 43, 145224191, time.UTC),  // 1 ns before the window
	time.Date(1677, 9, 21, 0, 12, 43, 145224192, time.UTC),  // first instant of the window
	time.Unix(0, 1<<63-1),                                   // last instant of the window
	time.Date(2262, 4, 11, 23, 47, 16, 854775808, time.UTC), // 1 ns after the window
	time.Date(9999, 12, 31, 23, 59, 59, 999999999, time.UTC),
	time.Unix(-1, 999999999),
}

// VerifC26TimeValue: time VALUES over the whole range of time.Time that timestamppb documents
// (years 0001..9999), not only 1678..2262: WIDE=0: the instants of verifFarTimes (concrete);
// WIDE=1: additionally an arbitrary instant time.Unix(sec, nsec) with sec in
// [0001-01-01, 9999-12-31] and nsec in [0, 1e9), at the top level or (NEST=1) inside a list.
func VerifC26TimeValue() {
	var t time.Time
	k := zzverif.Choice("t.sample", len(verifFarTimes)+zzverif.Param("WIDE"))
	if k < len(verifFarTimes) {
		t = verifFarTimes[k]
	} else {
		sec := zzverif.Int64("t.sec")
		nsec := zzverif.Int64("t.nsec")
		zzverif.Assume(zzverif.And(sec >= -62135596800, sec <= 253402300799))
		zzverif.Assume(zzverif.And(nsec >= 0, nsec < 1000000000))
		t = time.Unix(sec, nsec)
	}
	v := octosql.NewTime(t)
	if zzverif.Param("NEST") == 1 {
		v = octosql.NewList([]octosql.Value{octosql.NewInt(1), v})
	}
	w := NativeValueToProto(v).ToNativeValue()
	zzverif.Reach("converted")
	zzverif.Assert(verifSameValue(v, w), "same-instant")
	zzverif.Assert(w.Compare(v) == 0, "compare-equal")
}
