package sqlparser

import (
	"github.com/cube2222/octosql/zzverif"
)

type verifStmt struct {
	sql   string
	known string // id of the known finding this entry exhibits ("" = must round-trip)
}

// verifCatalogue: concrete statement shapes in the subset of the grammar that OctoSQL's
// parser.ParseNode accepts, centred on OctoSQL's extensions. One feature per entry where possible.
var verifCatalogue = []verifStmt{
	// --- plain selects
	{"SELECT 1", ""},
	{"SELECT a, b AS c FROM t", ""},
	{"SELECT * FROM fixtures/simple.json", ""},
	{"SELECT t.*, u.a FROM t, u", ""},
	{"SELECT DISTINCT a FROM t WHERE a > 1 AND b < 2 OR NOT c = 3", ""},
	{"SELECT a, COUNT(*), SUM(DISTINCT b) FROM t GROUP BY a HAVING COUNT(*) > 1 ORDER BY a DESC, b ASC LIMIT 5", ""},
	{"SELECT * FROM t LIMIT 5 OFFSET 2", ""},
	{"SELECT * FROM ./test.csv?header=false&x=42 t", ""},
	{"SELECT * FROM (SELECT a FROM t) s", ""},
	{"SELECT (SELECT x FROM u LIMIT 1) AS s FROM t WHERE a IN (SELECT y FROM v)", ""},
	{"WITH a AS (SELECT 1 AS x), b AS (SELECT x FROM a) SELECT * FROM b", ""},
	{"SELECT 1 UNION ALL SELECT 2", ""},
	{"(SELECT a FROM t) UNION DISTINCT (SELECT a FROM u) ORDER BY a LIMIT 3", ""},
	// --- TRIGGER clauses
	{"SELECT a, COUNT(*) FROM t GROUP BY a TRIGGER COUNTING 3", ""},
	{"SELECT a, COUNT(*) FROM t GROUP BY a TRIGGER ON WATERMARK", ""},
	{"SELECT a, COUNT(*) FROM t GROUP BY a TRIGGER ON END OF STREAM", ""},
	{"SELECT a, COUNT(*) FROM t GROUP BY a TRIGGER AFTER DELAY INTERVAL 1 SECOND", ""},
	{"SELECT a, COUNT(*) FROM t GROUP BY a TRIGGER COUNTING 2, ON WATERMARK, ON END OF STREAM", ""},
	// --- table valued functions, TABLE(), DESCRIPTOR()
	{"SELECT * FROM range(start => 1, end => 10) r", ""},
	{"SELECT * FROM range(start => 1, end => 10)", ""},
	{"SELECT * FROM range(start => 1, end => 10) AS r", ""},
	{"SELECT * FROM max_diff_watermark(source => TABLE(events), max_diff => INTERVAL 5 SECONDS, time_field => DESCRIPTOR(time), resolution => INTERVAL 1 SECOND) e", ""},
	{"SELECT * FROM max_diff_watermark(source => TABLE(events e), max_diff => INTERVAL 5 SECONDS, time_field => DESCRIPTOR(e.time))", ""},
	{"SELECT * FROM poll(source => TABLE(t), poll_interval => INTERVAL 1 SECOND) p", ""},
	{"SELECT * FROM tumble(source => TABLE(max_diff_watermark(source => TABLE(t), max_diff => INTERVAL 1 SECOND, time_field => DESCRIPTOR(ts)) w), time_field => DESCRIPTOR(ts), window_length => INTERVAL 1 MINUTE) x", ""},
	{"SELECT * FROM tumble(source => TABLE((SELECT * FROM t) s), time_field => DESCRIPTOR(ts), window_length => INTERVAL 1 MINUTE)", ""},
	{"SELECT * FROM f(x => a + 1, y => 'str', z => (SELECT 1))", ""},
	{"SELECT * FROM f()", ""},
	// --- joins
	{"SELECT * FROM a JOIN b ON a.x = b.x", ""},
	{"SELECT * FROM a LOOKUP JOIN b ON a.x = b.x", ""},
	{"SELECT * FROM a STREAM JOIN b ON a.x = b.x", ""},
	{"SELECT * FROM a LEFT JOIN b ON a.x = b.x", ""},
	{"SELECT * FROM a RIGHT JOIN b ON a.x = b.x", ""},
	{"SELECT * FROM a OUTER JOIN b ON a.x = b.x", ""},
	{"SELECT * FROM a l JOIN b r ON l.x = r.x JOIN c ON c.y = r.y", ""},
	{"SELECT * FROM range(start => 1, end => 3) l LOOKUP JOIN range(start => 1, end => 3) r ON l.i = r.i", ""},
	// --- object field access, ->*
	{"SELECT x->y FROM t", ""},
	{"SELECT x->y->z FROM t", ""},
	{"SELECT t.x->y FROM t", ""},
	{"SELECT x->* FROM t", ""},
	{"SELECT t.x->y->* FROM t", ""},
	{"SELECT (x->y)->z, x->y + 1, len(x->y) FROM t WHERE x->y > 3", ""},
	{"SELECT x->`a b`, x->`select` FROM t", ""},
	{"SELECT f(x)->y, x[0]->y FROM t", ""},
	// --- expressions
	{"SELECT x::int, y::float FROM t", ""},
	{"SELECT CAST(x AS int), x::[], x::{} FROM t", ""},
	{"SELECT x[1], x[1][2] FROM t", ""},
	{"SELECT INTERVAL 5 SECONDS + INTERVAL 1 HOUR", ""},
	{"SELECT a + b * c - d / e % f, -a, (a + b) * c FROM t", ""},
	{"SELECT a - (b - c), a / (b * c), (a = b) = c FROM t", ""},
	{"SELECT a IS NULL, a IS NOT NULL, a IN (1, 2), a NOT IN (1, 2) FROM t", ""},
	{"SELECT a LIKE 'x%', a NOT LIKE 'y', a ~ 'r', a ~* 'r', a !~ 'r', a !~* 'r' FROM t", ""},
	{"SELECT 'str', 1.5, 1e3, true, false, NULL, 0x1F FROM t", ""},
	{"SELECT (1, 'a', (2, 3)) FROM t", ""},
	{"SELECT COALESCE(a, b), now(), count(DISTINCT x) FROM t", ""},
	{"SELECT a <=> b, a <> b, a != b, a <= b, a >= b FROM t", ""},
	{"SELECT a OR b AND c, (a OR b) AND c, NOT (a AND b) FROM t", ""},
	// --- quoting of leaves inside statements
	{"SELECT `select`, `a b`, \"quoted id\", `back``tick` FROM `from`", ""},
	{"SELECT 'it''s', 'a\\'b', 'line\\nbreak', 'back\\\\slash' FROM t", ""},
	{"SELECT 'tab\there' FROM t", ""},
	{"SELECT 'say \"hi\"' FROM t", ""},
}

// VerifC30Statement: for catalogue entry IDX (or every entry when IDX = -1): parse, print, parse the
// printed text, and require (1) it parses, (2) printing again gives the same text, (3) the second
// tree equals the first one field by field (verifDump).
func VerifC30Statement() {
	i := zzverif.Param("IDX")
	if i < 0 {
		i = zzverif.Choice("stmt", len(verifCatalogue))
	}
	e := verifCatalogue[i]
	stmt1, err := Parse(e.sql)
	if err != nil {
		zzverif.Assert(false, "catalogue-entry-is-accepted")
		return
	}
	s := String(stmt1)
	stmt2, err2 := Parse(s)
	zzverif.Reach("printed")
	if e.known != "" {
		zzverif.Known(e.known, true)
	}
	zzverif.Assert(err2 == nil, "printed-text-parses")
	zzverif.Assert(String(stmt2) == s, "print-is-fixpoint")
	zzverif.Assert(verifDump(stmt1) == verifDump(stmt2), "same-tree")
}

func VerifC30Len() { zzverif.Assert(len(verifCatalogue) == zzverif.Param("N"), "catalogue-size") }
