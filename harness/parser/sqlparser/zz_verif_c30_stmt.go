package sqlparser

import (
	"strings"

	"github.com/cube2222/octosql/zzverif"
)

type verifStmt struct {
	sql   string
	known string // id of the known finding this entry exhibits ("" = must round-trip)
	err   bool   // documentation only: on the unrepaired tree the printed text is a syntax error
}

// verifCatalogue: concrete statement shapes in the subset of the grammar that OctoSQL's
// parser.ParseNode accepts, centred on OctoSQL's extensions. One feature per entry where possible.
var verifCatalogue = []verifStmt{
	// --- plain selects
	{"SELECT 1", "", false},
	{"SELECT a, b AS c FROM t", "", false},
	{"SELECT * FROM fixtures/simple.json", "", false},
	{"SELECT t.*, u.a FROM t, u", "", false},
	{"SELECT DISTINCT a FROM t WHERE a > 1 AND b < 2 OR NOT c = 3", "", false},
	{"SELECT a, COUNT(*), SUM(DISTINCT b) FROM t GROUP BY a HAVING COUNT(*) > 1 ORDER BY a DESC, b ASC LIMIT 5", "", false},
	{"SELECT * FROM t LIMIT 5 OFFSET 2", "", false},
	{"SELECT * FROM ./test.csv?header=false&x=42 t", "", false},
	{"SELECT * FROM (SELECT a FROM t) s", "", false},
	{"SELECT (SELECT x FROM u LIMIT 1) AS s FROM t WHERE a IN (SELECT y FROM v)", "", false},
	{"WITH a AS (SELECT 1 AS x), b AS (SELECT x FROM a) SELECT * FROM b", "C30-with-format-panics", false},
	{"(SELECT 1) UNION ALL SELECT 2", "", false},
	{"(SELECT a FROM t) UNION DISTINCT (SELECT a FROM u) ORDER BY a LIMIT 3", "", false},
	// --- TRIGGER clauses
	{"SELECT a, COUNT(*) FROM t GROUP BY a TRIGGER COUNTING 3", "C30-trigger-clause-not-printed", false},
	{"SELECT a, COUNT(*) FROM t GROUP BY a TRIGGER ON WATERMARK", "C30-trigger-clause-not-printed", false},
	{"SELECT a, COUNT(*) FROM t GROUP BY a TRIGGER ON END OF STREAM", "C30-trigger-clause-not-printed", false},
	{"SELECT a, COUNT(*) FROM t GROUP BY a TRIGGER AFTER DELAY INTERVAL 1 SECOND", "C30-trigger-clause-not-printed", false},
	{"SELECT a, COUNT(*) FROM t GROUP BY a TRIGGER COUNTING 2, ON WATERMARK, ON END OF STREAM", "C30-trigger-clause-not-printed", false},
	// --- table valued functions, TABLE(), DESCRIPTOR()
	{"SELECT * FROM range(start => 1, end => 10) r", "C30-tvf-alias-not-printed", true},
	{"SELECT * FROM range(start => 1, end => 10) AS r", "C30-tvf-alias-not-printed", true},
	{"SELECT * FROM max_diff_watermark(source => TABLE(events), max_diff => INTERVAL 5 SECONDS, time_field => DESCRIPTOR(time), resolution => INTERVAL 1 SECOND) e", "C30-tvf-alias-not-printed", true},
	{"SELECT * FROM max_diff_watermark(source => TABLE(events e), max_diff => INTERVAL 5 SECONDS, time_field => DESCRIPTOR(e.time)) w", "C30-tvf-alias-not-printed", true},
	{"SELECT * FROM poll(source => TABLE(t), poll_interval => INTERVAL 1 SECOND) p", "C30-tvf-alias-not-printed", true},
	{"SELECT * FROM tumble(source => TABLE(max_diff_watermark(source => TABLE(t), max_diff => INTERVAL 1 SECOND, time_field => DESCRIPTOR(ts)) w), time_field => DESCRIPTOR(ts), window_length => INTERVAL 1 MINUTE) x", "C30-tvf-alias-not-printed", true},
	{"SELECT * FROM tumble(source => TABLE((SELECT * FROM t) s), time_field => DESCRIPTOR(ts), window_length => INTERVAL 1 MINUTE) w", "C30-tvf-alias-not-printed", true},
	{"SELECT * FROM f(x => a + 1, y => 'str', z => (SELECT 1)) w", "C30-tvf-alias-not-printed", true},
	{"SELECT * FROM f() w", "C30-tvf-alias-not-printed", true},
	// --- joins
	{"SELECT * FROM a JOIN b ON a.x = b.x", "", false},
	{"SELECT * FROM a LOOKUP JOIN b ON a.x = b.x", "C30-join-strategy-not-printed", false},
	{"SELECT * FROM a STREAM JOIN b ON a.x = b.x", "C30-join-strategy-not-printed", false},
	{"SELECT * FROM a LEFT JOIN b ON a.x = b.x", "", false},
	{"SELECT * FROM a RIGHT JOIN b ON a.x = b.x", "", false},
	{"SELECT * FROM a OUTER JOIN b ON a.x = b.x", "", false},
	{"SELECT * FROM a l JOIN b r ON l.x = r.x JOIN c ON c.y = r.y", "", false},
	{"SELECT * FROM range(start => 1, end => 3) l LOOKUP JOIN range(start => 1, end => 3) r ON l.i = r.i", "C30-tvf-alias-not-printed", true},
	// --- object field access, ->*
	{"SELECT x->y FROM t", "", false},
	{"SELECT x->y->z FROM t", "", false},
	{"SELECT t.x->y FROM t", "", false},
	{"SELECT x->* FROM t", "", false},
	{"SELECT t.x->y->* FROM t", "", false},
	{"SELECT (x->y)->z, x->y + 1, len(x->y) FROM t WHERE x->y > 3", "", false},
	{"SELECT x->`a b`, x->`select` FROM t", "", false},
	{"SELECT f(x)->y, (x)->y FROM t", "", false},
	{"SELECT x[0]->y FROM t", "C30-array-index-format", true},
	// --- expressions
	{"SELECT x::int, y::float FROM t", "", false},
	{"SELECT CAST(x AS int), x::[], x::{} FROM t", "", false},
	{"SELECT x[1], x[1][2] FROM t", "C30-array-index-format", true},
	{"SELECT INTERVAL 5 SECONDS + INTERVAL 1 HOUR", "", false},
	{"SELECT a + b * c - d / e % f, -a, (a + b) * c FROM t", "", false},
	{"SELECT a - (b - c), a / (b * c), (a = b) = c FROM t", "", false},
	{"SELECT a IS NULL, a IS NOT NULL, a IN (1, 2), a NOT IN (1, 2) FROM t", "", false},
	{"SELECT a LIKE 'x%', a NOT LIKE 'y', a ~ 'r', a ~* 'r', a !~ 'r', a !~* 'r' FROM t", "", false},
	{"SELECT 'str', 1.5, 1e3, true, false, NULL, 0x1F FROM t", "", false},
	{"SELECT (1, 'a', (2, 3)) FROM t", "", false},
	{"SELECT COALESCE(a, b), now(), count(DISTINCT x) FROM t", "", false},
	{"SELECT a <=> b, a <> b, a != b, a <= b, a >= b FROM t", "", false},
	{"SELECT a OR b AND c, (a OR b) AND c, NOT (a AND b) FROM t", "", false},
	{"SELECT ! ~a, - -a, -+a, ~ -a, ! !a FROM t", "", false},
	// --- quoting of leaves inside statements
	{"SELECT `Left`.a, `ORDER`.b FROM t `Left` JOIN u AS `ORDER` ON `Left`.a = `ORDER`.b", "", false},
	{"SELECT * FROM `Status`, `Select`.`From`", "", false},
	{"SELECT `select`, `a b`, \"quoted id\", `back``tick` FROM `from`", "", false},
	{"SELECT 'it''s', 'a\\'b', 'line\\nbreak', 'back\\\\slash' FROM t", "", false},
	{"SELECT 'tab\there' FROM t", "C30-string-escape-asymmetry", false},
	{"SELECT 'say \"hi\"' FROM t", "C30-string-escape-asymmetry", false},
}

// VerifC30Statement: for catalogue entry IDX (or every entry when IDX = -1): parse, print, parse the
// printed text, and require (1) it parses, (2) printing again gives the same text, (3) the second
// tree equals the first one field by field (verifDump).
func VerifC30Statement() {
	i := zzverif.Param("IDX")
	if i < 0 {
		i = zzverif.Choice("stmt", len(verifCatalogue))
	}
	e := verifCatalogue[i]
	stmt1, err := Parse(e.sql)
	if err != nil {
		zzverif.Assert(false, "catalogue-entry-is-accepted")
		return
	}
	if e.known != "" {
		zzverif.Known(e.known, true)
	}
	s := String(stmt1)
	stmt2, err2 := Parse(s)
	zzverif.Reach("printed")
	zzverif.Assert(err2 == nil, "printed-text-parses")
	zzverif.Assert(String(stmt2) == s, "print-is-fixpoint")
	zzverif.Assert(verifDump(stmt1) == verifDump(stmt2), "same-tree")
}

// VerifC30StmtLeaf: a concrete statement shape whose leaf WHICH is replaced IN THE TREE by a
// symbolic one (0: string literal, 1: field name after ->, 2: column alias, 3: table name,
// 4: table alias); print, parse (the goyacc driver runs on concrete token kinds, the lexer on the
// symbolic bytes), and require that the statement parses, prints identically and that the tree —
// in particular the leaf — is the same.
func VerifC30StmtLeaf() {
	which := zzverif.Param("WHICH")
	stmt1, err := Parse("SELECT x->fld AS al, 'lit' FROM tbl t WHERE t.c = 2")
	if err != nil {
		zzverif.Assert(false, "template-is-accepted")
		return
	}
	sel := stmt1.(*Select)
	L := zzverif.Param("L")
	if which == 0 {
		s := verifNDLiteral("s", L, 0)
		sel.SelectExprs[1].(*AliasedExpr).Expr.(*SQLVal).Val = []byte(s)
		zzverif.Known("C30-string-escape-asymmetry", verifEscAsym(s))
	} else {
		name, invalid, suppLetter := verifNDName("n", L, zzverif.Param("MB"))
		switch which {
		case 1:
			sel.SelectExprs[0].(*AliasedExpr).Expr.(*ObjectFieldAccess).Field = NewColIdent(name)
		case 2:
			sel.SelectExprs[0].(*AliasedExpr).As = NewColIdent(name)
		case 3:
			sel.From[0].(*AliasedTableExpr).Expr = TableName{Name: NewTableIdent(name)}
		case 4:
			sel.From[0].(*AliasedTableExpr).As = NewTableIdent(name)
		}
		zzverif.Known("C30-ident-slash", zzverif.StrEq(name, "/"))
		zzverif.Known("C30-ident-invalid-utf8", invalid)
		zzverif.Known("C30-ident-rune-truncation", zzverif.And(suppLetter, zzverif.Not(invalid)))
	}
	s := String(stmt1)
	stmt2, err2 := Parse(s)
	zzverif.Reach("printed")
	zzverif.Assert(err2 == nil, "printed-text-parses")
	zzverif.Assert(zzverif.StrEq(String(stmt2), s), "print-is-fixpoint")
	zzverif.Assert(zzverif.StrEq(verifDump(stmt1), verifDump(stmt2)), "same-tree")
}

// VerifC30TriggerNode: the four trigger kinds printed on their own (Triggers.Format), appended to a
// select and parsed again must give the same trigger (on the unrepaired tree Select.Format never
// prints the clause, which hides the printers of the individual triggers from VerifC30Statement).
func VerifC30TriggerNode() {
	k := zzverif.Param("KIND")
	if k < 0 {
		k = zzverif.Choice("kind", 4)
	}
	one := &SQLVal{Type: IntVal, Val: []byte("1")}
	var tr Trigger
	switch k {
	case 0:
		tr = &WatermarkTrigger{}
	case 1:
		tr = &CountingTrigger{Count: one}
	case 2:
		tr = &EndOfStreamTrigger{}
	default:
		tr = &DelayTrigger{Delay: &IntervalExpr{Expr: one, Unit: "SECOND"}}
	}
	text := "select a from t " + strings.TrimSpace(String(Triggers{tr}))
	stmt, err := Parse(text)
	zzverif.Reach("printed")
	zzverif.Known("C30-trigger-printed-with-wrong-keywords", k >= 2)
	zzverif.Assert(err == nil, "printed-trigger-parses")
	sel := stmt.(*Select)
	zzverif.Assert(len(sel.Trigger) == 1, "one-trigger")
	zzverif.Assert(verifDump(sel.Trigger[0]) == verifDump(tr), "same-trigger")
}

// verifUnaryOps: the seven unary operators of the grammar (as written in a statement).
var verifUnaryOps = []string{"+", "-", "~", "!", "binary", "_binary", "_utf8mb4"}

// VerifC30UnaryStack: every stack of DEPTH unary operators applied directly (no parentheses) to a
// column, e.g. `! ~a`, `- -a`, `-+a`: the statement is written with the operators separated by
// blanks, parsed, printed, parsed again; the printed text must parse, be a fixpoint of printing and
// give the same tree. (The printer has to keep apart operator pairs that the lexer would glue
// into another token: `--` comment, `!~` regexp operator.)
func VerifC30UnaryStack() {
	depth := zzverif.Param("DEPTH")
	sql := "select "
	for i := 0; i < depth; i++ {
		sql += verifUnaryOps[zzverif.Choice("op", len(verifUnaryOps))] + " "
	}
	sql += "a from t"
	stmt1, err := Parse(sql)
	if err != nil {
		zzverif.Assert(false, "stacked-unary-operators-are-accepted")
		return
	}
	s := String(stmt1)
	stmt2, err2 := Parse(s)
	zzverif.Reach("printed")
	zzverif.Assert(err2 == nil, "printed-text-parses")
	zzverif.Assert(String(stmt2) == s, "print-is-fixpoint")
	zzverif.Assert(verifDump(stmt1) == verifDump(stmt2), "same-tree")
}

// VerifC30ClauseMatrix: every combination of the optional clauses of a SELECT (DISTINCT, WHERE,
// GROUP BY, HAVING, TRIGGER (one of 3 forms), ORDER BY, LIMIT, a join, a table valued function in
// FROM, a WITH prefix): the combinations the parser accepts must print to a text that parses again
// to the same tree — the clauses have to come out in the order the grammar demands.
func VerifC30ClauseMatrix() {
	pick := func(name string, alts ...string) string { return alts[zzverif.Choice(name, len(alts))] }
	with, distinct := "", ""
	if zzverif.Param("FULL") == 1 { // FULL=0 (quick): no WITH prefix, no DISTINCT
		with, distinct = pick("with", "", "WITH x AS (SELECT b FROM u) "), pick("distinct", "", "DISTINCT ")
	}
	sql := with +
		"SELECT " + distinct + "a, COUNT(*) AS c FROM " +
		pick("from", "t", "t JOIN u ON t.a = u.a", "tumble(source=>TABLE(t), time_field=>DESCRIPTOR(ts), window_length=>INTERVAL 1 SECOND) w") +
		pick("where", "", " WHERE a > 1") +
		pick("groupby", "", " GROUP BY a") +
		pick("having", "", " HAVING COUNT(*) > 1") +
		pick("trigger", "", " TRIGGER COUNTING 100", " TRIGGER ON WATERMARK, ON END OF STREAM") +
		pick("orderby", "", " ORDER BY a DESC") +
		pick("limit", "", " LIMIT 3")
	stmt1, err := Parse(sql)
	if err != nil {
		zzverif.Reach("combination-not-in-the-grammar")
		return
	}
	s := String(stmt1)
	stmt2, err2 := Parse(s)
	zzverif.Reach("printed")
	zzverif.Assert(err2 == nil, "printed-text-parses")
	zzverif.Assert(String(stmt2) == s, "print-is-fixpoint")
	zzverif.Assert(verifDump(stmt1) == verifDump(stmt2), "same-tree")
}
