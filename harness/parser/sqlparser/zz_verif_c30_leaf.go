package sqlparser

import (
	"github.com/cube2222/octosql/zzverif"
)

// verifEscAsym is the region of the known finding C30-string-escape-asymmetry: the literal contains
// one of the six bytes that sqltypes.SQLEncodeMap escapes but Tokenizer.scanString does not decode
// (NUL, double quote, backspace, TAB, CR, ctl-Z). Branch-free.
func verifEscAsym(s string) bool {
	in := false
	for i := 0; i < len(s); i++ {
		c := s[i]
		hit := zzverif.Or(zzverif.Or(zzverif.Or(c == 0, c == '"'), zzverif.Or(c == '\b', c == '\t')), zzverif.Or(c == '\r', c == 26))
		in = zzverif.Or(in, hit)
	}
	return in
}

// VerifC30StringLeaf: for every byte string s of <= L bytes, SQLVal{StrVal, s} printed by the real
// formatter (SQLVal.Format -> sqltypes.Value.EncodeSQL -> SQLEncodeMap) and scanned by the real
// Tokenizer is exactly one STRING token with the bytes of s followed by end of input.
func VerifC30StringLeaf() {
	L := zzverif.Param("L")
	s := zzverif.Bytes("s", L)
	text := String(NewStrVal([]byte(s)))
	tkn := NewStringTokenizer(text)
	typ, val := tkn.Scan()
	typ2, _ := tkn.Scan()
	zzverif.Reach("scanned")
	zzverif.Known("C30-string-escape-asymmetry", verifEscAsym(s))
	zzverif.Assert(typ == STRING, "one-string-token")
	zzverif.Assert(zzverif.StrEq(string(val), s), "same-bytes")
	zzverif.Assert(typ2 == 0, "then-eof")
}

func VerifC30Probe0() {
	zzverif.Reach("x")
}

func VerifC30Probe1() {
	text := String(NewStrVal([]byte("ab")))
	tkn := NewStringTokenizer(text)
	typ, _ := tkn.Scan()
	zzverif.Assert(typ == STRING, "x")
}

// VerifC30IdentLeaf: for every non-empty name of <= L bytes, ColIdent{name} printed by the real
// formatID and scanned by the real Tokenizer is exactly one ID token with the same bytes, then EOF.
func VerifC30IdentLeaf() {
	L := zzverif.Param("L")
	name := zzverif.Bytes("n", L)
	zzverif.Assume(len(name) > 0)
	var text string
	if zzverif.Param("TABLE") == 1 {
		text = String(NewTableIdent(name))
	} else {
		text = String(NewColIdent(name))
	}
	tkn := NewStringTokenizer(text)
	typ, val := tkn.Scan()
	typ2, _ := tkn.Scan()
	zzverif.Reach("scanned")
	zzverif.Assert(typ == ID, "one-id-token")
	zzverif.Assert(zzverif.StrEq(string(val), name), "same-name")
	zzverif.Assert(typ2 == 0, "then-eof")
}
