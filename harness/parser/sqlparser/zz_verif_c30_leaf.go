package sqlparser

import (
	"fmt"

	"github.com/cube2222/octosql/zzverif"
)

// verifEscAsym is the region of the known finding C30-string-escape-asymmetry: the literal contains
// one of the six bytes that sqltypes.SQLEncodeMap escapes but Tokenizer.scanString does not decode
// (NUL, double quote, backspace, TAB, CR, ctl-Z). Branch-free.
func verifEscAsym(s string) bool {
	in := false
	for i := 0; i < len(s); i++ {
		c := s[i]
		hit := zzverif.Or(zzverif.Or(zzverif.Or(c == 0, c == '"'), zzverif.Or(c == '\b', c == '\t')), zzverif.Or(c == '\r', c == 26))
		in = zzverif.Or(in, hit)
	}
	return in
}

// verifStrAlphabet: one representative of every class the encoder and the lexer distinguish: the 9
// bytes SQLEncodeMap escapes, the characters that mean something after a backslash in either table
// ('n', '0', 'Z', 'b', 't', 'r'), a plain letter, and bytes >= 0x80.
var verifStrAlphabet = []byte{0, '\'', '"', '\b', '\n', '\r', '\t', 26, '\\', 'n', '0', 'Z', 'b', 't', 'r', 'a', 0x80, 0xff}

// verifNDLiteral: FULL=1: <= L arbitrary bytes (SQLEncodeMap[ch] forks over all 256 values of each
// byte); FULL=0: <= L bytes drawn from verifStrAlphabet.
func verifNDLiteral(name string, L, full int) string {
	if full == 1 {
		return zzverif.Bytes(name, L)
	}
	n := zzverif.Choice(name+".len", L+1)
	b := make([]byte, n)
	for i := range b {
		b[i] = verifStrAlphabet[zzverif.Choice(fmt.Sprintf("%s.%d", name, i), len(verifStrAlphabet))]
	}
	return string(b)
}

// VerifC30StringLeaf: for every literal s (see verifNDLiteral), SQLVal{StrVal, s} printed by the real
// formatter (SQLVal.Format -> sqltypes.Value.EncodeSQL -> SQLEncodeMap) and scanned by the real
// Tokenizer is exactly one STRING token with the bytes of s, followed by end of input.
func VerifC30StringLeaf() {
	s := verifNDLiteral("s", zzverif.Param("L"), zzverif.Param("FULL"))
	text := String(NewStrVal([]byte(s)))
	tkn := NewStringTokenizer(text)
	typ, val := tkn.Scan()
	typ2, _ := tkn.Scan()
	zzverif.Reach("scanned")
	zzverif.Known("C30-string-escape-asymmetry", verifEscAsym(s))
	zzverif.Assert(typ == STRING, "one-string-token")
	zzverif.Assert(zzverif.StrEq(string(val), s), "same-bytes")
	zzverif.Assert(typ2 == 0, "then-eof")
}

// Identifier names are sequences of <= L units; a unit is an arbitrary ASCII byte (symbolic) or,
// when MB=1, one of these multi-byte representatives (the UTF-8 decoder indexes a 256-entry table,
// so symbolic non-ASCII bytes would only fork over all values).
var verifIdentUnits = []string{
	"é",          // 2-byte rune
	"€",          // 3-byte rune
	"\U00010041", // 4-byte rune whose low 16 bits are 'A'
	"\U00010031", // 4-byte rune whose low 16 bits are '1'
	"\U0001F600", // 4-byte rune whose low 16 bits are no letter
	"\xff",       // invalid UTF-8
	"\xc3",       // truncated 2-byte sequence
}

const (
	verifUnitASCII = iota
	verifUnitValidBMP
	verifUnitSuppLetter
	verifUnitSuppOther
	verifUnitInvalid
)

var verifIdentUnitKind = []int{verifUnitValidBMP, verifUnitValidBMP, verifUnitSuppLetter, verifUnitSuppLetter, verifUnitSuppOther, verifUnitInvalid, verifUnitInvalid}

// verifNDName returns the name and, branch-free, whether it contains invalid UTF-8 / a rune above
// U+FFFF whose uint16 truncation is a letter or digit.
func verifNDName(name string, L, mb int) (s string, invalid, suppLetter bool) {
	n := zzverif.Choice(name+".units", L) + 1
	for i := 0; i < n; i++ {
		k := 0
		if mb == 1 {
			k = zzverif.Choice(fmt.Sprintf("%s.kind%d", name, i), 1+len(verifIdentUnits))
		}
		if k == 0 {
			b := zzverif.Byte(fmt.Sprintf("%s.%d", name, i))
			zzverif.Assume(b < 0x80)
			s += string([]byte{b})
			continue
		}
		s += verifIdentUnits[k-1]
		switch verifIdentUnitKind[k-1] {
		case verifUnitInvalid:
			// "\xc3" followed by a continuation byte would be valid; the next unit is ASCII or a
			// lead byte, never a continuation byte, so the sequence stays invalid.
			invalid = true
		case verifUnitSuppLetter:
			suppLetter = true
		}
	}
	return s, invalid, suppLetter
}

// VerifC30IdentLeaf: for every non-empty name, ColIdent / TableIdent printed by the real formatID
// (keyword table, backtick doubling) and scanned by the real Tokenizer is exactly one ID token with
// the same bytes, followed by end of input.
func VerifC30IdentLeaf() {
	name, invalid, suppLetter := verifNDName("n", zzverif.Param("L"), zzverif.Param("MB"))
	var text string
	if zzverif.Param("TABLE") == 1 {
		text = String(NewTableIdent(name))
	} else {
		text = String(NewColIdent(name))
	}
	tkn := NewStringTokenizer(text)
	typ, val := tkn.Scan()
	typ2, _ := tkn.Scan()
	zzverif.Reach("scanned")
	zzverif.Known("C30-ident-slash", zzverif.StrEq(name, "/"))
	zzverif.Known("C30-ident-invalid-utf8", invalid)
	zzverif.Known("C30-ident-rune-truncation", zzverif.And(suppLetter, zzverif.Not(invalid)))
	zzverif.Assert(typ == ID, "one-id-token")
	zzverif.Assert(zzverif.StrEq(string(val), name), "same-name")
	zzverif.Assert(typ2 == 0, "then-eof")
}
