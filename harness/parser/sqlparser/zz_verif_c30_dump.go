package sqlparser

import "strconv"

// verifDump is an independent, fully parenthesised dump of a syntax tree (type tags + every field
// that OctoSQL's parser.ParseNode reads). It does NOT use the Format methods under test (except in
// the fallback for node kinds outside OctoSQL's subset, marked "?"), so two trees with equal dumps
// are structurally equal on those fields. Leaves are written length-prefixed.
func verifDump(n SQLNode) string {
	switch n := n.(type) {
	case nil:
		return "nil"
	case *Select:
		if n == nil {
			return "nil"
		}
		s := "Select{cache=" + n.Cache + " distinct=" + n.Distinct + " hints=" + n.Hints + " lock=" + n.Lock + " exprs=["
		for _, e := range n.SelectExprs {
			s += verifDump(e) + ","
		}
		s += "] from=["
		for _, e := range n.From {
			s += verifDump(e) + ","
		}
		s += "] where=" + verifDumpWhere(n.Where) + " groupby=["
		for _, e := range n.GroupBy {
			s += verifDump(e) + ","
		}
		s += "] having=" + verifDumpWhere(n.Having) + " orderby=" + verifDumpOrderBy(n.OrderBy) + " limit=" + verifDumpLimit(n.Limit) + " trigger=["
		for _, t := range n.Trigger {
			s += verifDump(t) + ","
		}
		return s + "]}"
	case *ParenSelect:
		return "ParenSelect{" + verifDump(n.Select) + "}"
	case *Union:
		return "Union{" + n.Type + " l=" + verifDump(n.Left) + " r=" + verifDump(n.Right) + " orderby=" + verifDumpOrderBy(n.OrderBy) + " limit=" + verifDumpLimit(n.Limit) + " lock=" + n.Lock + "}"
	case *With:
		s := "With{["
		for _, c := range n.CommonTableExpressions {
			s += "CTE{" + verifQ(c.Name.v) + " " + verifDump(c.Select) + "},"
		}
		return s + "] " + verifDump(n.Select) + "}"
	case *WatermarkTrigger:
		return "OnWatermark"
	case *EndOfStreamTrigger:
		return "OnEndOfStream"
	case *DelayTrigger:
		return "AfterDelay{" + verifDump(n.Delay) + "}"
	case *CountingTrigger:
		return "Counting{" + verifDump(n.Count) + "}"
	case *StarExpr:
		return "Star{" + verifDump(n.TableName) + "}"
	case *AliasedExpr:
		return "AliasedExpr{" + verifDump(n.Expr) + " as=" + verifQ(n.As.val) + "}"
	case *ObjectExplode:
		return "Explode{" + verifDump(n.Object) + "}"
	case *AliasedTableExpr:
		s := "AliasedTable{" + verifDump(n.Expr) + " as=" + verifQ(n.As.v)
		if len(n.Partitions) > 0 || n.Hints != nil {
			s += " ?" + String(n.Partitions) + String(n.Hints)
		}
		return s + "}"
	case TableName:
		return "TableName{" + verifQ(n.Qualifier.v) + "." + verifQ(n.Name.v) + "}"
	case *ParenTableExpr:
		s := "ParenTable{"
		for _, e := range n.Exprs {
			s += verifDump(e) + ","
		}
		return s + "}"
	case *JoinTableExpr:
		s := "Join{" + n.Join + " strategy=" + n.Strategy + " l=" + verifDump(n.LeftExpr) + " r=" + verifDump(n.RightExpr) + " on=" + verifDump(n.Condition.On) + " using=["
		for _, c := range n.Condition.Using {
			s += verifQ(c.val) + ","
		}
		return s + "]}"
	case *TableValuedFunction:
		s := "TVF{" + verifQ(n.Name.val) + " as=" + verifQ(n.As.v) + " args=["
		for _, a := range n.Args {
			s += verifQ(a.Name.val) + "=>" + verifDump(a.Value) + ","
		}
		return s + "]}"
	case *ExprTableValuedFunctionArgumentValue:
		return "ArgExpr{" + verifDump(n.Expr) + "}"
	case *TableDescriptorTableValuedFunctionArgumentValue:
		return "ArgTable{" + verifDump(n.Table) + "}"
	case *FieldDescriptorTableValuedFunctionArgumentValue:
		return "ArgDescriptor{" + verifDump(n.Field) + "}"
	case *Subquery:
		return "Subquery{" + verifDump(n.Select) + "}"
	case *AndExpr:
		return "And{" + verifDump(n.Left) + "," + verifDump(n.Right) + "}"
	case *OrExpr:
		return "Or{" + verifDump(n.Left) + "," + verifDump(n.Right) + "}"
	case *NotExpr:
		return "Not{" + verifDump(n.Expr) + "}"
	case *ParenExpr:
		return "Paren{" + verifDump(n.Expr) + "}"
	case *ComparisonExpr:
		return "Cmp{" + n.Operator + " " + verifDump(n.Left) + "," + verifDump(n.Right) + " escape=" + verifDump(n.Escape) + "}"
	case *IsExpr:
		return "Is{" + n.Operator + " " + verifDump(n.Expr) + "}"
	case *SQLVal:
		return "Val{" + strconv.Itoa(int(n.Type)) + " " + verifQ(string(n.Val)) + "}"
	case *NullVal:
		return "Null"
	case BoolVal:
		if n {
			return "True"
		}
		return "False"
	case *ObjectFieldAccess:
		return "Field{" + verifDump(n.Object) + "->" + verifQ(n.Field.val) + "}"
	case *ColName:
		if n == nil {
			return "nil"
		}
		return "Col{" + verifDump(n.Qualifier) + "." + verifQ(n.Name.val) + "}"
	case ValTuple:
		s := "Tuple{"
		for _, e := range n {
			s += verifDump(e) + ","
		}
		return s + "}"
	case *BinaryExpr:
		return "Bin{" + n.Operator + " " + verifDump(n.Left) + "," + verifDump(n.Right) + "}"
	case *UnaryExpr:
		return "Un{" + n.Operator + " " + verifDump(n.Expr) + "}"
	case *IntervalExpr:
		return "Interval{" + verifDump(n.Expr) + " " + n.Unit + "}"
	case *FuncExpr:
		s := "Func{" + verifQ(n.Qualifier.v) + "." + verifQ(n.Name.val) + " distinct=" + strconv.FormatBool(n.Distinct) + " args=["
		for _, e := range n.Exprs {
			s += verifDump(e) + ","
		}
		return s + "]}"
	case *ConvertExpr:
		return "Convert{" + verifDump(n.Expr) + " to=" + verifDump(n.Type) + "}"
	case *ConvertTypeSimple:
		return "Type{" + verifQ(n.Name) + "}"
	case *ConvertTypeList:
		return "TypeList"
	case *ConvertTypeObject:
		return "TypeObject"
	}
	return "?{" + String(n) + "}"
}

// verifQ writes a leaf injectively (length prefix) without inspecting its bytes.
func verifQ(s string) string { return strconv.Itoa(len(s)) + ":" + s }

func verifDumpWhere(w *Where) string {
	if w == nil {
		return "nil"
	}
	return w.Type + ":" + verifDump(w.Expr)
}

func verifDumpOrderBy(o OrderBy) string {
	s := "["
	for _, e := range o {
		s += verifDump(e.Expr) + " " + e.Direction + ","
	}
	return s + "]"
}

func verifDumpLimit(l *Limit) string {
	if l == nil {
		return "nil"
	}
	return "Limit{off=" + verifDump(l.Offset) + " n=" + verifDump(l.Rowcount) + "}"
}
