package vnode

import (
	"fmt"
	"time"

	"github.com/cube2222/octosql/aggregates"
	"github.com/cube2222/octosql/execution"
	"github.com/cube2222/octosql/execution/nodes"
	"github.com/cube2222/octosql/octosql"
	"github.com/cube2222/octosql/zzverif"
	"github.com/cube2222/octosql/zzverif/vx"
)

// timedScript is a watermarked stream: L messages, each a record or a watermark. Records carry
// [Int(id = message index), Int|NULL symbolic cell], a symbolic retraction flag and a zero or a
// non-zero event time time.Unix(sec, 0), sec symbolic in [1,T]; watermarks are time.Unix(sec, 0),
// non-decreasing; no record is late (event time strictly above the last watermark before it).
// secs[i] is the symbolic second of message i (0 for a record without event time).
type timedScript struct {
	msgs []vx.Msg
	secs []int64
}

func ndTimedScript(name string, L, T int, zeroTimes bool) timedScript {
	var s timedScript
	lastW := int64(0)
	for i := 0; i < L; i++ {
		if zzverif.Choice(fmt.Sprintf("%s.m%d.kind", name, i), 2) == 0 {
			var et time.Time
			sec := int64(0)
			if !zeroTimes || zzverif.Choice(fmt.Sprintf("%s.m%d.hastime", name, i), 2) == 1 {
				et, sec = secTime(fmt.Sprintf("%s.m%d.t", name, i), T)
				zzverif.Assume(sec > lastW)
			}
			vals := []octosql.Value{octosql.NewInt(int64(i)), vx.NDCell(fmt.Sprintf("%s.m%d.v", name, i))}
			s.msgs = append(s.msgs, vx.Msg{Kind: vx.MsgRecord, Rec: execution.NewRecord(vals, zzverif.Bool(fmt.Sprintf("%s.m%d.retr", name, i)), et)})
			s.secs = append(s.secs, sec)
		} else {
			w, sec := secTime(fmt.Sprintf("%s.m%d.w", name, i), T)
			zzverif.Assume(sec >= lastW)
			lastW = sec
			s.msgs = append(s.msgs, vx.Msg{Kind: vx.MsgWatermark, Watermark: w})
			s.secs = append(s.secs, sec)
		}
	}
	return s
}

// directBuffer drives execution.RecordEventTimeBuffer the way the join nodes do: every record is
// added (also those without event time), a watermark releases and is then forwarded, end of
// stream releases the rest.
type directBuffer struct{ source execution.Node }

func (d *directBuffer) Run(ctx execution.ExecutionContext, produce execution.ProduceFn, metaSend execution.MetaSendFn) error {
	buf := execution.NewRecordEventTimeBuffer()
	if err := d.source.Run(ctx, func(pc execution.ProduceContext, r execution.Record) error {
		buf.AddRecord(r)
		return nil
	}, func(pc execution.ProduceContext, m execution.MetadataMessage) error {
		if err := buf.Emit(m.Watermark, execution.ProduceFnApplyContext(produce, pc)); err != nil {
			return err
		}
		return metaSend(pc, m)
	}); err != nil {
		return err
	}
	if err := buf.Emit(execution.WatermarkMaxValue, execution.ProduceFnApplyContext(produce, execution.ProduceFromExecutionContext(ctx))); err != nil {
		return err
	}
	if !buf.Empty() {
		return fmt.Errorf("buffer not empty after the final emit")
	}
	return nil
}

// VerifC18Buffer: nodes.EventTimeBuffer (DIRECT=0) / execution.RecordEventTimeBuffer (DIRECT=1).
func VerifC18Buffer() {
	s := ndTimedScript("s", zzverif.Param("L"), zzverif.Param("T"), true)
	var node execution.Node
	if zzverif.Param("DIRECT") == 1 {
		node = &directBuffer{source: vx.NewScriptSource(s.msgs)}
	} else {
		node = nodes.NewEventTimeBuffer(vx.NewScriptSource(s.msgs))
	}
	sink := &vx.Sink{}
	err := vx.RunNode(node, sink)
	zzverif.Reach("ran")
	zzverif.Assert(err == nil, "no-error")

	nrec, nwm := 0, 0
	for _, m := range s.msgs {
		if m.Kind == vx.MsgRecord {
			nrec++
		} else {
			nwm++
		}
	}
	var inWm []int64
	for i, m := range s.msgs {
		if m.Kind == vx.MsgWatermark {
			inWm = append(inWm, s.secs[i])
		}
	}
	outRecs, outWms := 0, 0
	for _, m := range sink.Out {
		if m.Kind == vx.MsgRecord {
			outRecs++
		} else {
			outWms++
		}
	}
	zzverif.Assert(outRecs == nrec, "every-record-released-exactly-once-count")
	zzverif.Assert(outWms == nwm, "every-watermark-forwarded")

	// walk the output: ids are concrete, so every output record is matched with its input record
	seen := make([]int, len(s.msgs))
	unchanged, forwarded, monotone, notLate, ordered, beforeWatermark := true, true, true, true, true, true
	var wmSoFar []int64 // seconds of the watermarks emitted so far
	lastRecSec := int64(0)
	k := 0
	for _, m := range sink.Out {
		if m.Kind == vx.MsgWatermark {
			if k < len(inWm) {
				forwarded = zzverif.And(forwarded, m.Watermark.Unix() == inWm[k])
				if len(wmSoFar) > 0 {
					monotone = zzverif.And(monotone, wmSoFar[len(wmSoFar)-1] <= inWm[k])
				}
				wmSoFar = append(wmSoFar, inWm[k])
			}
			k++
			continue
		}
		id := int(m.Rec.Values[0].Int)
		if id < 0 || id >= len(s.msgs) || s.msgs[id].Kind != vx.MsgRecord {
			unchanged = false
			continue
		}
		seen[id]++
		in := s.msgs[id].Rec
		unchanged = zzverif.And(unchanged, zzverif.And(len(m.Rec.Values) == 2, vx.CellEq(m.Rec.Values[1], in.Values[1])))
		unchanged = zzverif.And(unchanged, m.Rec.Retraction == in.Retraction)
		unchanged = zzverif.And(unchanged, m.Rec.EventTime.Unix() == in.EventTime.Unix())
		sec := s.secs[id]
		hasTime := sec != 0
		for _, w := range wmSoFar {
			notLate = zzverif.And(notLate, zzverif.Implies(hasTime, sec > w))
		}
		// event-time order among the records that have an event time
		ordered = zzverif.And(ordered, zzverif.Implies(hasTime, lastRecSec <= sec))
		lastRecSec = zzverif.IteInt64(hasTime, sec, lastRecSec)
	}
	once := true
	for i, m := range s.msgs {
		if m.Kind == vx.MsgRecord {
			once = once && seen[i] == 1
		}
	}
	// released before the first watermark at or above its event time: at every emitted watermark W
	// (position p) every input record that arrived before that watermark with time <= W is out.
	k = 0
	emitted := make([]bool, len(s.msgs))
	for _, m := range sink.Out {
		if m.Kind == vx.MsgRecord {
			id := int(m.Rec.Values[0].Int)
			if id >= 0 && id < len(emitted) {
				emitted[id] = true
			}
			continue
		}
		// k-th watermark: find its input position
		pos, c := -1, 0
		for i, im := range s.msgs {
			if im.Kind == vx.MsgWatermark {
				if c == k {
					pos = i
				}
				c++
			}
		}
		for i := 0; i < pos; i++ {
			if s.msgs[i].Kind == vx.MsgRecord && !emitted[i] {
				beforeWatermark = zzverif.And(beforeWatermark, s.secs[i] > s.secs[pos])
			}
		}
		k++
	}
	zzverif.Assert(once, "every-record-released-exactly-once")
	zzverif.Assert(unchanged, "records-unchanged")
	zzverif.Assert(forwarded, "watermarks-forwarded-in-order")
	zzverif.Assert(monotone, "emitted-watermarks-non-decreasing")
	zzverif.Assert(notLate, "no-record-at-or-below-emitted-watermark")
	zzverif.Assert(ordered, "records-released-in-event-time-order")
	zzverif.Assert(beforeWatermark, "released-before-first-watermark-at-or-above-event-time")
}

// ---------- joins and group by: the two watermark assertions ----------

// checkWatermarkDiscipline: emitted watermarks non-decreasing; no emitted record with a non-zero
// event time at or below a watermark emitted before it. (Output event times are concrete or
// symbolic; the comparison forks at most once per record/watermark pair.)
func watermarkDiscipline(out []vx.Msg) (monotone, notLate bool) {
	monotone, notLate = true, true
	var wms []time.Time
	for _, m := range out {
		if m.Kind == vx.MsgWatermark {
			if len(wms) > 0 {
				monotone = zzverif.And(monotone, m.Watermark.Unix() >= wms[len(wms)-1].Unix())
			}
			wms = append(wms, m.Watermark)
			continue
		}
		zero := m.Rec.EventTime.Unix() == time.Time{}.Unix()
		for _, w := range wms {
			notLate = zzverif.And(notLate, zzverif.Or(zero, m.Rec.EventTime.Unix() > w.Unix()))
		}
	}
	return
}

// ndWatermarkedScript builds exactly L messages for one join input: each a record (symbolic
// Int|NULL key, concrete payload, event time 1..tch seconds after this input's current watermark)
// or a watermark advancing by 1..wj seconds. Monotone watermarks, no late record, by construction.
// (Private copy of the generator used by vx's C19 harness, so that the two can evolve separately.)
func ndWatermarkedScript(name string, L, tch, wj, payloadBase int) []vx.Msg {
	var out []vx.Msg
	w := int64(0)
	for i := 0; i < L; i++ {
		if zzverif.Choice(fmt.Sprintf("%s.m%d.kind", name, i), 2) == 0 {
			t := w + 1 + int64(zzverif.Choice(fmt.Sprintf("%s.m%d.dt", name, i), tch))
			key := vx.NDCell(fmt.Sprintf("%s.m%d.key", name, i))
			out = append(out, vx.Msg{Kind: vx.MsgRecord, Rec: execution.Record{
				Values:    []octosql.Value{key, octosql.NewInt(int64(payloadBase + i))},
				EventTime: time.Unix(t, 0),
			}})
		} else {
			w += 1 + int64(zzverif.Choice(fmt.Sprintf("%s.m%d.dw", name, i), wj))
			out = append(out, vx.Msg{Kind: vx.MsgWatermark, Watermark: time.Unix(w, 0)})
		}
	}
	return out
}

// VerifC18Join: two watermarked inputs (ndWatermarkedScript: monotone watermarks, no late
// records, symbolic Int|NULL keys) through StreamJoin / OuterJoin (KIND = vx.Join*), every
// receive order.
func VerifC18Join() {
	L, tch, kind := zzverif.Param("L"), zzverif.Param("TCH"), zzverif.Param("KIND")
	wj := zzverif.Param("WJ")
	left := ndWatermarkedScript("l", L, tch, wj, 0)
	right := ndWatermarkedScript("r", L, tch, wj, 100)
	if zzverif.Param("KEYMODE") == 0 {
		// all keys equal: every left record matches every right record (no forks on key comparisons)
		for _, sc := range [][]vx.Msg{left, right} {
			for i := range sc {
				if sc[i].Kind == vx.MsgRecord {
					sc[i].Rec.Values[0] = octosql.NewInt(0)
				}
			}
		}
	}
	ls, rs := vx.GateJoinInputs(vx.NewScriptSource(left), vx.NewScriptSource(right))
	node := vx.MakeJoin(kind, ls, rs, 1, 2, 2)
	sink := &vx.Sink{}
	err := vx.RunNode(node, sink)
	zzverif.Reach("ran")
	zzverif.Assert(err == nil, "no-error")
	monotone, notLate := watermarkDiscipline(sink.Out)
	zzverif.Assert(monotone, "emitted-watermarks-non-decreasing")
	// Known: when a partner arrives for a row that an outer join had already emitted null-padded,
	// the retraction of the null-padded row is stamped with that row's ORIGINAL event time, which
	// can lie at or below a watermark forwarded in between. Region: an outer side holds a record
	// whose matching partner on the other side has a later event time.
	outerLeft, outerRight := kind == vx.JoinLeft || kind == vx.JoinFull, kind == vx.JoinRight || kind == vx.JoinFull
	region := false
	for _, l := range left {
		for _, r := range right {
			if l.Kind != vx.MsgRecord || r.Kind != vx.MsgRecord {
				continue
			}
			m := vx.KeysMatch(l.Rec.Values, r.Rec.Values, 1)
			if outerLeft && r.Rec.EventTime.After(l.Rec.EventTime) {
				region = zzverif.Or(region, m)
			}
			if outerRight && l.Rec.EventTime.After(r.Rec.EventTime) {
				region = zzverif.Or(region, m)
			}
		}
	}
	zzverif.Known("C18-outerjoin-null-row-retraction-keeps-old-event-time", region)
	zzverif.Assert(notLate, "no-record-at-or-below-emitted-watermark")
}

// VerifC18GroupBy: CustomTriggerGroupBy grouping by the record's event time (key column 0 =
// Time(event time), keyEventTimeIndex 0) with count(*); TRIGGER 0 watermark trigger, 1 counting
// trigger (every record), 2 end-of-stream trigger, 3 counting trigger with keyEventTimeIndex -1,
// 4 counting trigger firing on every second record of a key, 5 counting trigger (every record) with
// ONE constant key and keyEventTimeIndex -1 (the same key fires repeatedly at different event
// times with watermarks in between: SELECT count(*) ... GROUP BY const TRIGGER COUNTING 1).
func VerifC18GroupBy() {
	s := ndTimedScript("s", zzverif.Param("L"), zzverif.Param("T"), false)
	for i := range s.msgs {
		if s.msgs[i].Kind == vx.MsgRecord {
			r := s.msgs[i].Rec
			// additions only: a retraction of an absent row is not a valid changelog
			s.msgs[i].Rec = execution.NewRecord([]octosql.Value{octosql.NewTime(r.EventTime), r.Values[1]}, false, r.EventTime)
		}
	}
	var trig func() execution.Trigger
	keyTimeIndex := 0
	switch zzverif.Param("TRIGGER") {
	case 0:
		trig = execution.NewWatermarkTriggerPrototype(0)
	case 1:
		trig = execution.NewCountingTriggerPrototype(1)
	case 2:
		trig = execution.NewEndOfStreamTriggerPrototype()
	case 3, 5:
		trig = execution.NewCountingTriggerPrototype(1)
		keyTimeIndex = -1
	default:
		trig = execution.NewCountingTriggerPrototype(2)
	}
	var keyExpr execution.Expression = execution.NewVariable(0, 0)
	if zzverif.Param("TRIGGER") == 5 {
		keyExpr = execution.NewConstant(octosql.NewInt(7))
	}
	node := nodes.NewCustomTriggerGroupBy(
		[]func() nodes.Aggregate{aggregates.NewCountPrototype()},
		[]execution.Expression{execution.NewConstant(octosql.NewBoolean(true))},
		[]execution.Expression{keyExpr},
		keyTimeIndex, vx.NewScriptSource(s.msgs), trig)
	sink := &vx.Sink{}
	err := vx.RunNode(node, sink)
	zzverif.Reach("ran")
	zzverif.Assert(err == nil, "no-error")
	monotone, notLate := watermarkDiscipline(sink.Out)
	zzverif.Assert(monotone, "emitted-watermarks-non-decreasing")
	// Known: a key that its trigger has not fired by the time a watermark at or above the key's
	// event time is forwarded (end-of-stream trigger, counting trigger below its threshold) is
	// emitted at end of stream stamped with the KEY's event time, i.e. at or below that watermark.
	region := false
	if tr := zzverif.Param("TRIGGER"); tr == 2 || tr == 4 {
		for i := range s.msgs {
			for j := i + 1; j < len(s.msgs); j++ {
				if s.msgs[i].Kind == vx.MsgRecord && s.msgs[j].Kind == vx.MsgWatermark {
					region = zzverif.Or(region, s.secs[j] >= s.secs[i])
				}
			}
		}
	}
	zzverif.Known("C18-groupby-unfired-key-emitted-at-key-event-time-after-watermark", region)
	zzverif.Assert(notLate, "no-record-at-or-below-emitted-watermark")
}
