package vnode

import (
	"fmt"
	"time"

	"github.com/cube2222/octosql/aggregates"
	"github.com/cube2222/octosql/execution"
	"github.com/cube2222/octosql/execution/nodes"
	"github.com/cube2222/octosql/octosql"
	"github.com/cube2222/octosql/zzverif"
	"github.com/cube2222/octosql/zzverif/vx"
)

// ndChangelogGen is vx.NDChangelog with a caller-supplied row generator; it also returns, for
// every event, the index of the addition it originates from (itself for additions).
func ndChangelogGen(name string, L int, fresh func(name string) []octosql.Value) ([]execution.Record, []int) {
	var out []execution.Record
	var origin []int
	var live []int
	for i := 0; i < L; i++ {
		k := zzverif.Choice(fmt.Sprintf("%s.e%d", name, i), 1+len(live))
		if k == 0 {
			out = append(out, execution.NewRecord(fresh(fmt.Sprintf("%s.e%d", name, i)), false, time.Time{}))
			live = append(live, len(out)-1)
			origin = append(origin, len(out)-1)
		} else {
			idx := live[k-1]
			live = append(live[:k-1:k-1], live[k:]...)
			vals := make([]octosql.Value, len(out[idx].Values))
			copy(vals, out[idx].Values)
			out = append(out, execution.NewRecord(vals, true, time.Time{}))
			origin = append(origin, idx)
		}
	}
	return out, origin
}

func sign(r execution.Record) int {
	if r.Retraction {
		return -1
	}
	return 1
}

// sameConsolidation: got and want consolidate to the same multiset (checked on every row that
// occurs in either).
func sameConsolidation(got, want []execution.Record) bool { return vx.SameMultiset(got, want) }

// ---------- Map ----------

// VerifC15Map: Map with projection list SHAPE 0: [c1] (not injective: distinct input rows merge),
// SHAPE 1: [c1, c0], SHAPE 2: [c0, c0, constant 7].
func VerifC15Map() {
	in := vx.NDChangelog("in", zzverif.Param("L"), 2)
	shape := zzverif.Choice("shape", 3)
	var exprs []execution.Expression
	var f func(v []octosql.Value) []octosql.Value
	switch shape {
	case 0:
		exprs = []execution.Expression{execution.NewVariable(0, 1)}
		f = func(v []octosql.Value) []octosql.Value { return []octosql.Value{v[1]} }
	case 1:
		exprs = []execution.Expression{execution.NewVariable(0, 1), execution.NewVariable(0, 0)}
		f = func(v []octosql.Value) []octosql.Value { return []octosql.Value{v[1], v[0]} }
	default:
		exprs = []execution.Expression{execution.NewVariable(0, 0), execution.NewVariable(0, 0), execution.NewConstant(octosql.NewInt(7))}
		f = func(v []octosql.Value) []octosql.Value { return []octosql.Value{v[0], v[0], octosql.NewInt(7)} }
	}
	sink := &vx.Sink{}
	err := vx.RunNode(nodes.NewMap(vx.NewScriptSource(vx.RecordsToMsgs(in)), exprs), sink)
	zzverif.Reach("ran")
	zzverif.Assert(err == nil, "no-error")
	out := sink.Records()
	want := make([]execution.Record, len(in))
	for i, r := range in {
		want[i] = execution.NewRecord(f(r.Values), r.Retraction, time.Time{})
	}
	zzverif.Assert(sameConsolidation(out, want), "consolidated-output-is-map-of-consolidated-input")
	zzverif.Assert(vx.ValidChangelog(out), "output-changelog-valid")
}

// ---------- Unnest ----------

// VerifC15Unnest: rows [Int|NULL, List of 0..M Int|NULL]; reference = flattened changelog.
func VerifC15Unnest() {
	m := zzverif.Param("M")
	in, _ := ndChangelogGen("in", zzverif.Param("L"), func(name string) []octosql.Value {
		n := zzverif.Choice(name+".listlen", m+1)
		elems := make([]octosql.Value, n)
		for j := range elems {
			elems[j] = vx.NDCell(fmt.Sprintf("%s.l%d", name, j))
		}
		return []octosql.Value{vx.NDCell(name + ".a"), octosql.NewList(elems)}
	})
	sink := &vx.Sink{}
	err := vx.RunNode(nodes.NewUnnest(vx.NewScriptSource(vx.RecordsToMsgs(in)), 1), sink)
	zzverif.Reach("ran")
	zzverif.Assert(err == nil, "no-error")
	out := sink.Records()
	var want []execution.Record
	for _, r := range in {
		for _, e := range r.Values[1].List {
			want = append(want, execution.NewRecord([]octosql.Value{r.Values[0], e}, r.Retraction, time.Time{}))
		}
	}
	zzverif.Assert(len(out) == len(want), "one-output-per-list-element")
	zzverif.Assert(sameConsolidation(out, want), "consolidated-output-is-unnest-of-consolidated-input")
	zzverif.Assert(vx.ValidChangelog(out), "output-changelog-valid")
}

// ---------- ORDER BY without limit ----------

// VerifC15OrderBy: OrderSensitiveTransform (no limit) over a changelog: emits exactly the
// consolidated input, as additions, sorted by the key.
func VerifC15OrderBy() {
	in := vx.NDChangelog("in", zzverif.Param("L"), 2)
	nkeys := zzverif.Param("KEYS")
	keys := make([]int, nkeys)
	dirs := make([]int, nkeys)
	keyExprs := make([]execution.Expression, nkeys)
	for i := range keys {
		keys[i] = i % 2
		dirs[i] = 1 - 2*zzverif.Choice("desc", 2)
		keyExprs[i] = execution.NewVariable(0, keys[i])
	}
	sink := &vx.Sink{}
	err := vx.RunNode(nodes.NewOrderSensitiveTransform(vx.NewScriptSource(vx.RecordsToMsgs(in)), keyExprs, dirs, nil, false), sink)
	zzverif.Reach("ran")
	zzverif.Assert(err == nil, "no-error")
	out := sink.Records()
	zzverif.Assert(sameConsolidation(out, in), "consolidated-output-is-consolidated-input")
	zzverif.Assert(vx.ValidChangelog(out), "output-changelog-valid")
	sorted := true
	for i := 0; i+1 < len(out); i++ {
		sorted = zzverif.And(sorted, keyLessEq(out[i].Values, out[i+1].Values, keys, dirs))
	}
	zzverif.Assert(sorted, "output-sorted-by-key")
}

// ---------- EventTimeBuffer ----------

// VerifC15EventTimeBuffer: a changelog whose records carry zero or non-zero event times (a
// retraction never carries an earlier event time than the addition it retracts) interleaved with
// monotone watermarks.
func VerifC15EventTimeBuffer() {
	L := zzverif.Param("L")
	in, origin := ndChangelogGen("in", L, func(name string) []octosql.Value { return vx.NDRow(name, 1) })
	secs := make([]int64, len(in))
	for i := range in {
		if zzverif.Choice(fmt.Sprintf("in.e%d.hastime", i), 2) == 1 {
			in[i].EventTime, secs[i] = secTime(fmt.Sprintf("in.e%d.t", i), zzverif.Param("T"))
		}
		if in[i].Retraction && zzverif.Param("RT") == 1 {
			// RT=1: a retraction never carries an earlier event time than its addition
			zzverif.Assume(secs[i] >= secs[origin[i]])
		}
	}
	// watermarks: after each record optionally one watermark, monotone
	var msgs []vx.Msg
	lastW := int64(0)
	for i := range in {
		msgs = append(msgs, vx.Msg{Kind: vx.MsgRecord, Rec: in[i]})
		if zzverif.Choice(fmt.Sprintf("wm%d", i), 2) == 1 {
			w, sec := secTime(fmt.Sprintf("wm%d.t", i), zzverif.Param("T"))
			zzverif.Assume(sec >= lastW)
			lastW = sec
			msgs = append(msgs, vx.Msg{Kind: vx.MsgWatermark, Watermark: w})
		}
	}
	sink := &vx.Sink{}
	err := vx.RunNode(nodes.NewEventTimeBuffer(vx.NewScriptSource(msgs)), sink)
	zzverif.Reach("ran")
	zzverif.Assert(err == nil, "no-error")
	out := sink.Records()
	zzverif.Assert(len(out) == len(in), "every-record-released")
	zzverif.Assert(sameConsolidation(out, in), "consolidated-output-is-consolidated-input")
	zzverif.Assert(vx.ValidChangelog(out), "output-changelog-valid")
}

// ---------- LookupJoin ----------

func intEq(vals []octosql.Value) (octosql.Value, error) {
	return octosql.NewBoolean(vals[0].Int == vals[1].Int), nil
}

// VerifC15LookupJoin: source changelog (1 column) looked up in a joined stream
// Filter(script, joined.c0 = source.c0); JRETR=1: the joined stream is itself a changelog.
func VerifC15LookupJoin() {
	src := vx.NDChangelog("s", zzverif.Param("L"), 1)
	var joined []execution.Record
	if zzverif.Param("JRETR") == 1 {
		joined = vx.NDChangelog("j", zzverif.Param("LJ"), 2)
	} else {
		joined = recs(vx.NDTable("j", zzverif.Param("LJ"), 2))
	}
	pred := execution.NewFunctionCall(intEq, []execution.Expression{execution.NewVariable(0, 0), execution.NewVariable(1, 0)}, []int{0, 1})
	node := nodes.NewLookupJoin(vx.NewScriptSource(vx.RecordsToMsgs(src)),
		nodes.NewFilter(vx.NewScriptSource(vx.RecordsToMsgs(joined)), pred))
	sink := &vx.Sink{}
	err := vx.RunNode(node, sink)
	zzverif.Reach("ran")
	zzverif.Assert(err == nil, "no-error")
	out := sink.Records()

	match := func(s, j execution.Record) bool {
		return zzverif.And(s.Values[0].TypeID == octosql.TypeIDInt, zzverif.And(j.Values[0].TypeID == octosql.TypeIDInt, s.Values[0].Int == j.Values[0].Int))
	}
	refCount := func(x []octosql.Value) int {
		c := 0
		for _, s := range src {
			for _, j := range joined {
				row := append(append([]octosql.Value{}, s.Values...), j.Values...)
				c += zzverif.IteInt(zzverif.And(match(s, j), vx.RowEq(row, x)), sign(s)*sign(j), 0)
			}
		}
		return c
	}
	ok := true
	for _, s := range src {
		for _, j := range joined {
			row := append(append([]octosql.Value{}, s.Values...), j.Values...)
			ok = zzverif.And(ok, vx.Count(out, row) == refCount(row))
		}
	}
	for _, o := range out {
		ok = zzverif.And(ok, vx.Count(out, o.Values) == refCount(o.Values))
	}
	zzverif.Assert(ok, "consolidated-output-is-join-of-consolidated-inputs")
	// Known: for a RETRACTED source record the joined stream is replayed in its original order with
	// flipped signs, so a joined "+j, -j" becomes "-sj, +sj": the output retracts an absent row.
	flipped := false
	for _, s := range src {
		for _, j := range joined {
			flipped = zzverif.Or(flipped, zzverif.And(zzverif.And(s.Retraction, j.Retraction), match(s, j)))
		}
	}
	zzverif.Known("C15-lookupjoin-retraction-replays-joined-changelog-in-order", flipped)
	zzverif.Assert(vx.ValidChangelog(out), "output-changelog-valid")
}

// ---------- StreamJoin / OuterJoin ----------

// VerifC15Join: KIND 0 StreamJoin, 1 left, 2 right, 3 full OuterJoin (vx.Join*) of two changelogs
// (retractions on both sides) on column 0, every receive order. Reference: vx.RefJoinCount (SQL
// key equality, NULL keys match nothing; outer sides pad rows without consolidated partner).
func VerifC15Join() {
	cols := zzverif.Param("COLS")
	kind := zzverif.Param("KIND")
	left := vx.NDChangelog("l", zzverif.Param("LL"), cols)
	right := vx.NDChangelog("r", zzverif.Param("LR"), cols)
	ls, rs := vx.GateJoinInputs(vx.NewScriptSource(vx.RecordsToMsgs(left)), vx.NewScriptSource(vx.RecordsToMsgs(right)))
	node := vx.MakeJoin(kind, ls, rs, 1, cols, cols)
	sink := &vx.Sink{}
	err := vx.RunNode(node, sink)
	zzverif.Reach("ran")
	zzverif.Assert(err == nil, "no-error")
	out := sink.Records()
	ok := true
	for _, x := range vx.JoinCandidates(left, right, out, cols, cols) {
		ok = zzverif.And(ok, vx.Count(out, x) == vx.RefJoinCount(kind, left, right, 1, cols, cols, x))
	}
	zzverif.Assert(ok, "consolidated-output-is-join-of-consolidated-inputs")
	zzverif.Assert(vx.ValidChangelog(out), "output-changelog-valid")
}

// ---------- SimpleGroupBy with count ----------

// VerifC15SimpleGroupBy: GROUP BY c0 with count(c1) (count skips NULL inputs and yields NULL when
// no non-NULL input remains) over a changelog.
func VerifC15SimpleGroupBy() {
	in := vx.NDChangelog("in", zzverif.Param("L"), 2)
	node := nodes.NewSimpleGroupBy(
		[]func() nodes.Aggregate{aggregates.NewCountPrototype()},
		[]execution.Expression{execution.NewVariable(0, 1)},
		[]execution.Expression{execution.NewVariable(0, 0)},
		vx.NewScriptSource(vx.RecordsToMsgs(in)))
	sink := &vx.Sink{}
	err := vx.RunNode(node, sink)
	zzverif.Reach("ran")
	zzverif.Assert(err == nil, "no-error")
	out := sink.Records()

	groupSize := func(k octosql.Value) int {
		c := 0
		for _, r := range in {
			c += zzverif.IteInt(vx.CellEq(r.Values[0], k), sign(r), 0)
		}
		return c
	}
	nonNull := func(k octosql.Value) int {
		c := 0
		for _, r := range in {
			c += zzverif.IteInt(zzverif.And(vx.CellEq(r.Values[0], k), r.Values[1].TypeID != octosql.TypeIDNull), sign(r), 0)
		}
		return c
	}
	refRow := func(k octosql.Value) []octosql.Value {
		n := nonNull(k)
		return []octosql.Value{k, {
			TypeID: octosql.TypeID(zzverif.IteInt(n > 0, int(octosql.TypeIDInt), int(octosql.TypeIDNull))),
			Int:    zzverif.IteInt64(n > 0, int64(n), 0),
		}}
	}
	ok := true
	for _, r := range in {
		k := r.Values[0]
		ok = zzverif.And(ok, vx.Count(out, refRow(k)) == zzverif.IteInt(groupSize(k) > 0, 1, 0))
	}
	for _, o := range out {
		k := o.Values[0]
		isRef := zzverif.And(groupSize(k) > 0, vx.RowEq(o.Values, refRow(k)))
		ok = zzverif.And(ok, vx.Count(out, o.Values) == zzverif.IteInt(isRef, 1, 0))
	}
	zzverif.Assert(ok, "consolidated-output-is-group-by-of-consolidated-input")
	zzverif.Assert(vx.ValidChangelog(out), "output-changelog-valid")
}
