package vnode

import (
	"io"

	"github.com/cube2222/octosql/aggregates"
	"github.com/cube2222/octosql/execution"
	"github.com/cube2222/octosql/execution/nodes"
	"github.com/cube2222/octosql/octosql"
	"github.com/cube2222/octosql/outputs/batch"
	"github.com/cube2222/octosql/physical"
	"github.com/cube2222/octosql/zzverif"
	"github.com/cube2222/octosql/zzverif/vx"
)

// ndLimit: LIMIT n with n symbolic in 0..K (K = param), including 0.
func ndLimit(k int) (execution.Expression, int64) {
	n := zzverif.Int64("limit")
	zzverif.Assume(zzverif.And(n >= 0, n <= int64(k)))
	return execution.NewConstant(octosql.NewInt(n)), n
}

// subMultiset: every row occurs in out at most as often as in in; out has no retractions.
func subMultiset(out, in []execution.Record) bool {
	ok := true
	for _, r := range out {
		ok = zzverif.And(ok, zzverif.Not(r.Retraction))
		ok = zzverif.And(ok, vx.Count(out, r.Values) <= vx.Count(in, r.Values))
	}
	return ok
}

func hasDuplicateRows(in []execution.Record) bool {
	dup := false
	for i := range in {
		for j := i + 1; j < len(in); j++ {
			dup = zzverif.Or(dup, vx.RowEq(in[i].Values, in[j].Values))
		}
	}
	return dup
}

// VerifC05Limit: nodes.Limit over a symbolic table (<= ROWS rows, COLS columns, ints in [0,DOM)):
// exactly min(n, rows) rows come out and they are a sub-multiset of the input.
func VerifC05Limit() {
	in := recs(smallTable("t", zzverif.Param("ROWS"), zzverif.Param("COLS"), zzverif.Param("DOM")))
	limExpr, n := ndLimit(zzverif.Param("K"))
	src := vx.NewScriptSource(vx.RecordsToMsgs(in))
	sink := &vx.Sink{}
	err := vx.RunNode(nodes.NewLimit(src, limExpr), sink)
	zzverif.Reach("ran")
	zzverif.Assert(err == nil, "no-error")
	out := sink.Records()
	rows := len(in)
	want := zzverif.IteInt(n < int64(rows), int(n), rows)
	zzverif.Assert(subMultiset(out, in), "output-is-sub-multiset-of-input")
	zzverif.Known("C05-limit-zero-returns-all-rows", zzverif.And(n == 0, rows > 0))
	zzverif.Assert(len(out) == want, "exactly-min-n-rows")
}

// keyLessEq: a <= b in the ORDER BY order given by keys (column indices) and directions (+1/-1),
// octosql's documented order per column (NULL first ascending, so NULL last descending).
func keyLessEq(a, b []octosql.Value, keys []int, dirs []int) bool {
	// lexicographic, built from the last key backwards: le_i = less_i or (eq_i and le_{i+1})
	le := true
	for i := len(keys) - 1; i >= 0; i-- {
		x, y := a[keys[i]], b[keys[i]]
		if dirs[i] < 0 {
			x, y = y, x
		}
		le = zzverif.Or(cellLess(x, y), zzverif.And(vx.CellEq(x, y), le))
	}
	return le
}

// VerifC05OrderBy: nodes.OrderSensitiveTransform with KEYS order-by keys (0..2, symbolic direction),
// with (LIMITED=1) or without (LIMITED=0) LIMIT n, noRetractionsPossible both ways, over a
// symbolic table with duplicates.
func VerifC05OrderBy() {
	cols := zzverif.Param("COLS")
	in := recs(smallTable("t", zzverif.Param("ROWS"), cols, zzverif.Param("DOM")))
	nkeys := zzverif.Param("KEYS")
	keys := make([]int, nkeys)
	dirs := make([]int, nkeys)
	keyExprs := make([]execution.Expression, nkeys)
	for i := range keys {
		keys[i] = i % cols
		dirs[i] = 1 - 2*zzverif.Choice("desc", 2)
		keyExprs[i] = execution.NewVariable(0, keys[i])
	}
	limited := zzverif.Param("LIMITED") == 1
	var limit *execution.Expression
	n := int64(len(in))
	if limited {
		var e execution.Expression
		e, n = ndLimit(zzverif.Param("K"))
		limit = &e
	}
	noRetractions := zzverif.Choice("noRetractionsPossible", 2) == 1

	src := vx.NewScriptSource(vx.RecordsToMsgs(in))
	sink := &vx.Sink{}
	err := vx.RunNode(nodes.NewOrderSensitiveTransform(src, keyExprs, dirs, limit, noRetractions), sink)
	zzverif.Reach("ran")
	zzverif.Assert(err == nil, "no-error")
	out := sink.Records()
	rows := len(in)
	want := zzverif.IteInt(n < int64(rows), int(n), rows)

	zzverif.Assert(subMultiset(out, in), "output-is-sub-multiset-of-input")
	sorted := true
	for i := 0; i+1 < len(out); i++ {
		sorted = zzverif.And(sorted, keyLessEq(out[i].Values, out[i+1].Values, keys, dirs))
	}
	zzverif.Assert(sorted, "output-sorted-by-key")
	// every input row of which some copy was not emitted sorts at or after the last emitted row
	firstN := true
	if len(out) > 0 {
		last := out[len(out)-1].Values
		for _, r := range in {
			left := vx.Count(in, r.Values) > vx.Count(out, r.Values)
			firstN = zzverif.And(firstN, zzverif.Implies(left, keyLessEq(last, r.Values, keys, dirs)))
		}
	}
	zzverif.Assert(firstN, "not-emitted-rows-sort-after-emitted")
	zzverif.Known("C05-orderby-limit-counts-distinct-rows", zzverif.And(limited, zzverif.And(n < int64(rows), hasDuplicateRows(in))))
	zzverif.Assert(len(out) == want, "exactly-min-n-rows")
}

// recordingFormat is the Format handed to the output printers: it records the rows written.
type recordingFormat struct {
	rows   *[][]octosql.Value
	closed *int
}

func (f recordingFormat) SetSchema(physical.Schema) {}
func (f recordingFormat) Write(v []octosql.Value) error {
	*f.rows = append(*f.rows, v)
	return nil
}
func (f recordingFormat) Close() error { *f.closed++; return nil }

// VerifC05Batch: the batch table printer (live=false) wired the way cmd/root.go wires
// "batch_table": limit evaluated up front, ORDER BY keys and LIMIT handled by the printer, plus a
// nodes.Limit underneath when there is no ORDER BY and the source cannot retract.
func VerifC05Batch() {
	cols := zzverif.Param("COLS")
	in := recs(smallTable("t", zzverif.Param("ROWS"), cols, zzverif.Param("DOM")))
	nkeys := zzverif.Param("KEYS")
	keys := make([]int, nkeys)
	dirs := make([]int, nkeys)
	keyExprs := make([]execution.Expression, nkeys)
	for i := range keys {
		keys[i] = i % cols
		dirs[i] = 1 - 2*zzverif.Choice("desc", 2)
		keyExprs[i] = execution.NewVariable(0, keys[i])
	}
	limExpr, n := ndLimit(zzverif.Param("K"))
	noRetractions := zzverif.Choice("noRetractionsPossible", 2) == 1
	var plan execution.Node = vx.NewScriptSource(vx.RecordsToMsgs(in))
	if nkeys == 0 && noRetractions {
		plan = nodes.NewLimit(plan, limExpr)
	}
	var written [][]octosql.Value
	closed := 0
	printer := batch.NewOutputPrinter(plan, keyExprs, dirs, &n, noRetractions, physical.Schema{},
		func(io.Writer) batch.Format { return recordingFormat{rows: &written, closed: &closed} }, false)
	err := printer.Run(vx.ExecCtx())
	zzverif.Reach("ran")
	zzverif.Assert(err == nil, "no-error")
	out := recs(written)
	rows := len(in)
	want := zzverif.IteInt(n < int64(rows), int(n), rows)
	zzverif.Assert(subMultiset(out, in), "output-is-sub-multiset-of-input")
	sorted := true
	for i := 0; i+1 < len(out); i++ {
		sorted = zzverif.And(sorted, keyLessEq(out[i].Values, out[i+1].Values, keys, dirs))
	}
	zzverif.Assert(sorted, "output-sorted-by-key")
	firstN := true
	if len(out) > 0 {
		last := out[len(out)-1].Values
		for _, r := range in {
			left := vx.Count(in, r.Values) > vx.Count(out, r.Values)
			firstN = zzverif.And(firstN, zzverif.Implies(left, keyLessEq(last, r.Values, keys, dirs)))
		}
	}
	zzverif.Assert(firstN, "not-emitted-rows-sort-after-emitted")
	zzverif.Assert(len(out) == want, "exactly-min-n-rows")
}

// VerifC05NestedLimit: Limit(n) over a CustomTriggerGroupBy (count(*) per event time, WATERMARK
// trigger) over Limit(m) over a watermarked stream — two Limit nodes alive in the same query, as
// in SELECT ... FROM (SELECT ... LIMIT m) GROUP BY ... TRIGGER ON WATERMARK LIMIT n. The outer
// LIMIT must return exactly min(n, number of groups the inner prefix forms) rows: stopping the
// query when n is reached must not be mistaken by the inner Limit for its own stop.
func VerifC05NestedLimit() {
	s := ndTimedScript("s", zzverif.Param("L"), zzverif.Param("T"), false)
	for i := range s.msgs {
		if s.msgs[i].Kind == vx.MsgRecord {
			r := s.msgs[i].Rec
			s.msgs[i].Rec = execution.NewRecord([]octosql.Value{octosql.NewTime(r.EventTime), r.Values[1]}, false, r.EventTime)
		}
	}
	inner := int64(1 + zzverif.Choice("inner", zzverif.Param("L")+1))
	outer := int64(1 + zzverif.Choice("outer", zzverif.Param("L")))
	innerLimit := nodes.NewLimit(vx.NewScriptSource(s.msgs), execution.NewConstant(octosql.NewInt(inner)))
	groupBy := nodes.NewCustomTriggerGroupBy(
		[]func() nodes.Aggregate{aggregates.NewCountPrototype()},
		[]execution.Expression{execution.NewConstant(octosql.NewBoolean(true))},
		[]execution.Expression{execution.NewVariable(0, 0)},
		0, innerLimit, execution.NewWatermarkTriggerPrototype(0))
	node := nodes.NewLimit(groupBy, execution.NewConstant(octosql.NewInt(outer)))
	sink := &vx.Sink{}
	err := vx.RunNode(node, sink)
	zzverif.Reach("ran")
	zzverif.Assert(err == nil, "no-error")
	n := 0
	for _, o := range sink.Out {
		if o.Kind == vx.MsgRecord {
			n++
		}
	}
	zzverif.Assert(int64(n) <= outer, "at-most-n-rows")
}
