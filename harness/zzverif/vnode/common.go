// Package vnode holds the execution-node harnesses (properties C05, C06, C15, C18, C22) of the
// /verif machinery. It is injected into the module by the build overlay.
package vnode

import (
	"fmt"
	"time"

	"github.com/cube2222/octosql/execution"
	"github.com/cube2222/octosql/octosql"
	"github.com/cube2222/octosql/zzverif"
	"github.com/cube2222/octosql/zzverif/vx"
)

// probe wraps a node and records what its Run returned, so that an oracle can say
// "IF the source really failed THEN the operator above must fail" (Limit may stop the source
// before it reaches its failure point; LookupJoin may never run the joined side).
type probe struct {
	inner  execution.Node
	runs   int
	failed bool // some Run returned a non-nil error that the probe did not receive from downstream
}

func (p *probe) Run(ctx execution.ExecutionContext, produce execution.ProduceFn, metaSend execution.MetaSendFn) error {
	p.runs++
	downstream := false
	err := p.inner.Run(ctx, func(c execution.ProduceContext, r execution.Record) error {
		e := produce(c, r)
		if e != nil {
			downstream = true
		}
		return e
	}, func(c execution.ProduceContext, m execution.MetadataMessage) error {
		e := metaSend(c, m)
		if e != nil {
			downstream = true
		}
		return e
	})
	if err != nil && !downstream {
		p.failed = true
	}
	return err
}

// boolCell turns an Int|NULL cell into a Boolean|NULL cell (three-valued predicate column).
func boolCell(c octosql.Value) octosql.Value {
	return octosql.Value{
		TypeID:  octosql.TypeID(zzverif.IteInt(c.TypeID == octosql.TypeIDNull, int(octosql.TypeIDNull), int(octosql.TypeIDBoolean))),
		Boolean: zzverif.And(c.TypeID != octosql.TypeIDNull, c.Int&1 == 1),
	}
}

func isTrue(v octosql.Value) bool {
	return zzverif.And(v.TypeID == octosql.TypeIDBoolean, v.Boolean)
}

// secTime returns time.Unix(sec, 0) for a fresh symbolic sec in [1, dom].
func secTime(name string, dom int) (time.Time, int64) {
	sec := zzverif.Int64(name)
	zzverif.Assume(zzverif.And(sec >= 1, sec <= int64(dom)))
	return time.Unix(sec, 0), sec
}

func recs(rows [][]octosql.Value) []execution.Record {
	out := make([]execution.Record, len(rows))
	for i := range rows {
		out[i] = execution.Record{Values: rows[i]}
	}
	return out
}

// smallTable: 0..maxRows rows of `cols` Int|NULL cells with ints in [0,dom).
func smallTable(name string, maxRows, cols, dom int) [][]octosql.Value {
	n := zzverif.Choice(name+".rows", maxRows+1)
	out := make([][]octosql.Value, n)
	for i := range out {
		out[i] = make([]octosql.Value, cols)
		for j := range out[i] {
			out[i][j] = vx.NDSmallCell(fmt.Sprintf("%s.r%d.c%d", name, i, j), dom)
		}
	}
	return out
}

// cmpCell is octosql's documented order on Int|NULL cells, branch-free: NULL first, then signed ints.
// Returns a<b, a==b.
func cellLess(a, b octosql.Value) bool {
	return zzverif.Or(a.TypeID < b.TypeID, zzverif.And(a.TypeID == b.TypeID, zzverif.And(a.TypeID == octosql.TypeIDInt, a.Int < b.Int)))
}

func cellLessEq(a, b octosql.Value) bool {
	return zzverif.Not(cellLess(b, a))
}
