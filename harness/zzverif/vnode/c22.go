package vnode

import (
	"fmt"

	"github.com/cube2222/octosql/execution"
	"github.com/cube2222/octosql/octosql"
	"github.com/cube2222/octosql/outputs/stream"
	"github.com/cube2222/octosql/zzverif"
	"github.com/cube2222/octosql/zzverif/vx"
)

// VerifC22Wrapper: stream.InternallyConsistentOutputStreamWrapper over a valid changelog of L
// records (one Int|NULL column from a domain of DOM values, so duplicates arise; retractions of
// live rows) with arbitrary (out-of-order, possibly zero when ZERO=1) event times in [1,T] and
// an optional watermark after every record (monotone).
func VerifC22Wrapper() {
	L, T, dom := zzverif.Param("L"), zzverif.Param("T"), zzverif.Param("DOM")
	in, _ := ndChangelogGen("in", L, func(name string) []octosql.Value {
		return []octosql.Value{vx.NDSmallCell(name+".c0", dom)}
	})
	secs := make([]int64, len(in)) // event time of record i in seconds (0 = no event time)
	for i := range in {
		if zzverif.Param("ZERO") == 0 || zzverif.Choice(fmt.Sprintf("in.e%d.hastime", i), 2) == 1 {
			in[i].EventTime, secs[i] = secTime(fmt.Sprintf("in.e%d.t", i), T)
		}
	}
	var msgs []vx.Msg
	var wmAfter []int // wmAfter[k] = number of records delivered before the k-th watermark
	var wmSec []int64 // its value in seconds
	lastW := int64(0)
	for i := range in {
		msgs = append(msgs, vx.Msg{Kind: vx.MsgRecord, Rec: in[i]})
		if zzverif.Choice(fmt.Sprintf("wm%d", i), 2) == 1 {
			w, sec := secTime(fmt.Sprintf("wm%d.t", i), T)
			zzverif.Assume(sec >= lastW)
			lastW = sec
			msgs = append(msgs, vx.Msg{Kind: vx.MsgWatermark, Watermark: w})
			wmAfter = append(wmAfter, i+1)
			wmSec = append(wmSec, sec)
		}
	}
	node := &stream.InternallyConsistentOutputStreamWrapper{Source: vx.NewScriptSource(msgs)}
	sink := &vx.Sink{}
	err := vx.RunNode(node, sink)
	zzverif.Reach("ran")
	zzverif.Assert(err == nil, "no-error")

	// ---- regions of the recorded findings (predicates over the input only) ----
	// (a) some record is still pending (event time above the watermark) when a watermark arrives:
	//     `make([]Record, n)` + append leaves n zero records in front of the kept ones.
	pendingAtWatermark := false
	for k := range wmSec {
		for i := 0; i < wmAfter[k]; i++ {
			pendingAtWatermark = zzverif.Or(pendingAtWatermark, secs[i] > wmSec[k])
		}
	}
	// (b) two additions of one row are followed by a retraction of that row: the search for a
	//     matching retraction does not skip retractions that are already crossed out.
	// (c) an addition is followed by a retraction of the same row and a watermark W with
	//     addition time <= W < retraction time arrives while both are pending: the search does not
	//     look at the retraction's event time either, so it cancels the addition (and is kept).
	reusedRetraction, lateRetraction := false, false
	for i := range in {
		for j := i + 1; j < len(in); j++ {
			if in[i].Retraction || !in[j].Retraction {
				continue
			}
			same := vx.RowEq(in[i].Values, in[j].Values)
			for k := range wmSec {
				if wmAfter[k] > j { // the watermark arrives when both are pending
					lateRetraction = zzverif.Or(lateRetraction, zzverif.And(same, zzverif.And(secs[i] <= wmSec[k], wmSec[k] < secs[j])))
				}
			}
			for i2 := i + 1; i2 < j; i2++ {
				if !in[i2].Retraction {
					reusedRetraction = zzverif.Or(reusedRetraction, zzverif.And(same, vx.RowEq(in[i].Values, in[i2].Values)))
				}
			}
		}
	}

	// ---- oracle ----
	var outRecs []execution.Record
	k := 0
	forwarded, settled, genuine := true, true, true
	refCountUpTo := func(x []octosql.Value, n int, w int64, all bool) int {
		c := 0
		for i := 0; i < n; i++ {
			c += zzverif.IteInt(zzverif.And(zzverif.Or(all, secs[i] <= w), vx.RowEq(in[i].Values, x)), sign(in[i]), 0)
		}
		return c
	}
	check := func(n int, w int64, all bool) bool {
		ok := true
		for i := 0; i < n; i++ {
			ok = zzverif.And(ok, vx.Count(outRecs, in[i].Values) == refCountUpTo(in[i].Values, n, w, all))
		}
		for _, o := range outRecs {
			ok = zzverif.And(ok, vx.Count(outRecs, o.Values) == refCountUpTo(o.Values, n, w, all))
		}
		return ok
	}
	for _, m := range sink.Out {
		if m.Kind == vx.MsgRecord {
			outRecs = append(outRecs, m.Rec)
			// every emitted record is an input record (same values, sign and event time)
			isInput := false
			for i := range in {
				isInput = zzverif.Or(isInput, zzverif.And(vx.RowEq(in[i].Values, m.Rec.Values),
					zzverif.And(in[i].Retraction == m.Rec.Retraction, in[i].EventTime.Unix() == m.Rec.EventTime.Unix())))
			}
			genuine = zzverif.And(genuine, isInput)
			continue
		}
		if k >= len(wmSec) {
			forwarded = false
			continue
		}
		forwarded = zzverif.And(forwarded, m.Watermark.Unix() == wmSec[k])
		settled = zzverif.And(settled, check(wmAfter[k], wmSec[k], false))
		k++
	}
	zzverif.Assert(zzverif.And(forwarded, k == len(wmSec)), "every-watermark-forwarded-in-order")
	complete := check(len(in), 0, true)

	if zzverif.Param("KNOWN") == 1 {
		zzverif.Known("C22-wrapper-kept-pending-prefixed-with-zero-records", pendingAtWatermark)
		zzverif.Known("C22-wrapper-retraction-cancels-two-additions", reusedRetraction)
		zzverif.Known("C22-wrapper-retraction-beyond-watermark-cancels-addition", lateRetraction)
	}
	zzverif.Assert(genuine, "every-emitted-record-is-an-input-record")
	zzverif.Assert(settled, "at-watermark-emitted-equals-input-up-to-watermark")
	zzverif.Assert(complete, "at-end-everything-emitted")
}
