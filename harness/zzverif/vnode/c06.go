package vnode

import (
	"errors"
	"fmt"
	"time"

	"github.com/cube2222/octosql/aggregates"
	"github.com/cube2222/octosql/execution"
	"github.com/cube2222/octosql/execution/nodes"
	"github.com/cube2222/octosql/functions"
	"github.com/cube2222/octosql/octosql"
	"github.com/cube2222/octosql/outputs/stream"
	"github.com/cube2222/octosql/zzverif"
	"github.com/cube2222/octosql/zzverif/vx"
)

// Operator kinds of VerifC06 (param KIND; KIND < 0 = fork over all of them).
const (
	opFilter = iota
	opMap
	opDistinct
	opOrderBy
	opLimit
	opUnnest
	opEventTimeBuffer
	opSimpleGroupBy
	opCustomTriggerGroupBy
	opStreamJoinLeft
	opStreamJoinRight
	opOuterJoinLeft
	opOuterJoinRight
	opLookupJoinSource
	opLookupJoinJoined
	opSingleColumnQuery
	opMultiColumnQuery
	opConsistencyWrapper
	opOrderByLimit
	opKinds
)

var errInjected = errors.New("injected source failure")

// c06Rows: N rows [Int|NULL, Boolean|NULL, List of 0..1 Int|NULL]; symbolic event time (zero or not).
// Lists vary in length only when varyList (Unnest), event times are non-zero only when varyTime
// (operators that look at event times) - the other operators never inspect them.
func c06Rows(name string, n int, varyList, varyTime bool) []vx.Msg {
	out := make([]vx.Msg, n)
	for i := range out {
		a := vx.NDCell(fmt.Sprintf("%s.%d.a", name, i))
		b := boolCell(vx.NDCell(fmt.Sprintf("%s.%d.b", name, i)))
		ln := 1
		if varyList {
			ln = zzverif.Choice(fmt.Sprintf("%s.%d.listlen", name, i), 3)
		}
		elems := make([]octosql.Value, ln)
		for j := range elems {
			elems[j] = vx.NDCell(fmt.Sprintf("%s.%d.l%d", name, i, j))
		}
		var et time.Time
		if varyTime && zzverif.Choice(fmt.Sprintf("%s.%d.hastime", name, i), 2) == 1 {
			et, _ = secTime(fmt.Sprintf("%s.%d.t", name, i), 3)
		}
		out[i] = vx.Msg{Kind: vx.MsgRecord, Rec: execution.NewRecord([]octosql.Value{a, b, octosql.NewList(elems)}, false, et)}
	}
	return out
}

// VerifC06: a source that delivers k of its N records and then fails, under every operator kind:
// whenever the source's Run really returned the error, the operator's Run / Evaluate must return
// a non-nil error.
func VerifC06() {
	n := zzverif.Param("N")
	kind := zzverif.Param("KIND")
	if kind < 0 {
		kind = zzverif.Choice("kind", opKinds)
	}
	k := zzverif.Choice("failAt", n+1)

	binary := kind >= opStreamJoinLeft && kind <= opLookupJoinJoined
	// JT=1: the two inputs of a join also carry non-zero event times (buffered path); costly.
	varyTime := (binary && zzverif.Param("JT") == 1) || kind == opEventTimeBuffer || kind == opCustomTriggerGroupBy || kind == opConsistencyWrapper
	failing := vx.NewScriptSource(c06Rows("f", n, kind == opUnnest, varyTime))
	failing.FailAt = k
	failing.Err = errInjected
	bad := &probe{inner: failing}

	// the healthy other side of binary operators: 1..GOOD rows
	var good *vx.ScriptSource
	if binary {
		good = vx.NewScriptSource(c06Rows("g", 1+zzverif.Choice("goodRows", zzverif.Param("GOOD")), false, varyTime))
	}

	key := []execution.Expression{execution.NewVariable(0, 0)}
	count := []func() nodes.Aggregate{aggregates.NewCountPrototype()}
	aggExpr := []execution.Expression{execution.NewVariable(0, 1)}

	var node execution.Node
	var expr execution.Expression
	switch kind {
	case opFilter:
		node = nodes.NewFilter(bad, execution.NewVariable(0, 1))
	case opMap:
		node = nodes.NewMap(bad, []execution.Expression{execution.NewVariable(0, 1), execution.NewVariable(0, 0)})
	case opDistinct:
		node = nodes.NewDistinct(bad)
	case opOrderBy:
		node = nodes.NewOrderSensitiveTransform(bad, key, []int{1}, nil, false)
	case opOrderByLimit:
		var lim execution.Expression = execution.NewConstant(octosql.NewInt(10))
		node = nodes.NewOrderSensitiveTransform(bad, key, []int{1}, &lim, true)
	case opLimit:
		node = nodes.NewLimit(bad, execution.NewConstant(octosql.NewInt(int64(1+zzverif.Choice("limit", n+1)))))
	case opUnnest:
		node = nodes.NewUnnest(bad, 2)
	case opEventTimeBuffer:
		node = nodes.NewEventTimeBuffer(bad)
	case opSimpleGroupBy:
		node = nodes.NewSimpleGroupBy(count, aggExpr, key, bad)
	case opCustomTriggerGroupBy:
		trig := execution.NewCountingTriggerPrototype(1)
		if zzverif.Choice("trigger", 2) == 1 {
			trig = execution.NewEndOfStreamTriggerPrototype()
		}
		node = nodes.NewCustomTriggerGroupBy(count, aggExpr, key, -1, bad, trig)
	case opStreamJoinLeft:
		node = nodes.NewStreamJoin(bad, good, key, key)
	case opStreamJoinRight:
		node = nodes.NewStreamJoin(good, bad, key, key)
	case opOuterJoinLeft:
		node = nodes.NewOuterJoin(bad, good, 3, 3, key, key, zzverif.Choice("outerLeft", 2) == 1, zzverif.Choice("outerRight", 2) == 1)
	case opOuterJoinRight:
		node = nodes.NewOuterJoin(good, bad, 3, 3, key, key, zzverif.Choice("outerLeft", 2) == 1, zzverif.Choice("outerRight", 2) == 1)
	case opLookupJoinSource:
		node = nodes.NewLookupJoin(bad, good)
	case opLookupJoinJoined:
		node = nodes.NewLookupJoin(good, bad)
	case opSingleColumnQuery:
		expr = execution.NewSingleColumnQueryExpression(bad)
	case opMultiColumnQuery:
		expr = execution.NewMultiColumnQueryExpression(bad)
	case opConsistencyWrapper:
		node = &stream.InternallyConsistentOutputStreamWrapper{Source: bad}
	default:
		panic("bad KIND")
	}

	var err error
	if expr != nil {
		_, err = expr.Evaluate(vx.ExecCtx())
	} else {
		sink := &vx.Sink{}
		err = vx.RunNode(node, sink)
	}
	zzverif.Reach("ran")
	if bad.failed {
		zzverif.Reach("source-failed")
	}
	zzverif.Known("C06-distinct-swallows-source-error", kind == opDistinct)
	zzverif.Known("C06-orderby-swallows-source-error", zzverif.Or(kind == opOrderBy, kind == opOrderByLimit))
	zzverif.Known("C06-single-column-query-swallows-source-error", kind == opSingleColumnQuery)
	zzverif.Known("C06-multi-column-query-swallows-source-error", kind == opMultiColumnQuery)
	zzverif.Assert(zzverif.Implies(bad.failed, err != nil), "source-error-is-returned")
	// the converse sanity check of the harness itself: a source that never failed yields no error
	zzverif.Assert(zzverif.Implies(zzverif.And(bad.runs > 0, !bad.failed), err == nil), "no-spurious-error")
}

// Expression-failure placements of VerifC06Expr (param EKIND).
const (
	exFilterPredicate = iota
	exMapExpr
	exOrderByKey
	exOrderByKeyLimit
	exSimpleGroupByKey
	exSimpleGroupByAggregate
	exCustomGroupByKey
	exCustomGroupByAggregate
	exStreamJoinLeftKey
	exStreamJoinRightKey
	exOuterJoinLeftKey
	exOuterJoinRightKey
	exLookupJoinJoinedFilter
	exLimitExpr
	exQuerySingleOverRetraction
	exQueryMultiOverRetraction
	exKinds
)

// VerifC06Expr: an expression that fails on some rows (FAIL=0: the real TypeAssertion to Int, fails
// exactly on the rows whose column 0 is NULL, i.e. at a symbolic row index; FAIL=1: the real
// panic() function, fails on the first row it sees) placed in every expression slot of every
// operator; plus the query expressions over a source that emits a retraction (which they reject
// themselves). Whenever a failing row is evaluated, Run / Evaluate must return a non-nil error;
// otherwise it must return nil.
func VerifC06Expr() {
	n := zzverif.Param("N")
	kind := zzverif.Param("EKIND")
	rows := recs(vx.NDTable("t", n, 2))
	col0 := execution.Expression(execution.NewVariable(0, 0))
	var failing execution.Expression
	anyFails := false
	if zzverif.Param("FAIL") == 0 {
		failing = execution.NewTypeAssertion([]octosql.TypeID{octosql.TypeIDInt}, col0, "Int")
		for _, r := range rows {
			anyFails = zzverif.Or(anyFails, r.Values[0].TypeID != octosql.TypeIDInt)
		}
	} else {
		failing = execution.NewFunctionCall(functions.FunctionMap()["panic"].Descriptors[0].Function, []execution.Expression{col0}, nil)
		anyFails = len(rows) > 0
	}
	src := vx.NewScriptSource(vx.RecordsToMsgs(rows))
	other := vx.NewScriptSource(vx.RecordsToMsgs(recs([][]octosql.Value{{octosql.NewInt(1), octosql.NewInt(2)}})))
	key := []execution.Expression{col0}
	fkey := []execution.Expression{failing}
	count := []func() nodes.Aggregate{aggregates.NewCountPrototype()}

	var node execution.Node
	var expr execution.Expression
	switch kind {
	case exFilterPredicate:
		isNotNull := func(v []octosql.Value) (octosql.Value, error) { return octosql.NewBoolean(true), nil }
		node = nodes.NewFilter(src, execution.NewFunctionCall(isNotNull, fkey, nil))
	case exMapExpr:
		node = nodes.NewMap(src, []execution.Expression{col0, failing})
	case exOrderByKey:
		node = nodes.NewOrderSensitiveTransform(src, fkey, []int{1}, nil, false)
	case exOrderByKeyLimit:
		var lim execution.Expression = execution.NewConstant(octosql.NewInt(10))
		node = nodes.NewOrderSensitiveTransform(src, fkey, []int{1}, &lim, true)
	case exSimpleGroupByKey:
		node = nodes.NewSimpleGroupBy(count, key, fkey, src)
	case exSimpleGroupByAggregate:
		node = nodes.NewSimpleGroupBy(count, fkey, key, src)
	case exCustomGroupByKey:
		node = nodes.NewCustomTriggerGroupBy(count, key, fkey, -1, src, execution.NewCountingTriggerPrototype(1))
	case exCustomGroupByAggregate:
		node = nodes.NewCustomTriggerGroupBy(count, fkey, key, -1, src, execution.NewCountingTriggerPrototype(1))
	case exStreamJoinLeftKey:
		node = nodes.NewStreamJoin(src, other, fkey, key)
	case exStreamJoinRightKey:
		node = nodes.NewStreamJoin(other, src, key, fkey)
	case exOuterJoinLeftKey:
		node = nodes.NewOuterJoin(src, other, 2, 2, fkey, key, true, true)
	case exOuterJoinRightKey:
		node = nodes.NewOuterJoin(other, src, 2, 2, key, fkey, true, true)
	case exLookupJoinJoinedFilter:
		// the joined branch is evaluated once per source record; its predicate fails
		isNotNull := func(v []octosql.Value) (octosql.Value, error) { return octosql.NewBoolean(true), nil }
		node = nodes.NewLookupJoin(other, nodes.NewFilter(src, execution.NewFunctionCall(isNotNull, fkey, nil)))
	case exLimitExpr:
		// LIMIT <failing expression over the outer record>: evaluated once, before the source runs
		outer := vx.ExecCtx()
		outer.VariableContext = &execution.VariableContext{Values: []octosql.Value{vx.NDCell("outer")}}
		anyFails = outer.VariableContext.Values[0].TypeID != octosql.TypeIDInt
		if zzverif.Param("FAIL") == 1 {
			anyFails = true
		}
		sink := &vx.Sink{}
		err := nodes.NewLimit(src, failing).Run(outer, sink.Produce, sink.Meta)
		zzverif.Reach("ran")
		zzverif.Assert(zzverif.Implies(anyFails, err != nil), "expression-error-is-returned")
		return
	case exQuerySingleOverRetraction, exQueryMultiOverRetraction:
		// the query expressions reject retractions themselves ("can't handle retractions")
		for i := range rows {
			rows[i].Retraction = zzverif.Bool("retr")
		}
		anyFails = false
		for _, r := range rows {
			anyFails = zzverif.Or(anyFails, r.Retraction)
		}
		src = vx.NewScriptSource(vx.RecordsToMsgs(rows))
		if kind == exQuerySingleOverRetraction {
			expr = execution.NewSingleColumnQueryExpression(src)
		} else {
			expr = execution.NewMultiColumnQueryExpression(src)
		}
	default:
		panic("bad EKIND")
	}
	var err error
	if expr != nil {
		_, err = expr.Evaluate(vx.ExecCtx())
	} else {
		sink := &vx.Sink{}
		err = vx.RunNode(node, sink)
	}
	zzverif.Reach("ran")
	zzverif.Known("C06-orderby-swallows-source-error", zzverif.Or(kind == exOrderByKey, kind == exOrderByKeyLimit))
	zzverif.Known("C06-single-column-query-swallows-source-error", kind == exQuerySingleOverRetraction)
	zzverif.Known("C06-multi-column-query-swallows-source-error", kind == exQueryMultiOverRetraction)
	zzverif.Assert(zzverif.Implies(anyFails, err != nil), "expression-error-is-returned")
	zzverif.Assert(zzverif.Implies(zzverif.Not(anyFails), err == nil), "no-spurious-error")
}
