// Package zzverif holds the harness primitives of the /verif machinery. It is injected into the
// repository through a build overlay (it is not part of the repository). The engine (gosx)
// intercepts every function below; the bodies here are the NATIVE semantics used when a
// counterexample found by the solver is replayed against the real build.
package zzverif

import (
	"context"
	"encoding/json"
	"errors"
	"fmt"
	"io/fs"
	"math"
	"os"
	"strings"
	"syscall"
	"time"
)

type vector struct {
	Harness string            `json:"harness"`
	Tag     string            `json:"tag"`
	ND      map[string]uint64 `json:"nd"`
	Params  map[string]int    `json:"params"`
}

var (
	cur     *vector
	counts  map[string]int
	Reached map[string]int
)

type AssertFailed struct{ Tag string }
type AssumeFailed struct{}

func next(name string) uint64 {
	if cur == nil {
		panic("zzverif: nd value requested outside a replay")
	}
	name = strings.Map(func(r rune) rune {
		if r == '|' || r == '\\' || r == ' ' {
			return '_'
		}
		return r
	}, name)
	k := counts[name]
	counts[name] = k + 1
	return cur.ND[fmt.Sprintf("%s#%d", name, k)]
}

func Int64(name string) int64     { return int64(next(name)) }
func Int(name string) int         { return int(int64(next(name))) }
func Uint64(name string) uint64   { return next(name) }
func Int32(name string) int32     { return int32(uint32(next(name))) }
func Byte(name string) byte       { return byte(next(name)) }
func Bool(name string) bool       { return next(name)&1 != 0 }
func Float64(name string) float64 { return math.Float64frombits(next(name)) }

// Choice returns a value in [0,n); the engine enumerates all of them by forking.
func Choice(name string, n int) int {
	if n <= 1 {
		return 0
	}
	if cur == nil {
		panic("zzverif: choice requested outside a replay")
	}
	key := "choice:" + name
	k := counts[key]
	counts[key] = k + 1
	v := int(cur.ND[fmt.Sprintf("%s#%d", name, k)])
	if v < 0 || v >= n {
		panic(AssumeFailed{})
	}
	return v
}

// Bytes returns a string of symbolic length 0..maxLen with arbitrary bytes.
func Bytes(name string, maxLen int) string {
	n := Choice(name+".len", maxLen+1)
	b := make([]byte, n)
	for i := range b {
		b[i] = Byte(fmt.Sprintf("%s.%d", name, i))
	}
	return string(b)
}

// BytesN returns a string of exactly n arbitrary bytes.
func BytesN(name string, n int) string {
	b := make([]byte, n)
	for i := range b {
		b[i] = Byte(fmt.Sprintf("%s.%d", name, i))
	}
	return string(b)
}

func Assume(c bool) {
	if !c {
		panic(AssumeFailed{})
	}
}

func Assert(c bool, tag string) {
	if !c {
		panic(AssertFailed{tag})
	}
}

func Reach(tag string) {
	if Reached != nil {
		Reached[tag]++
	}
}

// Known marks the region of a recorded known finding (no native effect).
func Known(id string, in bool) {}

func Param(name string) int {
	if cur == nil {
		panic("zzverif: param requested outside a replay")
	}
	v, ok := cur.Params[name]
	if !ok {
		panic("zzverif: missing param " + name)
	}
	return v
}

// ParamOr is Param with a default for parameters a props file may omit.
func ParamOr(name string, def int) int {
	if cur == nil {
		panic("zzverif: param requested outside a replay")
	}
	if v, ok := cur.Params[name]; ok {
		return v
	}
	return def
}

func IteInt64(c bool, a, b int64) int64 {
	if c {
		return a
	}
	return b
}
func IteInt(c bool, a, b int) int {
	if c {
		return a
	}
	return b
}
func IteUint64(c bool, a, b uint64) uint64 {
	if c {
		return a
	}
	return b
}
func IteBool(c bool, a, b bool) bool {
	if c {
		return a
	}
	return b
}
func IteByte(c bool, a, b byte) byte {
	if c {
		return a
	}
	return b
}
func IteFloat64(c bool, a, b float64) float64 {
	if c {
		return a
	}
	return b
}
func And(a, b bool) bool           { return a && b }
func Or(a, b bool) bool            { return a || b }
func Not(a bool) bool              { return !a }
func Implies(a, b bool) bool       { return !a || b }
func StrEq(a, b string) bool       { return a == b }
func StrLess(a, b string) bool     { return a < b }
func F64Lt(a, b float64) bool      { return a < b }
func F64Eq(a, b float64) bool      { return a == b }
func F64IsNaN(a float64) bool      { return a != a }
func Observe(tag string, v ...any) {}

// FixedSchedule(true) tells the engine not to fork on goroutine schedules (every select takes
// its first ready case) for harnesses whose property does not quantify over schedules; natively
// it has no effect.
func FixedSchedule(on bool) {}

// LastRegexpSource returns, under the engine, the source text of the last pattern handed to
// regexp.Compile / MustCompile by the code under test (possibly symbolic); natively "".
func LastRegexpSource() string { return "" }

// LastRegexpSubject returns, under the engine, the last subject handed to MatchString together
// with a symbolic pattern or subject; natively "".
func LastRegexpSubject() string { return "" }

// ---- context bridge: what context.WithCancel / WithValue are replaced by under the engine ----

var errCanceled = errors.New("context canceled")

type CancelCtx struct {
	parent context.Context
	done   chan struct{}
	err    error
}

func (c *CancelCtx) Done() <-chan struct{}       { return c.done }
func (c *CancelCtx) Err() error                  { return c.err }
func (c *CancelCtx) Deadline() (time.Time, bool) { return time.Time{}, false }
func (c *CancelCtx) Value(k any) any {
	if c.parent != nil {
		return c.parent.Value(k)
	}
	return nil
}

// WithCancel: a child context whose Done channel is closed by cancel (cancellation of the
// parent is not propagated — the harnesses' parents are never cancelled).
func WithCancel(parent context.Context) (context.Context, context.CancelFunc) {
	c := &CancelCtx{parent: parent, done: make(chan struct{})}
	return c, func() {
		if c.err == nil {
			c.err = errCanceled
			close(c.done)
		}
	}
}

type ValueCtx struct {
	context.Context
	key, val any
}

func (c *ValueCtx) Value(k any) any {
	if c.key == k {
		return c.val
	}
	return c.Context.Value(k)
}

func WithValue(parent context.Context, key, val any) context.Context {
	return &ValueCtx{Context: parent, key: key, val: val}
}

// ---- environment bridge (os.LookupEnv / os.Getenv / os.ReadDir under the engine) ----

// Setenv sets an environment variable: natively os.Setenv; under the engine the value is what
// os.LookupEnv / os.Getenv return inside the code under test.
func Setenv(k, v string) { os.Setenv(k, v) }

// SetStdin makes b the content of standard input: natively os.Stdin becomes the read end of a
// pipe fed with b; under the engine (*os.File).Read serves b (then io.EOF).
func SetStdin(b []byte) {
	r, w, err := os.Pipe()
	if err != nil {
		panic(err)
	}
	data := append([]byte(nil), b...)
	go func() {
		w.Write(data)
		w.Close()
	}()
	os.Stdin = r
}

// SetStdinLateEOF is SetStdin, except that natively the end of input is held back until ready()
// reports true (or 3 s have passed): the adversarial schedule for readers that race "all rows
// delivered" against "end of input seen". Under the engine it is SetStdin (the engine explores the
// schedules itself).
func SetStdinLateEOF(b []byte, ready func() bool) {
	r, w, err := os.Pipe()
	if err != nil {
		panic(err)
	}
	data := append([]byte(nil), b...)
	go func() {
		w.Write(data)
		for deadline := time.Now().Add(3 * time.Second); !ready() && time.Now().Before(deadline); {
			time.Sleep(5 * time.Millisecond)
		}
		w.Close()
	}()
	os.Stdin = r
}

// ErrStdinRead is the error a failing standard input returns.
var ErrStdinRead = errors.New("verif: injected stdin read error")

// SetStdinFailing makes standard input deliver b and then fail with a non-EOF error (an input read
// error). Natively os.Stdin becomes one end of a unix stream socket pair whose peer is closed with
// unread data in its own receive queue: reads return b and then ECONNRESET. Under the engine
// (*os.File).Read serves b and then returns (0, ErrStdinRead).
func SetStdinFailing(b []byte) { stdinFail(append([]byte(nil), b...), ErrStdinRead) }

func stdinFail(b []byte, err error) {
	fds, serr := syscall.Socketpair(syscall.AF_UNIX, syscall.SOCK_STREAM, 0)
	if serr != nil {
		panic(serr)
	}
	for len(b) > 0 {
		n, werr := syscall.Write(fds[1], b)
		if werr != nil {
			panic(werr)
		}
		b = b[n:]
	}
	// one unread byte in the peer's queue turns its close into a connection reset for our end
	if _, werr := syscall.Write(fds[0], []byte{0}); werr != nil {
		panic(werr)
	}
	syscall.Close(fds[1])
	os.Stdin = os.NewFile(uintptr(fds[0]), "/dev/stdin")
}

// ---- HTTP GET / JSON decode / mkdir bridges (engine only; natively the real functions run) ----

// JSONDecodeFn is what json.NewDecoder(r).Decode(v) does under the engine (encoding/json is
// reflection-based and not executed): the harness fills v with the value it serves natively as JSON.
var JSONDecodeFn func(v interface{}) error

func NewJSONDecoder() *json.Decoder { return new(json.Decoder) }

func JSONDecode(v interface{}) error {
	if JSONDecodeFn == nil {
		return errors.New("verif: no JSONDecodeFn")
	}
	return JSONDecodeFn(v)
}

// json.Marshal / json.Unmarshal under the engine: Marshal keeps the value and returns a handle as
// "bytes"; Unmarshal looks the handle up and lets the harness hook copy it into the target.
var jsonStore []interface{}

var JSONUnmarshalFn func(stored, into interface{}) error

func JSONMarshal(v interface{}) ([]byte, error) {
	jsonStore = append(jsonStore, v)
	return []byte{'#', byte(len(jsonStore) - 1)}, nil
}

func JSONUnmarshal(data []byte, into interface{}) error {
	if len(data) != 2 || data[0] != '#' || int(data[1]) >= len(jsonStore) || JSONUnmarshalFn == nil {
		return errors.New("verif: JSON bridge: unknown handle")
	}
	return JSONUnmarshalFn(jsonStore[data[1]], into)
}

// MkdirAllFn is what os.MkdirAll(path, ...) returns under the engine (nil when unset).
var MkdirAllFn func(path string) error

func MkdirAll(path string) error {
	if MkdirAllFn == nil {
		return nil
	}
	return MkdirAllFn(path)
}

// ReadDirFn, when set, is what os.ReadDir(path) returns under the engine: the entry names (all
// reported as directories when dirs is true) and whether the directory exists (otherwise
// os.ReadDir fails with an error for which os.IsNotExist is true). Natively it is ignored: the
// harness must create the same tree on disk.
var ReadDirFn func(path string) (names []string, dirs bool, exists bool)

// FakeDirEntry is the fs.DirEntry the engine's os.ReadDir stub returns.
type FakeDirEntry struct {
	N   string
	Dir bool
}

func (e FakeDirEntry) Name() string { return e.N }
func (e FakeDirEntry) IsDir() bool  { return e.Dir }
func (e FakeDirEntry) Type() fs.FileMode {
	if e.Dir {
		return fs.ModeDir
	}
	return 0
}
func (e FakeDirEntry) Info() (fs.FileInfo, error) { return fakeFileInfo{e}, nil }

type fakeFileInfo struct{ e FakeDirEntry }

func (i fakeFileInfo) Name() string       { return i.e.N }
func (i fakeFileInfo) Size() int64        { return 0 }
func (i fakeFileInfo) Mode() fs.FileMode  { return i.e.Type() }
func (i fakeFileInfo) ModTime() time.Time { return time.Time{} }
func (i fakeFileInfo) IsDir() bool        { return i.e.Dir }
func (i fakeFileInfo) Sys() any           { return nil }

// Symbolic reports whether the harness runs under the symbolic engine.
func Symbolic() bool { return false }

// TB is the part of testing.TB used by RunReplay.
type TB interface {
	Logf(format string, args ...any)
	Fatalf(format string, args ...any)
}

// RunReplay replays the vectors listed in $VERIF_REPLAY_FILE against the natively compiled
// harnesses and prints one `VREPLAY <index> <outcome> tag=<tag>` line per vector.
func RunReplay(t TB, harnesses map[string]func()) {
	path := os.Getenv("VERIF_REPLAY_FILE")
	if path == "" {
		t.Logf("VERIF_REPLAY_FILE not set; nothing to replay")
		return
	}
	data, err := os.ReadFile(path)
	if err != nil {
		t.Fatalf("read replay file: %v", err)
	}
	var vecs []vector
	if err := json.Unmarshal(data, &vecs); err != nil {
		var one vector
		if err2 := json.Unmarshal(data, &one); err2 != nil {
			t.Fatalf("parse replay file: %v", err)
		}
		vecs = []vector{one}
	}
	for i := range vecs {
		v := &vecs[i]
		fn, ok := harnesses[v.Harness]
		if !ok {
			fmt.Printf("VREPLAY %d skipped tag=%s (harness %s not in this package)\n", i, v.Tag, v.Harness)
			continue
		}
		// a harness that does not return within the hang timeout is reported as "hang"; the
		// process cannot go on after that (the blocked goroutines keep the global state)
		done := make(chan [2]string, 1)
		go func() {
			outcome, tag := runOne(v, fn)
			done <- [2]string{outcome, tag}
		}()
		select {
		case r := <-done:
			fmt.Printf("VREPLAY %d %s tag=%s\n", i, r[0], r[1])
		case <-time.After(hangTimeout()):
			fmt.Printf("VREPLAY %d hang tag=hang\n", i)
			os.Stdout.Sync()
			os.Exit(0)
		}
	}
}

func hangTimeout() time.Duration {
	if s := os.Getenv("VERIF_REPLAY_HANG_S"); s != "" {
		if d, err := time.ParseDuration(s + "s"); err == nil {
			return d
		}
	}
	return 30 * time.Second
}

func runOne(v *vector, fn func()) (outcome, tag string) {
	cur = v
	counts = map[string]int{}
	Reached = map[string]int{}
	defer func() {
		cur = nil
		r := recover()
		switch r := r.(type) {
		case nil:
		case AssertFailed:
			outcome, tag = "assert-failed", r.Tag
		case AssumeFailed:
			outcome, tag = "assume-failed", ""
		default:
			outcome, tag = "panic", strings.ReplaceAll(fmt.Sprint(r), "\n", " ")
		}
	}()
	fn()
	return "ok", ""
}
