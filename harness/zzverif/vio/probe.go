package vio

import (
	"strings"

	"github.com/cube2222/octosql/octosql"
	"github.com/cube2222/octosql/outputs/formats"
	"github.com/cube2222/octosql/physical"
	"github.com/cube2222/octosql/zzverif"
)

// sink is the harness-side io.Writer: it appends everything written to it.
type sink struct{ b []byte }

func (s *sink) Write(p []byte) (int, error) {
	s.b = append(s.b, p...)
	return len(p), nil
}

// VerifC25ProbeJSON: smallest possible run through JSONFormatter (engine support probe).
func VerifC25ProbeJSON() {
	w := &sink{}
	f := formats.NewJSONFormatter(w)
	f.SetSchema(physical.Schema{Fields: []physical.SchemaField{{Name: "a", Type: octosql.String}}, TimeField: -1})
	s := zzverif.Bytes("s", zzverif.Param("L"))
	err := f.Write([]octosql.Value{octosql.NewString(s)})
	zzverif.Assert(err == nil, "no-error")
	zzverif.Reach("written")
	zzverif.Assert(len(w.b) >= 2, "nonempty")
}

// VerifC25ProbeCSV: engine support probe for FormatCSVValue.
func VerifC25ProbeCSV() {
	var b strings.Builder
	m := zzverif.Param("M")
	x := int64(zzverif.Choice("x", 2*m-1) - m + 1)
	formats.FormatCSVValue(&b, octosql.NewInt(x))
	zzverif.Reach("written")
	zzverif.Assert(len(b.String()) >= 1, "nonempty")
}
