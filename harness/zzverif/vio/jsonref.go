package vio

// A minimal reference JSON reader (RFC 8259 grammar, applied to BYTES): strings with the JSON
// escapes, numbers, true/false/null, arrays, objects. It is deliberately independent of fastjson
// and of encoding/json. Bytes >= 0x80 inside strings are passed through unchanged (the reader does
// not demand that the text is UTF-8: see the C25 string harness for what is asserted about
// strings that are not valid UTF-8).

const (
	jNull = iota
	jTrue
	jFalse
	jNumber
	jString
	jArray
	jObject
)

type jnode struct {
	kind  int
	num   string // lexeme of a number
	isInt bool   // lexeme has neither fraction nor exponent
	str   string // decoded string
	elems []jnode
	keys  []string // object keys (decoded), parallel to elems
}

type jreader struct {
	b   []byte
	pos int
	ok  bool
}

func (r *jreader) fail() jnode {
	r.ok = false
	return jnode{}
}

func (r *jreader) ws() {
	for r.pos < len(r.b) {
		c := r.b[r.pos]
		if c == ' ' || c == '\t' || c == '\r' || c == '\n' {
			r.pos++
			continue
		}
		return
	}
}

func (r *jreader) lit(s string, kind int) jnode {
	if r.pos+len(s) > len(r.b) {
		return r.fail()
	}
	for i := 0; i < len(s); i++ {
		if r.b[r.pos+i] != s[i] {
			return r.fail()
		}
	}
	r.pos += len(s)
	return jnode{kind: kind}
}

func isDigit(c byte) bool { return c >= '0' && c <= '9' }

func (r *jreader) number() jnode {
	start := r.pos
	if r.pos < len(r.b) && r.b[r.pos] == '-' {
		r.pos++
	}
	if r.pos >= len(r.b) || !isDigit(r.b[r.pos]) {
		return r.fail()
	}
	if r.b[r.pos] == '0' {
		r.pos++
	} else {
		for r.pos < len(r.b) && isDigit(r.b[r.pos]) {
			r.pos++
		}
	}
	isInt := true
	if r.pos < len(r.b) && r.b[r.pos] == '.' {
		isInt = false
		r.pos++
		if r.pos >= len(r.b) || !isDigit(r.b[r.pos]) {
			return r.fail()
		}
		for r.pos < len(r.b) && isDigit(r.b[r.pos]) {
			r.pos++
		}
	}
	if r.pos < len(r.b) && (r.b[r.pos] == 'e' || r.b[r.pos] == 'E') {
		isInt = false
		r.pos++
		if r.pos < len(r.b) && (r.b[r.pos] == '+' || r.b[r.pos] == '-') {
			r.pos++
		}
		if r.pos >= len(r.b) || !isDigit(r.b[r.pos]) {
			return r.fail()
		}
		for r.pos < len(r.b) && isDigit(r.b[r.pos]) {
			r.pos++
		}
	}
	return jnode{kind: jNumber, num: string(r.b[start:r.pos]), isInt: isInt}
}

func hexVal(c byte) int {
	switch {
	case c >= '0' && c <= '9':
		return int(c - '0')
	case c >= 'a' && c <= 'f':
		return int(c-'a') + 10
	case c >= 'A' && c <= 'F':
		return int(c-'A') + 10
	}
	return -1
}

func (r *jreader) hex4() int {
	if r.pos+4 > len(r.b) {
		r.ok = false
		return 0
	}
	v := 0
	for i := 0; i < 4; i++ {
		h := hexVal(r.b[r.pos+i])
		if h < 0 {
			r.ok = false
			return 0
		}
		v = v*16 + h
	}
	r.pos += 4
	return v
}

// appendRune appends the UTF-8 encoding of cp (written out; no unicode/utf8 dependency).
func appendRune(out []byte, cp int) []byte {
	switch {
	case cp < 0x80:
		return append(out, byte(cp))
	case cp < 0x800:
		return append(out, byte(0xC0|cp>>6), byte(0x80|cp&0x3F))
	case cp < 0x10000:
		return append(out, byte(0xE0|cp>>12), byte(0x80|(cp>>6)&0x3F), byte(0x80|cp&0x3F))
	}
	return append(out, byte(0xF0|cp>>18), byte(0x80|(cp>>12)&0x3F), byte(0x80|(cp>>6)&0x3F), byte(0x80|cp&0x3F))
}

// str reads a JSON string starting at the opening quote and returns its decoded bytes.
func (r *jreader) str() string {
	if r.pos >= len(r.b) || r.b[r.pos] != '"' {
		r.ok = false
		return ""
	}
	r.pos++
	var out []byte
	for {
		if r.pos >= len(r.b) {
			r.ok = false
			return ""
		}
		c := r.b[r.pos]
		r.pos++
		if c == '"' {
			return string(out)
		}
		if c < 0x20 {
			r.ok = false // control characters must be escaped
			return ""
		}
		if c != '\\' {
			out = append(out, c)
			continue
		}
		if r.pos >= len(r.b) {
			r.ok = false
			return ""
		}
		e := r.b[r.pos]
		r.pos++
		switch e {
		case '"', '\\', '/':
			out = append(out, e)
		case 'b':
			out = append(out, 8)
		case 'f':
			out = append(out, 12)
		case 'n':
			out = append(out, 10)
		case 'r':
			out = append(out, 13)
		case 't':
			out = append(out, 9)
		case 'u':
			cp := r.hex4()
			if !r.ok {
				return ""
			}
			if cp >= 0xD800 && cp < 0xDC00 {
				// high surrogate: needs \uDC00..\uDFFF next
				if r.pos+2 <= len(r.b) && r.b[r.pos] == '\\' && r.b[r.pos+1] == 'u' {
					r.pos += 2
					lo := r.hex4()
					if !r.ok {
						return ""
					}
					if lo >= 0xDC00 && lo < 0xE000 {
						cp = 0x10000 + (cp-0xD800)<<10 + (lo - 0xDC00)
					} else {
						r.ok = false // a lone surrogate does not denote a character
						return ""
					}
				} else {
					r.ok = false
					return ""
				}
			} else if cp >= 0xDC00 && cp < 0xE000 {
				r.ok = false
				return ""
			}
			out = appendRune(out, cp)
		default:
			r.ok = false // not a JSON escape (e.g. \x01, \a, \v, \U0001F600)
			return ""
		}
	}
}

func (r *jreader) value(depth int) jnode {
	r.ws()
	if r.pos >= len(r.b) || depth > 8 {
		return r.fail()
	}
	c := r.b[r.pos]
	switch {
	case c == 'n':
		return r.lit("null", jNull)
	case c == 't':
		return r.lit("true", jTrue)
	case c == 'f':
		return r.lit("false", jFalse)
	case c == '"':
		s := r.str()
		if !r.ok {
			return jnode{}
		}
		return jnode{kind: jString, str: s}
	case c == '-' || isDigit(c):
		return r.number()
	case c == '[':
		r.pos++
		n := jnode{kind: jArray}
		r.ws()
		if r.pos < len(r.b) && r.b[r.pos] == ']' {
			r.pos++
			return n
		}
		for {
			e := r.value(depth + 1)
			if !r.ok {
				return jnode{}
			}
			n.elems = append(n.elems, e)
			r.ws()
			if r.pos >= len(r.b) {
				return r.fail()
			}
			if r.b[r.pos] == ',' {
				r.pos++
				continue
			}
			if r.b[r.pos] == ']' {
				r.pos++
				return n
			}
			return r.fail()
		}
	case c == '{':
		r.pos++
		n := jnode{kind: jObject}
		r.ws()
		if r.pos < len(r.b) && r.b[r.pos] == '}' {
			r.pos++
			return n
		}
		for {
			r.ws()
			k := r.str()
			if !r.ok {
				return jnode{}
			}
			r.ws()
			if r.pos >= len(r.b) || r.b[r.pos] != ':' {
				return r.fail()
			}
			r.pos++
			e := r.value(depth + 1)
			if !r.ok {
				return jnode{}
			}
			n.keys = append(n.keys, k)
			n.elems = append(n.elems, e)
			r.ws()
			if r.pos >= len(r.b) {
				return r.fail()
			}
			if r.b[r.pos] == ',' {
				r.pos++
				continue
			}
			if r.b[r.pos] == '}' {
				r.pos++
				return n
			}
			return r.fail()
		}
	}
	return r.fail()
}

// readJSONLine parses b as exactly one JSON text followed by '\n' (one -o json line).
func readJSONLine(b []byte) (jnode, bool) {
	if len(b) == 0 || b[len(b)-1] != '\n' {
		return jnode{}, false
	}
	r := &jreader{b: b[:len(b)-1], ok: true}
	n := r.value(0)
	if !r.ok {
		return jnode{}, false
	}
	r.ws()
	if r.pos != len(r.b) {
		return jnode{}, false
	}
	return n, true
}

// refInt reads an integer lexeme (JSON number without fraction/exponent, or a CSV cell) as int64;
// ok=false on syntax error or overflow. Accumulates negatively so that MinInt64 is representable.
func refInt(s string) (int64, bool) {
	i := 0
	neg := false
	if i < len(s) && s[i] == '-' {
		neg = true
		i++
	}
	if i >= len(s) {
		return 0, false
	}
	if s[i] == '0' && len(s) > i+1 {
		return 0, false // leading zero
	}
	var acc int64 // holds -|value|
	for ; i < len(s); i++ {
		if !isDigit(s[i]) {
			return 0, false
		}
		d := int64(s[i] - '0')
		if acc < (-9223372036854775808+d)/10 {
			return 0, false
		}
		acc = acc*10 - d
	}
	if neg {
		return acc, true
	}
	if acc == -9223372036854775808 {
		return 0, false
	}
	return -acc, true
}
