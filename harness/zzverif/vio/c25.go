package vio

import (
	"fmt"
	"math"
	"strconv"
	"strings"
	"unicode/utf8"

	"github.com/cube2222/octosql/octosql"
	"github.com/cube2222/octosql/outputs/formats"
	"github.com/cube2222/octosql/physical"
	"github.com/cube2222/octosql/zzverif"
)

// ---------------------------------------------------------------------------------------------
// C25 — CSV and JSON output faithfully encode results
// ---------------------------------------------------------------------------------------------

// goQuoteNotJSON is the region of known finding C25-json-go-quote: fastjson's escapeString sends
// every string that contains '"', '\\' or a byte < 0x20 through strconv.AppendQuote, which writes
// GO escapes. They are JSON escapes only for \" \\ \b \f \n \r \t and \uXXXX; the string is in the
// region when AppendQuote has to write anything else: \a \v \x00..\x1f (other control bytes), \x7f,
// \xNN for a byte that is not part of a valid UTF-8 sequence, \UXXXXXXXX for a non-printable rune
// above U+FFFF.
func goQuoteNotJSON(s string) bool {
	special := false
	for i := 0; i < len(s); i++ {
		if s[i] == '"' || s[i] == '\\' || s[i] < 0x20 {
			special = true
		}
	}
	if !special {
		return false
	}
	for i := 0; i < len(s); {
		r, w := utf8.DecodeRuneInString(s[i:])
		i += w
		switch {
		case r == utf8.RuneError && w == 1:
			return true
		case r == 8 || r == 9 || r == 10 || r == 12 || r == 13:
		case r < 0x20 || r == 0x7f:
			return true
		case r >= 0x10000 && !strconv.IsPrint(r):
			return true
		}
	}
	return false
}

// ndBytes: a string of 0..maxLen bytes; hi=1: arbitrary bytes, hi=0: bytes < 0x80 only.
func ndBytes(name string, maxLen, hi int) string {
	s := zzverif.Bytes(name, maxLen)
	if hi == 0 {
		for i := 0; i < len(s); i++ {
			zzverif.Assume(s[i] < 0x80)
		}
	}
	return s
}

func jsonLineOf(fields []physical.SchemaField, rows ...[]octosql.Value) [][]byte {
	w := &sink{}
	f := formats.NewJSONFormatter(w)
	f.SetSchema(physical.Schema{Fields: fields, TimeField: -1})
	var out [][]byte
	for _, row := range rows {
		before := len(w.b)
		err := f.Write(row)
		zzverif.Assert(err == nil, "write-no-error")
		out = append(out, append([]byte(nil), w.b[before:]...))
	}
	return out
}

// VerifC25JSONString: a row {"a": s} for every byte string s of at most L bytes. The line must be
// one JSON text (RFC 8259 grammar on bytes) + '\n' that decodes to an object with the single key
// "a" whose value is a string with exactly the bytes of s.
//
// Strings that are not valid UTF-8: the property demands "valid JSON" and "strings preserved byte
// for byte"; for such strings both cannot hold for a strict (UTF-8 validating) JSON reader. The
// oracle therefore demands the byte-level reading only: grammar on bytes, decoded bytes = s.
// That is exactly what fastjson's fast path delivers (raw copy) and it is the weakest reading.
func VerifC25JSONString() {
	s := ndBytes("s", zzverif.Param("L"), zzverif.Param("HI"))
	line := jsonLineOf([]physical.SchemaField{{Name: "a", Type: octosql.String}}, []octosql.Value{octosql.NewString(s)})[0]
	zzverif.Reach("written")
	n, ok := readJSONLine(line)
	inRegion := goQuoteNotJSON(s)
	// the region is exact: every string inside it yields an invalid line (nothing else is hidden)
	// (EXACT=0 switches this off: used on a repaired tree, where the region must be clean instead)
	if zzverif.Param("EXACT") == 1 {
		zzverif.Assert(!inRegion || !ok, "region-is-exact")
	}
	zzverif.Known("C25-json-go-quote", inRegion)
	zzverif.Assert(ok, "line-is-valid-json")
	zzverif.Assert(n.kind == jObject && len(n.keys) == 1 && n.keys[0] == "a", "object-with-key-a")
	zzverif.Assert(n.elems[0].kind == jString, "value-is-string")
	zzverif.Assert(zzverif.StrEq(n.elems[0].str, s), "string-bytes-preserved")
}

// VerifC25JSONKey: the same for the column name (object key): names of at most L bytes without a
// '.' (SetSchema strips qualifiers at the first dot), value Int 7.
func VerifC25JSONKey() {
	k := ndBytes("k", zzverif.Param("L"), zzverif.Param("HI"))
	for i := 0; i < len(k); i++ {
		zzverif.Assume(k[i] != '.')
	}
	line := jsonLineOf([]physical.SchemaField{{Name: k, Type: octosql.Int}}, []octosql.Value{octosql.NewInt(7)})[0]
	zzverif.Reach("written")
	// (column names still go through fastjson's escapeString after the repair of the values)
	zzverif.Known("C25-json-key-go-quote", goQuoteNotJSON(k))
	n, ok := readJSONLine(line)
	zzverif.Assert(ok, "line-is-valid-json")
	zzverif.Assert(n.kind == jObject && len(n.keys) == 1, "object-with-one-key")
	zzverif.Assert(zzverif.StrEq(n.keys[0], k), "key-bytes-preserved")
	zzverif.Assert(n.elems[0].kind == jNumber && n.elems[0].num == "7", "value-7")
}

// intSamples are the extreme Ints that are run next to the enumerated range.
var intSamples = []int64{
	math.MinInt64, math.MinInt64 + 1, math.MaxInt64, math.MaxInt64 - 1,
	-1 << 53, 1<<53 + 1, 1 << 32, -1 << 31, 999999999, 1000000000, -1000000000,
	99999, 100000, 9999999999, 10000000000, 999999999999999999, 1000000000000000000, -999999999999999999,
}

// ndInt: every Int with |x| < M (enumerated: decimal formatting of a symbolic int indexes
// strconv's digit tables, which forks over every table position anyway) plus intSamples.
func ndInt(name string, m int) int64 {
	k := zzverif.Choice(name, 2*m-1+len(intSamples))
	if k < 2*m-1 {
		return int64(k - m + 1)
	}
	return intSamples[k-(2*m-1)]
}

// floatSamples: the special values and a few finite constants (formatting a symbolic float is
// outside the engine).
var floatSamples = []float64{
	math.NaN(), math.Inf(1), math.Inf(-1),
	0, math.Copysign(0, -1), 1, -1, 0.5, 0.1, 1e21, 1e-7, 123456789.125, math.MaxFloat64, math.SmallestNonzeroFloat64, 1 << 53,
}

func floatSpecial(f float64) bool { return f != f || f > math.MaxFloat64 || f < -math.MaxFloat64 }

// VerifC25JSONScalars: a row {"a": v} for v = NULL, Boolean, Int (|x| < M and extreme samples),
// Float samples. null / true / false / exact integer / exact float.
func VerifC25JSONScalars() {
	m := zzverif.Param("M")
	kind := zzverif.Choice("kind", 4)
	var v octosql.Value
	var t octosql.Type
	switch kind {
	case 0:
		v, t = octosql.NewNull(), octosql.Null
	case 1:
		v, t = octosql.NewBoolean(zzverif.Bool("b")), octosql.Boolean
	case 2:
		v, t = octosql.NewInt(ndInt("x", m)), octosql.Int
	case 3:
		// FIN=0: NaN, +Inf, -Inf only; FIN=1: also the finite samples
		nf := 3
		if zzverif.Param("FIN") == 1 {
			nf = len(floatSamples)
		}
		v, t = octosql.NewFloat(floatSamples[zzverif.Choice("f", nf)]), octosql.Float
	}
	line := jsonLineOf([]physical.SchemaField{{Name: "a", Type: t}}, []octosql.Value{v})[0]
	zzverif.Reach("written")
	zzverif.Known("C25-json-nan-inf", kind == 3 && floatSpecial(v.Float))
	n, ok := readJSONLine(line)
	zzverif.Assert(ok, "line-is-valid-json")
	zzverif.Assert(n.kind == jObject && len(n.keys) == 1 && n.keys[0] == "a", "object-with-key-a")
	zzverif.Assert(matchJSON(n.elems[0], t, v), "value-decodes-back")
}

// matchJSON: the parsed JSON node is the faithful encoding of value v of type t.
func matchJSON(n jnode, t octosql.Type, v octosql.Value) bool {
	switch v.TypeID {
	case octosql.TypeIDNull:
		return n.kind == jNull
	case octosql.TypeIDBoolean:
		return zzverif.Or(zzverif.And(n.kind == jTrue, v.Boolean), zzverif.And(n.kind == jFalse, !v.Boolean))
	case octosql.TypeIDInt:
		if n.kind != jNumber || !n.isInt {
			return false
		}
		x, ok := refInt(n.num)
		return ok && x == v.Int
	case octosql.TypeIDFloat:
		if floatSpecial(v.Float) {
			// JSON has no NaN / Infinity: nothing is demanded about the value, only that the
			// line is valid JSON (checked by the caller).
			return true
		}
		if n.kind != jNumber {
			return false
		}
		f, err := strconv.ParseFloat(n.num, 64)
		return err == nil && math.Float64bits(f) == math.Float64bits(v.Float)
	case octosql.TypeIDString:
		return n.kind == jString && zzverif.StrEq(n.str, v.Str)
	case octosql.TypeIDList:
		if n.kind != jArray || len(n.elems) != len(v.List) {
			return false
		}
		et := elemType(t)
		for i := range v.List {
			if !matchJSON(n.elems[i], et, v.List[i]) {
				return false
			}
		}
		return true
	case octosql.TypeIDTuple:
		if n.kind != jArray || len(n.elems) != len(v.Tuple) {
			return false
		}
		tt := altOf(t, octosql.TypeIDTuple)
		for i := range v.Tuple {
			if !matchJSON(n.elems[i], tt.Tuple.Elements[i], v.Tuple[i]) {
				return false
			}
		}
		return true
	case octosql.TypeIDStruct:
		if n.kind != jObject || len(n.elems) != len(v.Struct) {
			return false
		}
		st := altOf(t, octosql.TypeIDStruct)
		for i := range v.Struct {
			if n.keys[i] != st.Struct.Fields[i].Name || !matchJSON(n.elems[i], st.Struct.Fields[i].Type, v.Struct[i]) {
				return false
			}
		}
		return true
	}
	return false
}

// altOf resolves a union to its (only) alternative of the given type id.
func altOf(t octosql.Type, id octosql.TypeID) octosql.Type {
	if t.TypeID == octosql.TypeIDUnion {
		for _, a := range t.Union.Alternatives {
			if a.TypeID == id {
				return a
			}
		}
	}
	return t
}

func elemType(t octosql.Type) octosql.Type {
	t = altOf(t, octosql.TypeIDList)
	if t.List.Element == nil {
		return octosql.Null
	}
	return *t.List.Element
}

// ndTyped returns a type and, separately, lets ndValueOf draw values of it. Kinds:
// 0 NULL, 1 Boolean, 2 Int, 3 String, 4 Int|NULL ... String|NULL (nullable scalar), 5 Int|String,
// depth > 0: 6 list, 7 struct (fields a, b, ...), 8 tuple, 9 nullable container.
func ndType(name string, depth, maxElems int) octosql.Type {
	n := 6
	if depth > 0 {
		n = 10
	}
	switch zzverif.Choice(name+".kind", n) {
	case 0:
		return octosql.Null
	case 1:
		return octosql.Boolean
	case 2:
		return octosql.Int
	case 3:
		return octosql.String
	case 4:
		return octosql.TypeSum(octosql.Null, []octosql.Type{octosql.Boolean, octosql.Int, octosql.String}[zzverif.Choice(name+".nullable", 3)])
	case 5:
		return octosql.TypeSum(octosql.Int, octosql.String)
	case 6:
		el := ndType(name+".el", depth-1, maxElems)
		return octosql.Type{TypeID: octosql.TypeIDList, List: struct{ Element *octosql.Type }{Element: &el}}
	case 7:
		cnt := zzverif.Choice(name+".n", maxElems+1)
		fields := make([]octosql.StructField, cnt)
		for i := range fields {
			fields[i] = octosql.StructField{Name: string([]byte{byte('a' + i)}), Type: ndType(fmt.Sprintf("%s.f%d", name, i), depth-1, maxElems)}
		}
		return octosql.Type{TypeID: octosql.TypeIDStruct, Struct: struct{ Fields []octosql.StructField }{Fields: fields}}
	case 8:
		cnt := zzverif.Choice(name+".n", maxElems+1)
		els := make([]octosql.Type, cnt)
		for i := range els {
			els[i] = ndType(fmt.Sprintf("%s.t%d", name, i), depth-1, maxElems)
		}
		return octosql.Type{TypeID: octosql.TypeIDTuple, Tuple: struct{ Elements []octosql.Type }{Elements: els}}
	default:
		el := octosql.Int
		lst := octosql.Type{TypeID: octosql.TypeIDList, List: struct{ Element *octosql.Type }{Element: &el}}
		return octosql.TypeSum(octosql.Null, lst)
	}
}

var nestedInts = []int64{0, -12, math.MinInt64}

// nestedStrs: the strings used inside rows when S=0 (none is in the C25-json-go-quote region).
var nestedStrs = []string{"", "x", "\"\\", "\n", "\u00e9"}

// ndValueOf draws an arbitrary value of type t. Strings have <= strLen arbitrary bytes (strLen = 0: one of nestedStrs); Ints come
// from nestedInts (the Int range is covered by VerifC25JSONScalars). strs collects the strings.
func ndValueOf(name string, t octosql.Type, maxElems, strLen int, strs *[]string) octosql.Value {
	switch t.TypeID {
	case octosql.TypeIDNull:
		return octosql.NewNull()
	case octosql.TypeIDBoolean:
		return octosql.NewBoolean(zzverif.Choice(name+".b", 2) == 1)
	case octosql.TypeIDInt:
		return octosql.NewInt(nestedInts[zzverif.Choice(name+".i", len(nestedInts))])
	case octosql.TypeIDString:
		var s string
		if strLen == 0 {
			s = nestedStrs[zzverif.Choice(name+".s", len(nestedStrs))]
		} else {
			s = zzverif.Bytes(name+".s", strLen)
		}
		*strs = append(*strs, s)
		return octosql.NewString(s)
	case octosql.TypeIDUnion:
		alts := t.Union.Alternatives
		return ndValueOf(name, alts[zzverif.Choice(name+".alt", len(alts))], maxElems, strLen, strs)
	case octosql.TypeIDList:
		cnt := zzverif.Choice(name+".len", maxElems+1)
		els := make([]octosql.Value, cnt)
		for i := range els {
			els[i] = ndValueOf(fmt.Sprintf("%s.%d", name, i), *t.List.Element, maxElems, strLen, strs)
		}
		return octosql.NewList(els)
	case octosql.TypeIDStruct:
		els := make([]octosql.Value, len(t.Struct.Fields))
		for i := range els {
			els[i] = ndValueOf(fmt.Sprintf("%s.%d", name, i), t.Struct.Fields[i].Type, maxElems, strLen, strs)
		}
		return octosql.NewStruct(els)
	case octosql.TypeIDTuple:
		els := make([]octosql.Value, len(t.Tuple.Elements))
		for i := range els {
			els[i] = ndValueOf(fmt.Sprintf("%s.%d", name, i), t.Tuple.Elements[i], maxElems, strLen, strs)
		}
		return octosql.NewTuple(els)
	}
	panic("ndValueOf: bad type")
}

// VerifC25JSONRows: ROWS rows of COLS columns (names c0, c1, ...) of arbitrary types of depth <= D
// with <= E elements per container and values of those types, written through ONE formatter (the
// arena and the buffer are reused between rows). Every line decodes to an object whose keys are
// the column names in order and whose values mirror the row: null, booleans, exact ints, strings
// byte for byte, arrays for lists and tuples, objects with the field names for structs.
func VerifC25JSONRows() {
	cols, rows := zzverif.Param("COLS"), zzverif.Param("ROWS")
	d, e, sl := zzverif.Param("D"), zzverif.Param("E"), zzverif.Param("S")
	fields := make([]physical.SchemaField, cols)
	for i := range fields {
		fields[i] = physical.SchemaField{Name: fmt.Sprintf("c%d", i), Type: ndType(fmt.Sprintf("t%d", i), d, e)}
	}
	var strs []string
	data := make([][]octosql.Value, rows)
	for r := range data {
		data[r] = make([]octosql.Value, cols)
		for i := range fields {
			data[r][i] = ndValueOf(fmt.Sprintf("r%d.c%d", r, i), fields[i].Type, e, sl, &strs)
		}
	}
	lines := jsonLineOf(fields, data...)
	zzverif.Reach("written")
	inRegion := false
	for _, s := range strs {
		inRegion = inRegion || goQuoteNotJSON(s)
	}
	zzverif.Known("C25-json-go-quote", inRegion)
	for r := range data {
		n, ok := readJSONLine(lines[r])
		zzverif.Assert(ok, "line-is-valid-json")
		zzverif.Assert(n.kind == jObject && len(n.keys) == cols, "object-with-all-columns")
		for i := range fields {
			zzverif.Assert(n.keys[i] == fields[i].Name, "key-is-column-name")
			zzverif.Assert(matchJSON(n.elems[i], fields[i].Type, data[r][i]), "value-decodes-back")
		}
	}
}

// VerifC25CSV: FormatCSVValue of a scalar decodes back: NULL => empty text, Boolean => true/false,
// Int => its decimal text (|x| < M and extreme samples), String => the bytes themselves, Float
// samples => text that strconv.ParseFloat reads back bit-exactly (NaN as NaN). The quoting layer
// (encoding/csv) is outside.
func VerifC25CSV() {
	m := zzverif.Param("M")
	var b strings.Builder
	b.WriteString("") // the formatter reuses one builder: start from the state after Reset
	switch zzverif.Choice("kind", 5) {
	case 0:
		formats.FormatCSVValue(&b, octosql.NewNull())
		zzverif.Assert(b.String() == "", "null-is-empty")
	case 1:
		v := zzverif.Bool("b")
		formats.FormatCSVValue(&b, octosql.NewBoolean(v))
		zzverif.Assert(zzverif.Or(zzverif.And(v, b.String() == "true"), zzverif.And(!v, b.String() == "false")), "bool-text")
	case 2:
		x := ndInt("x", m)
		formats.FormatCSVValue(&b, octosql.NewInt(x))
		got, ok := refInt(b.String())
		zzverif.Assert(ok && got == x, "int-decodes-back")
	case 3:
		s := zzverif.Bytes("s", zzverif.Param("L"))
		formats.FormatCSVValue(&b, octosql.NewString(s))
		zzverif.Assert(zzverif.StrEq(b.String(), s), "string-bytes-preserved")
	case 4:
		f := floatSamples[zzverif.Choice("f", len(floatSamples))]
		formats.FormatCSVValue(&b, octosql.NewFloat(f))
		got, err := strconv.ParseFloat(b.String(), 64)
		zzverif.Assert(err == nil, "float-text-parses")
		zzverif.Assert((f != f && got != got) || math.Float64bits(got) == math.Float64bits(f), "float-decodes-back")
	}
	zzverif.Reach("checked")
}
