package vio

import (
	"fmt"
	"strconv"

	"github.com/cube2222/octosql/octosql"
	"github.com/cube2222/octosql/outputs/formats"
	"github.com/cube2222/octosql/physical"
	"github.com/cube2222/octosql/zzverif"
)

// ---------------------------------------------------------------------------------------------
// C25 — -o csv records through the REAL CSVFormatter (SetSchema, Write x ROWS on ONE formatter
// instance, Close) including the encoding/csv quoting layer, decoded by a reference RFC 4180 reader.
// ---------------------------------------------------------------------------------------------

// readCSV is a minimal RFC 4180 reader on bytes: records end with "\n" (the writer does not use
// CRLF), fields are separated by ',', a field that starts with '"' runs to the closing quote, ""
// inside it is one quote, everything else inside is literal (commas, CR, LF). ok=false on a quote
// inside an unquoted field, on text after a closing quote, or on a missing final newline.
func readCSV(b []byte) (records [][]string, ok bool) {
	var rec []string
	i := 0
	for i < len(b) {
		// one field
		var field []byte
		if b[i] == '"' {
			i++
			for {
				if i >= len(b) {
					return nil, false
				}
				if b[i] == '"' {
					if i+1 < len(b) && b[i+1] == '"' {
						field = append(field, '"')
						i += 2
						continue
					}
					i++
					break
				}
				field = append(field, b[i])
				i++
			}
		} else {
			for i < len(b) && b[i] != ',' && b[i] != '\n' {
				if b[i] == '"' {
					return nil, false
				}
				field = append(field, b[i])
				i++
			}
		}
		rec = append(rec, string(field))
		if i >= len(b) {
			return nil, false // no final newline
		}
		switch b[i] {
		case ',':
			i++
			if i >= len(b) {
				return nil, false
			}
		case '\n':
			i++
			records = append(records, rec)
			rec = nil
		default:
			return nil, false
		}
	}
	if rec != nil {
		return nil, false
	}
	return records, true
}

var csvRowInts = []int64{0, -12, 9223372036854775807}

// ndCSVCell draws a scalar: NULL, Boolean, one of three Ints, a String of <= strLen arbitrary
// bytes (strLen = 0: one of csvRowStrs), and returns it with the text its CSV field must decode to.
func ndCSVCell(name string, strLen int) (octosql.Value, string) {
	switch zzverif.Choice(name+".kind", 4) {
	case 0:
		return octosql.NewNull(), ""
	case 1:
		if zzverif.Choice(name+".b", 2) == 1 {
			return octosql.NewBoolean(true), "true"
		}
		return octosql.NewBoolean(false), "false"
	case 2:
		x := csvRowInts[zzverif.Choice(name+".i", len(csvRowInts))]
		return octosql.NewInt(x), strconv.FormatInt(x, 10)
	}
	if strLen == 0 {
		s := csvRowStrs[zzverif.Choice(name+".s", len(csvRowStrs))]
		return octosql.NewString(s), s
	}
	s := zzverif.Bytes(name+".s", strLen)
	return octosql.NewString(s), s
}

// csvRowStrs: the strings used with S=0.
var csvRowStrs = []string{"", "x", "a,b", "\"", " y", "l1\nl2", "\r"}

// VerifC25CSVRows: ROWS records of COLS scalar columns through one CSVFormatter. The output is the
// header record (the column names) followed by one record per row, each with COLS fields that
// decode to the row's values: NULL => empty field — also when an EARLIER record had a value in
// that column —, Boolean => true/false, Int => decimal text, String => the bytes themselves
// (quotes, commas, CR, LF, leading space included).
func VerifC25CSVRows() {
	rows, cols, sl := zzverif.Param("ROWS"), zzverif.Param("COLS"), zzverif.Param("S")
	fields := make([]physical.SchemaField, cols)
	for c := range fields {
		fields[c] = physical.SchemaField{Name: fmt.Sprintf("c%d", c), Type: octosql.Any}
	}
	w := &sink{}
	f := formats.NewCSVFormatter(w)
	f.SetSchema(physical.Schema{Fields: fields, TimeField: -1})
	want := make([][]string, rows)
	for r := range want {
		vals := make([]octosql.Value, cols)
		want[r] = make([]string, cols)
		for c := range vals {
			vals[c], want[r][c] = ndCSVCell(fmt.Sprintf("r%d.c%d", r, c), sl)
		}
		zzverif.Assert(f.Write(vals) == nil, "write-no-error")
	}
	zzverif.Assert(f.Close() == nil, "close-no-error")
	zzverif.Reach("written")
	got, ok := readCSV(w.b)
	zzverif.Assert(ok, "output-is-valid-csv")
	zzverif.Assert(len(got) == rows+1, "header-plus-one-record-per-row")
	for c := range fields {
		zzverif.Assert(len(got[0]) == cols && got[0][c] == fields[c].Name, "header-names")
	}
	for r := range want {
		zzverif.Assert(len(got[r+1]) == cols, "one-field-per-column")
		for c := range want[r] {
			zzverif.Assert(zzverif.StrEq(got[r+1][c], want[r][c]), "field-decodes-to-value")
		}
	}
}
