package vio

import (
	"context"
	"fmt"
	"io"

	"github.com/cube2222/octosql/execution/files"
	"github.com/cube2222/octosql/zzverif"
)

// ---------------------------------------------------------------------------------------------
// C23 (b) — data piped on stdin, part of which is read early for the schema preview.
// files.OpenLocalFile("stdin", WithPreview()) any number of times, each reading some prefix, then
// files.OpenLocalFile("stdin"): the execution reader must deliver exactly all bytes of stdin.
// With the harness parameter STDIN_CHUNKS=1 every read of the underlying stdin returns an
// arbitrary non-empty part of what is available (all chunkings).
// ---------------------------------------------------------------------------------------------

// readSome reads up to want bytes from r with a buffer of bufLen bytes; it stops early at EOF.
func readSome(r io.Reader, want, bufLen int) []byte {
	var out []byte
	buf := make([]byte, bufLen)
	for len(out) < want {
		p := buf
		if want-len(out) < len(p) {
			p = p[:want-len(out)]
		}
		n, err := r.Read(p)
		out = append(out, p[:n]...)
		if err == io.EOF {
			break
		}
		zzverif.Assert(err == nil, "read-no-error")
		zzverif.Assert(n > 0 || len(p) == 0, "read-makes-progress")
	}
	return out
}

func isPrefix(p []byte, s string) bool {
	if len(p) > len(s) {
		return false
	}
	return zzverif.StrEq(string(p), s[:len(p)])
}

func VerifC23Stdin() {
	l, previews, bufLen := zzverif.Param("L"), zzverif.Param("PREVIEWS"), zzverif.Param("BUF")
	content := zzverif.Bytes("content", l)
	files.VerifResetStdin()
	zzverif.SetStdin([]byte(content))
	ctx := context.Background()
	for i := 0; i < previews; i++ {
		f, err := files.OpenLocalFile(ctx, "stdin", files.WithPreview())
		zzverif.Assert(err == nil, "preview-open-no-error")
		want := zzverif.Choice(fmt.Sprintf("preview%d.want", i), l+2) // l+1: tries to read past the end
		got := readSome(f, want, bufLen)
		zzverif.Assert(isPrefix(got, content), "preview-reads-a-prefix")
		zzverif.Assert(len(got) == want || len(got) == len(content), "preview-short-only-at-eof")
		zzverif.Assert(f.Close() == nil, "preview-close-no-error")
	}
	f, err := files.OpenLocalFile(ctx, "stdin")
	zzverif.Assert(err == nil, "open-no-error")
	got := readSome(f, l+1, bufLen)
	zzverif.Reach("read-all")
	zzverif.Assert(len(got) == len(content), "exactly-all-bytes")
	zzverif.Assert(zzverif.StrEq(string(got), content), "bytes-in-order")
	zzverif.Assert(f.Close() == nil, "close-no-error")
}
