// Package zznet holds the engine's HTTP GET bridge (kept out of package zzverif so that harnesses
// which do not need it do not load net/http).
package zznet

import (
	"bytes"
	"errors"
	"io"
	"net/http"
)

// HTTPGetFn is what an HTTP GET of url returns under the engine (body, status code, error).
var HTTPGetFn func(url string) ([]byte, int, error)

// HTTPDo is what (*http.Client).Do becomes under the engine.
func HTTPDo(url string) (*http.Response, error) {
	if HTTPGetFn == nil {
		return nil, errors.New("verif: no HTTPGetFn")
	}
	body, code, err := HTTPGetFn(url)
	if err != nil {
		return nil, err
	}
	return &http.Response{StatusCode: code, Body: io.NopCloser(bytes.NewReader(body))}, nil
}

