package vagg

import (
	"fmt"
	"time"

	"github.com/cube2222/octosql/execution"
	"github.com/cube2222/octosql/execution/nodes"
	"github.com/cube2222/octosql/octosql"
	"github.com/cube2222/octosql/zzverif"
	"github.com/cube2222/octosql/zzverif/vx"
)

// ---------- row identity (branch-free) on NULL | Int | Time cells ----------

// cellEq: Value.Compare-equality on NULL | Int | Time(whole seconds, wall-clock encoded) cells.
func cellEq(a, b octosql.Value) bool {
	return zzverif.And(a.TypeID == b.TypeID, zzverif.And(a.Int == b.Int, a.Time.Unix() == b.Time.Unix()))
}

func rowEq(a, b []octosql.Value) bool {
	if len(a) != len(b) {
		return false
	}
	eq := true
	for i := range a {
		eq = zzverif.And(eq, cellEq(a[i], b[i]))
	}
	return eq
}

// count is the signed multiplicity of row x in the changelog.
func count(recs []execution.Record, x []octosql.Value) int {
	n := 0
	for _, r := range recs {
		d := 1
		if r.Retraction {
			d = -1
		}
		n += zzverif.IteInt(rowEq(r.Values, x), d, 0)
	}
	return n
}

func sameMultiset(a, b []execution.Record) bool {
	ok := true
	for _, r := range a {
		ok = zzverif.And(ok, count(a, r.Values) == count(b, r.Values))
	}
	for _, r := range b {
		ok = zzverif.And(ok, count(a, r.Values) == count(b, r.Values))
	}
	return ok
}

func validChangelog(recs []execution.Record) bool {
	ok := true
	for i, r := range recs {
		if r.Retraction {
			ok = zzverif.And(ok, count(recs[:i+1], r.Values) >= 0)
		}
	}
	return ok
}

// ---------- reference aggregates over a group (branch-free) ----------

// Aggregate kinds of the group-by harnesses (indices into AggNames).
const (
	gCount         = 0
	gCountDistinct = 1
	gSum           = 2
	gSumDistinct   = 3
	gAvg           = 4
	gAvgDistinct   = 5
	gMin           = 6
	gMax           = 7
)

// AggSet returns the aggregate list of the harness parameter AGGSET:
// 0: count, sum, min   1: count, sum, min, max   2: count_distinct, sum_distinct, max
// 3: count, avg, avg_distinct
func AggSet(set int) []int {
	switch set {
	case 0:
		return []int{gCount, gSum, gMin}
	case 1:
		return []int{gCount, gSum, gMin, gMax}
	case 2:
		return []int{gCountDistinct, gSumDistinct, gMax}
	case 3:
		return []int{gCount, gAvg, gAvgDistinct}
	}
	panic("vagg: bad AGGSET")
}

// refItem is one row of the consolidated input seen from one group: membership, aggregate input.
type refItem struct {
	in bool          // the row's key equals the group's key
	v  octosql.Value // Int | NULL
}

func nullableInt(nonNull bool, x int64) octosql.Value {
	return octosql.Value{
		TypeID: octosql.TypeID(zzverif.IteInt(nonNull, int(octosql.TypeIDInt), int(octosql.TypeIDNull))),
		Int:    zzverif.IteInt64(nonNull, x, 0),
	}
}

// refAgg is the reference value of aggregate kind over a group of the consolidated input (a plain
// multiset of rows): the aggregate of the group's non-NULL inputs, NULL when there is none
// (DESIGN 5.0). Branch-free.
func refAgg(kind int, items []refItem) octosql.Value {
	n := len(items)
	use := make([]bool, n) // member of the group with a non-NULL input
	for i, it := range items {
		use[i] = zzverif.And(it.in, it.v.TypeID == octosql.TypeIDInt)
	}
	var cnt, sum int64
	for i, it := range items {
		cnt += zzverif.IteInt64(use[i], 1, 0)
		sum += zzverif.IteInt64(use[i], it.v.Int, 0)
	}
	nonEmpty := cnt > 0
	switch kind {
	case gCount:
		return nullableInt(nonEmpty, cnt)
	case gSum:
		return nullableInt(nonEmpty, sum)
	case gAvg:
		return nullableInt(nonEmpty, divSmall(sum, cnt, n))
	case gCountDistinct, gSumDistinct, gAvgDistinct:
		var dc, ds int64
		for i := range items {
			first := use[i] // no earlier used item carries the same value
			for j := 0; j < i; j++ {
				first = zzverif.And(first, zzverif.Not(zzverif.And(use[j], items[j].v.Int == items[i].v.Int)))
			}
			dc += zzverif.IteInt64(first, 1, 0)
			ds += zzverif.IteInt64(first, items[i].v.Int, 0)
		}
		switch kind {
		case gCountDistinct:
			return nullableInt(nonEmpty, dc)
		case gSumDistinct:
			return nullableInt(nonEmpty, ds)
		}
		return nullableInt(nonEmpty, divSmall(ds, dc, n))
	case gMin, gMax:
		var best int64
		have := false
		for i := range items {
			x := items[i].v.Int
			better := x < best
			if kind == gMax {
				better = x > best
			}
			take := zzverif.And(use[i], zzverif.Or(zzverif.Not(have), better))
			best = zzverif.IteInt64(take, x, best)
			have = zzverif.Or(have, use[i])
		}
		return nullableInt(nonEmpty, best)
	}
	panic("vagg: no reference for aggregate")
}

// divSmall is a / b with Go truncation for b in 1..n (0 otherwise): a case split over b keeps every
// divisor constant.
func divSmall(a, b int64, n int) int64 {
	var q int64
	for c := int64(1); c <= int64(n); c++ {
		q = zzverif.IteInt64(b == c, a/c, q)
	}
	return q
}

// GroupSpec describes a group-by over source rows: key columns, the aggregate input column and the
// aggregate kinds.
type GroupSpec struct {
	KeyCols []int
	ValCol  int
	Aggs    []int
}

func (s GroupSpec) keyOf(r execution.Record) []octosql.Value {
	out := make([]octosql.Value, len(s.KeyCols))
	for i, c := range s.KeyCols {
		out[i] = r.Values[c]
	}
	return out
}

func (s GroupSpec) prototypes() ([]func() nodes.Aggregate, []execution.Expression, []execution.Expression) {
	protos := make([]func() nodes.Aggregate, len(s.Aggs))
	exprs := make([]execution.Expression, len(s.Aggs))
	for i, a := range s.Aggs {
		protos[i] = Prototype(a, VTInt)
		exprs[i] = execution.NewVariable(0, s.ValCol)
	}
	keys := make([]execution.Expression, len(s.KeyCols))
	for i, c := range s.KeyCols {
		keys[i] = execution.NewVariable(0, c)
	}
	return protos, exprs, keys
}

// Simple builds the real SimpleGroupBy (what physical.Node.Materialize builds for the plain
// end-of-stream trigger).
func (s GroupSpec) Simple(src execution.Node) execution.Node {
	protos, exprs, keys := s.prototypes()
	return nodes.NewSimpleGroupBy(protos, exprs, keys, src)
}

// Custom builds the real CustomTriggerGroupBy (what Materialize builds for every other trigger).
func (s GroupSpec) Custom(src execution.Node, keyEventTimeIndex int, trigger func() execution.Trigger) execution.Node {
	protos, exprs, keys := s.prototypes()
	return nodes.NewCustomTriggerGroupBy(protos, exprs, keys, keyEventTimeIndex, src, trigger)
}

// refRow is the reference output row of the group of row g of the consolidated input `net` (a plain
// multiset of rows: the additions that were never retracted).
func (s GroupSpec) refRow(net []execution.Record, g int) []octosql.Value {
	key := s.keyOf(net[g])
	items := make([]refItem, len(net))
	for j, r := range net {
		items[j] = refItem{in: rowEq(s.keyOf(r), key), v: r.Values[s.ValCol]}
	}
	row := append([]octosql.Value{}, key...)
	for _, a := range s.Aggs {
		row = append(row, refAgg(a, items))
	}
	return row
}

func (s GroupSpec) refRows(net []execution.Record) [][]octosql.Value {
	refs := make([][]octosql.Value, len(net))
	for g := range net {
		refs[g] = s.refRow(net, g)
	}
	return refs
}

// AssertMatches asserts that the consolidated output `out` is the reference grouping of the
// consolidated input `net`: exactly one row per distinct key of net (NULL is a key), equal to the
// reference row of that group (tag+"-group-row-once"), and no other row (tag+"-no-other-row").
func (s GroupSpec) AssertMatches(net, out []execution.Record, tag string) {
	refs := s.refRows(net)
	ok := true
	for g := range net {
		ok = zzverif.And(ok, count(out, refs[g]) == 1)
	}
	zzverif.Assert(ok, tag+"-group-row-once")
	ok = true
	for _, o := range out {
		match := false
		for g := range net {
			match = zzverif.Or(match, rowEq(o.Values, refs[g]))
		}
		ok = zzverif.And(ok, count(out, o.Values) == zzverif.IteInt(match, 1, 0))
	}
	zzverif.Assert(ok, tag+"-no-other-row")
}

// NDChangelog returns a valid changelog of exactly L events over rows of `cols` Int|NULL cells
// (zero event times) like vx.NDChangelog, together with its consolidation `net`: the additions that
// were never retracted (known concretely because retractions are chosen by position).
func NDChangelog(name string, L, cols int) (recs, net []execution.Record) {
	var live []int
	for i := 0; i < L; i++ {
		k := zzverif.Choice(fmt.Sprintf("%s.e%d", name, i), 1+len(live))
		if k == 0 {
			recs = append(recs, execution.NewRecord(vx.NDRow(fmt.Sprintf("%s.e%d", name, i), cols), false, time.Time{}))
			live = append(live, len(recs)-1)
		} else {
			idx := live[k-1]
			live = append(live[:k-1:k-1], live[k:]...)
			vals := make([]octosql.Value, cols)
			copy(vals, recs[idx].Values)
			recs = append(recs, execution.NewRecord(vals, true, time.Time{}))
		}
	}
	for _, idx := range live {
		net = append(net, recs[idx])
	}
	return recs, net
}

// restrictVals assumes every non-NULL aggregate input lies in [0, dom) (dom == 0: no restriction).
func restrictVals(in []execution.Record, col, dom int) {
	if dom <= 0 {
		return
	}
	for _, r := range in {
		if r.Retraction {
			continue // carries the value of an earlier addition
		}
		x := r.Values[col].Int
		zzverif.Assume(zzverif.And(x >= 0, x < int64(dom)))
	}
}
