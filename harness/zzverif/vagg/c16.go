package vagg

import (
	"fmt"

	"github.com/cube2222/octosql/execution"
	"github.com/cube2222/octosql/octosql"
	"github.com/cube2222/octosql/zzverif"
	"github.com/cube2222/octosql/zzverif/vx"
)

// NDStream returns a watermarked input stream of exactly L messages over rows
// [event time, key Int|NULL, value Int|NULL]: every message is the addition of a fresh symbolic
// row, the retraction of an earlier addition that is still live (valid by construction) or a
// watermark that is >= the previous one (monotone). Event times and watermarks are whole seconds
// in [0, tdom). With late == 0 no record (addition or retraction) carries an event time <= the
// last watermark (the convention of max_diff_watermark: on-time means strictly after).
// It also returns the records in arrival order and the consolidated input `net` (the additions
// that were never retracted; known concretely because retractions are chosen by position).
//
// tz == 1: the event time of every addition is forked over the Local / UTC representation of the
// instant. mixed is the (symbolic) condition "two additions with different keys carry the same
// instant in different representations".
func NDStream(name string, L, tdom, late, tz int) (msgs []vx.Msg, recs, net []execution.Record, mixed bool) {
	var live []int // indices in recs
	var secs []int64
	var utcs []bool
	wmSet := false
	var wm int64
	for i := 0; i < L; i++ {
		k := zzverif.Choice(fmt.Sprintf("%s.e%d", name, i), 2+len(live))
		switch {
		case k == 0: // addition
			t, s := NDTime(fmt.Sprintf("%s.t%d", name, i), tdom)
			if late == 0 && wmSet {
				zzverif.Assume(s > wm)
			}
			utc := false
			if tz == 1 && zzverif.Choice(fmt.Sprintf("%s.t%d.utc", name, i), 2) == 1 {
				t, utc = t.UTC(), true
			}
			row := []octosql.Value{octosql.NewTime(t), vx.NDCell(fmt.Sprintf("%s.k%d", name, i)), vx.NDCell(fmt.Sprintf("%s.v%d", name, i))}
			rec := execution.NewRecord(row, false, t)
			for j := range recs {
				if !recs[j].Retraction && utcs[j] != utc {
					mixed = zzverif.Or(mixed, zzverif.And(secs[j] == s, zzverif.Not(cellEq(recs[j].Values[1], row[1]))))
				}
			}
			recs = append(recs, rec)
			secs = append(secs, s)
			utcs = append(utcs, utc)
			live = append(live, len(recs)-1)
			msgs = append(msgs, vx.Msg{Kind: vx.MsgRecord, Rec: rec})
		case k == 1: // watermark
			t, s := NDTime(fmt.Sprintf("%s.w%d", name, i), tdom)
			if wmSet {
				zzverif.Assume(s >= wm)
			}
			wmSet, wm = true, s
			msgs = append(msgs, vx.Msg{Kind: vx.MsgWatermark, Watermark: t})
		default: // retraction of live[k-2]
			idx := live[k-2]
			live = append(live[:k-2:k-2], live[k-1:]...)
			if late == 0 && wmSet {
				zzverif.Assume(secs[idx] > wm)
			}
			vals := make([]octosql.Value, len(recs[idx].Values))
			copy(vals, recs[idx].Values)
			rec := execution.NewRecord(vals, true, recs[idx].EventTime)
			recs = append(recs, rec)
			secs = append(secs, secs[idx])
			utcs = append(utcs, utcs[idx])
			msgs = append(msgs, vx.Msg{Kind: vx.MsgRecord, Rec: rec})
		}
	}
	for _, idx := range live {
		net = append(net, recs[idx])
	}
	return msgs, recs, net, mixed
}

// VerifC16Triggers: CustomTriggerGroupBy under every trigger set over a watermarked stream with
// retractions; the consolidated output at end of stream must be the reference grouping of the
// consolidated input (one row per key with the aggregates of its non-NULL inputs), i.e. what the
// plain batch group-by returns - whatever the triggers emitted and retracted on the way.
//
// Params: L number of stream messages; TRIG trigger set bit mask (1 counting, 2 watermark, 4 end of
// stream; 0 = all seven non-empty subsets, forked); N counting threshold (0 = forked over 1..3);
// TDOM number of instants; LATE 0/1 (see NDStream); BYTIME 1 = GROUP BY (event time, key) with
// KeyEventTimeIndex 0 (required by the planner for ON WATERMARK), 0 = GROUP BY key only
// (KeyEventTimeIndex -1; trigger sets containing ON WATERMARK are skipped, the planner rejects
// them); AGGSET / VDOM as in VerifC03GroupBy; SIMPLE 1 = also run SimpleGroupBy on the same stream
// and compare the two consolidated outputs; TZ 1 = event times forked over Local / UTC
// representations of the instant; WMCHECK 1 = node-level C17 assertions at every forwarded
// watermark (trigger sets containing ON WATERMARK, LATE=0); TCONC 1 = instants forked concretely (same domain).
func VerifC16Triggers() {
	L := zzverif.Param("L")
	mask := zzverif.Param("TRIG")
	n := zzverif.Param("N")
	tdom := zzverif.Param("TDOM")
	late := zzverif.Param("LATE")
	byTime := zzverif.Param("BYTIME")
	ConcreteTimes = zzverif.Param("TCONC") == 1
	if mask == 0 {
		mask = 1 + zzverif.Choice("trig", 7)
	}
	if byTime == 0 && mask&TrigWatermark != 0 {
		return
	}
	if mask&TrigCounting == 0 {
		n = 1
	} else if n == 0 {
		n = 1 + zzverif.Choice("n", 3)
	}
	spec := GroupSpec{KeyCols: []int{0, 1}, ValCol: 2, Aggs: AggSet(zzverif.Param("AGGSET"))}
	timeIdx := 0
	if byTime == 0 {
		spec.KeyCols = []int{1}
		timeIdx = -1
	}

	msgs, in, net, mixed := NDStream("s", L, tdom, late, zzverif.Param("TZ"))
	restrictVals(in, spec.ValCol, zzverif.Param("VDOM"))

	// Known finding (see VerifC17Trigger): the watermark trigger's btree identifies two different
	// group keys whose event times are the same instant in different time.Time representations, so
	// one of the two groups is never polled and its result never reaches the output.
	zzverif.Known("C16-watermark-trigger-time-identity", zzverif.And(mask&TrigWatermark != 0, mixed))

	sink := &vx.Sink{}
	trig := TriggerPrototype(mask, n, 0)
	err := vx.RunNode(spec.Custom(vx.NewScriptSource(msgs), timeIdx, trig), sink)
	zzverif.Reach("ran")
	zzverif.Assert(err == nil, "no-error")
	out := sink.Records()
	spec.AssertMatches(net, out, "final")
	zzverif.Assert(validChangelog(out), "output-changelog-valid")

	// C17, node level (ON WATERMARK): when a watermark W is forwarded, the output emitted so far
	// already holds the current result of every key whose event time is <= W (with no late data
	// that is the key's final reference row, because the group key contains the event time), holds
	// nothing else for such keys, and - with ON WATERMARK as the only trigger - nothing beyond W.
	if zzverif.Param("WMCHECK") == 1 && mask&TrigWatermark != 0 && byTime == 1 && late == 0 {
		refs := spec.refRows(net)
		for p, m := range sink.Out {
			if m.Kind != vx.MsgWatermark {
				continue
			}
			w := m.Watermark.Unix()
			var prefix []execution.Record
			for _, q := range sink.Out[:p] {
				if q.Kind == vx.MsgRecord {
					prefix = append(prefix, q.Rec)
				}
			}
			zzverif.Reach("watermark-forwarded")
			ok := true
			for g := range net {
				due := net[g].Values[0].Time.Unix() <= w
				ok = zzverif.And(ok, zzverif.Implies(due, count(prefix, refs[g]) == 1))
			}
			zzverif.Assert(ok, "at-watermark-result-of-every-due-key-present")
			ok = true
			notBeyond := true
			for _, o := range prefix {
				due := o.Values[0].Time.Unix() <= w
				match := false
				for g := range net {
					match = zzverif.Or(match, rowEq(o.Values, refs[g]))
				}
				ok = zzverif.And(ok, zzverif.Implies(due, count(prefix, o.Values) == zzverif.IteInt(match, 1, 0)))
				notBeyond = zzverif.And(notBeyond, due)
			}
			zzverif.Assert(ok, "at-watermark-no-stale-row-of-a-due-key")
			if mask == TrigWatermark {
				zzverif.Assert(notBeyond, "no-key-beyond-watermark-emitted")
			}
		}
	}

	if zzverif.Param("SIMPLE") == 1 {
		sink2 := &vx.Sink{}
		err := vx.RunNode(spec.Simple(vx.NewScriptSource(msgs)), sink2)
		zzverif.Assert(err == nil, "no-error")
		zzverif.Assert(sameMultiset(out, sink2.Records()), "same-as-simple-group-by")
	}
}
