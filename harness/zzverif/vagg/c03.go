package vagg

import (
	"github.com/cube2222/octosql/execution"
	"github.com/cube2222/octosql/zzverif"
	"github.com/cube2222/octosql/zzverif/vx"
)

// VerifC03GroupBy: the real group-by nodes over a symbolic table (or changelog) against the
// reference grouping of the consolidated input.
//
// Params: N max rows (RETR=0: a table of 0..N rows, additions only) or exact number of changelog
// events (RETR=1: valid changelog with retractions); KEYS number of key columns (0..2), each
// Int|NULL; one aggregate input column Int|NULL feeding every aggregate of AGGSET (see AggSet);
// VDOM 0 = aggregate inputs range over all of int64, > 0 = over [0, VDOM);
// IMPL 0 = SimpleGroupBy, 1 = CustomTriggerGroupBy with the end-of-stream trigger, 2 = both, also
// compared with each other.
func VerifC03GroupBy() {
	n := zzverif.Param("N")
	retr := zzverif.Param("RETR")
	nkeys := zzverif.Param("KEYS")
	impl := zzverif.Param("IMPL")
	spec := GroupSpec{ValCol: nkeys, Aggs: AggSet(zzverif.Param("AGGSET"))}
	for i := 0; i < nkeys; i++ {
		spec.KeyCols = append(spec.KeyCols, i)
	}

	var in, net []execution.Record
	if retr == 1 {
		in, net = NDChangelog("t", n, nkeys+1)
	} else {
		for _, row := range vx.NDTable("t", n, nkeys+1) {
			in = append(in, execution.Record{Values: row})
		}
		net = in
	}

	restrictVals(in, spec.ValCol, zzverif.Param("VDOM"))

	var outS, outC []execution.Record
	if impl == 0 || impl == 2 {
		sink := &vx.Sink{}
		err := vx.RunNode(spec.Simple(vx.NewScriptSource(vx.RecordsToMsgs(in))), sink)
		zzverif.Assert(err == nil, "no-error")
		outS = sink.Records()
		zzverif.Reach("simple-ran")
		spec.AssertMatches(net, outS, "simple")
	}
	if impl == 1 || impl == 2 {
		sink := &vx.Sink{}
		err := vx.RunNode(spec.Custom(vx.NewScriptSource(vx.RecordsToMsgs(in)), -1, TriggerPrototype(TrigEOS, 1, 0)), sink)
		zzverif.Assert(err == nil, "no-error")
		outC = sink.Records()
		zzverif.Reach("custom-ran")
		spec.AssertMatches(net, outC, "custom-eos")
		zzverif.Assert(validChangelog(outC), "custom-output-changelog-valid")
	}
	if impl == 2 {
		zzverif.Assert(sameMultiset(outS, outC), "simple-equals-custom")
	}
}
