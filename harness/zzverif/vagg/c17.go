package vagg

import (
	"context"
	"fmt"
	"time"

	"github.com/cube2222/octosql/execution"
	"github.com/cube2222/octosql/octosql"
	"github.com/cube2222/octosql/physical"
	"github.com/cube2222/octosql/zzverif"
)

// Trigger set bit mask (param TRIG).
const (
	TrigCounting  = 1
	TrigWatermark = 2
	TrigEOS       = 4
)

// TriggerPrototype builds the trigger prototype the way the planner does: physical.Trigger values
// (a single trigger, or a MultiTrigger of the set in the order counting, watermark, end of stream)
// materialised through physical.Trigger.Materialize. The watermark trigger reads the event time
// from key column timeIdx.
func TriggerPrototype(mask, n, timeIdx int) func() execution.Trigger {
	var ts []physical.Trigger
	if mask&TrigCounting != 0 {
		ts = append(ts, physical.Trigger{TriggerType: physical.TriggerTypeCounting, CountingTrigger: &physical.CountingTrigger{TriggerAfter: uint(n)}})
	}
	if mask&TrigWatermark != 0 {
		ts = append(ts, physical.Trigger{TriggerType: physical.TriggerTypeWatermark, WatermarkTrigger: &physical.WatermarkTrigger{TimeFieldIndex: timeIdx}})
	}
	if mask&TrigEOS != 0 {
		ts = append(ts, physical.Trigger{TriggerType: physical.TriggerTypeEndOfStream, EndOfStreamTrigger: &physical.EndOfStreamTrigger{}})
	}
	var t physical.Trigger
	if len(ts) == 1 {
		t = ts[0]
	} else {
		t = physical.Trigger{TriggerType: physical.TriggerTypeMulti, MultiTrigger: &physical.MultiTrigger{Triggers: ts}}
	}
	return t.Materialize(context.Background(), physical.Environment{})
}

// ConcreteTimes switches NDTime from one symbolic instant (ordering decided by solver queries at
// every comparison) to a forked Choice over the dom instants (comparisons are concrete). Both
// range over exactly the same instants; harnesses set it from their TCONC parameter.
var ConcreteTimes bool

// NDTime returns time.Unix(s, 0) and s, with s ranging over [0, dom).
func NDTime(name string, dom int) (time.Time, int64) {
	if ConcreteTimes {
		s := int64(zzverif.Choice(name, dom))
		return time.Unix(s, 0), s
	}
	s := zzverif.Int64(name)
	zzverif.Assume(zzverif.And(s >= 0, s < int64(dom)))
	return time.Unix(s, 0), s
}

// trigModel is the reference model of a trigger set over two keys.
type trigModel struct {
	mask, n int
	keySec  [2]int64 // event time of the key (seconds since the epoch)
	// counting
	cnt  [2]int  // KeyReceived since the last firing (concrete)
	fire [2]bool // reached n since the last Poll
	// watermark
	pend  [2]bool // received since it was last polled by the watermark trigger (symbolic)
	wmSet bool    // a watermark was received (before that the watermark is Go's zero time)
	wmSec int64   // the last watermark received
	// end of stream
	seen [2]bool
	eos  bool
}

func (m *trigModel) key(k int) {
	m.cnt[k]++
	if m.cnt[k] == m.n {
		m.cnt[k] = 0
		m.fire[k] = true
	}
	m.pend[k] = true
	m.seen[k] = true
}

// poll returns, per key, whether the trigger set must return it now (branch-free), and updates
// the model state.
func (m *trigModel) poll() [2]bool {
	var out [2]bool
	for k := 0; k < 2; k++ {
		c, w, e := false, false, false
		if m.mask&TrigCounting != 0 {
			c = m.fire[k]
			if m.eos && m.cnt[k] > 0 {
				c = true
			}
			m.fire[k] = false
		}
		if m.mask&TrigWatermark != 0 {
			if m.eos {
				w = m.pend[k]
			} else {
				w = zzverif.And(m.pend[k], zzverif.And(m.wmSet, m.keySec[k] <= m.wmSec))
			}
			m.pend[k] = zzverif.And(m.pend[k], zzverif.Not(w))
		}
		if m.mask&TrigEOS != 0 {
			e = m.eos && m.seen[k]
		}
		out[k] = zzverif.Or(c, zzverif.Or(w, e))
	}
	return out
}

// VerifC17Trigger drives the execution.Trigger API with every event sequence of length <= L over
// two keys and compares each Poll() with the reference model.
//
// Params: L max number of events; TRIG bit mask (1 counting, 2 watermark, 4 end of stream; 0 = all
// seven non-empty subsets, forked); N counting threshold (0 = forked over 1..3); TDOM number of
// distinct instants for key times and watermarks; MODE 0 = free sequences (Poll is an event of its
// own), 1 = node discipline (every KeyReceived / WatermarkReceived is followed by one Poll, as
// CustomTriggerGroupBy does) where additionally no key may be returned twice by a single
// (non-multi) trigger. TZ 1 = each key time is forked over the Local / UTC representation of the
// same instant (time.Unix(s,0) vs time.Unix(s,0).UTC()), 0 = always time.Unix(s,0). TCONC 1 =
// instants are forked concretely instead of symbolic (same domain).
func VerifC17Trigger() {
	L := zzverif.Param("L")
	mask := zzverif.Param("TRIG")
	n := zzverif.Param("N")
	tdom := zzverif.Param("TDOM")
	mode := zzverif.Param("MODE")
	tz := zzverif.Param("TZ")
	ConcreteTimes = zzverif.Param("TCONC") == 1
	if mask == 0 {
		mask = 1 + zzverif.Choice("trig", 7)
	}
	if mask&TrigCounting == 0 {
		n = 1
	} else if n == 0 {
		n = 1 + zzverif.Choice("n", 3)
	}
	single := mask == TrigCounting || mask == TrigWatermark || mask == TrigEOS

	m := &trigModel{mask: mask, n: n}
	var keys [2]execution.GroupKey
	var keyTime [2]time.Time
	var utc [2]bool
	for k := 0; k < 2; k++ {
		keyTime[k], m.keySec[k] = NDTime(fmt.Sprintf("t%d", k), tdom)
		if tz == 1 && zzverif.Choice(fmt.Sprintf("t%d.utc", k), 2) == 1 {
			keyTime[k] = keyTime[k].UTC() // same instant, different representation (Location)
			utc[k] = true
		}
		keys[k] = execution.GroupKey{octosql.NewTime(keyTime[k]), octosql.NewInt(int64(k))}
	}
	trig := TriggerPrototype(mask, n, 0)()

	// Known finding: watermarkTriggerKey.Less tests `key.Time == than.Time` (struct identity: wall,
	// ext, *Location) and otherwise orders by Before only, so two DIFFERENT group keys whose event
	// times are the same instant in different representations compare "equal" in the trigger's
	// btree; ReplaceOrInsert then drops one of them and that key is never polled.
	zzverif.Known("C17-watermark-trigger-time-identity",
		zzverif.And(mask&TrigWatermark != 0, zzverif.And(utc[0] != utc[1], m.keySec[0] == m.keySec[1])))

	check := func(tag string) {
		want := m.poll()
		polled := trig.Poll()
		var got [2]int
		for _, key := range polled {
			zzverif.Assert(len(key) == 2, "polled-key-shape")
			id := int(key[1].Int) // concrete: 0 or 1
			zzverif.Assert(id == 0 || id == 1, "polled-key-known")
			zzverif.Assert(zzverif.And(key[0].TypeID == octosql.TypeIDTime, key[0].Time.Unix() == m.keySec[id]), "polled-key-intact")
			got[id]++
		}
		for k := 0; k < 2; k++ {
			zzverif.Assert((got[k] > 0) == want[k], tag)
			if mode == 1 && single {
				zzverif.Assert(got[k] <= 1, "single-trigger-polls-key-at-most-once")
			}
		}
	}

	steps := zzverif.Choice("len", L+1)
	nk := 3
	if mode == 0 {
		nk = 4 // Poll is an event of its own
	}
	for i := 0; i < steps; i++ {
		ev := zzverif.Choice(fmt.Sprintf("ev%d", i), nk)
		switch ev {
		case 0, 1:
			trig.KeyReceived(keys[ev])
			m.key(ev)
		case 2:
			w, ws := NDTime(fmt.Sprintf("w%d", i), tdom)
			trig.WatermarkReceived(w)
			m.wmSet, m.wmSec = true, ws
		case 3:
			check("poll-matches-model")
		}
		if mode == 1 {
			check("poll-matches-model")
		}
	}
	zzverif.Reach("sequence-done")
	if zzverif.Choice("eos", 2) == 1 {
		trig.EndOfStreamReached()
		m.eos = true
		check("end-of-stream-poll-matches-model")
	}
}
