// Package vagg holds the harnesses for the aggregate / trigger / group-by properties
// (C14, C17, C16, C03) of the /verif machinery (injected by overlay; not part of the repository).
package vagg

import (
	"fmt"
	"time"

	"github.com/cube2222/octosql/aggregates"
	"github.com/cube2222/octosql/execution/nodes"
	"github.com/cube2222/octosql/octosql"
	"github.com/cube2222/octosql/zzverif"
)

// Value kinds of the aggregate input (param VT).
const (
	VTInt = iota
	VTFloat
	VTDuration
	VTTime // only count, count_distinct, max, array_agg, array_agg_distinct accept it
)

// AggNames is the catalogue of aggregates.Aggregates indexed by the harness parameter AGG.
var AggNames = []string{
	"count",              // 0
	"count_distinct",     // 1
	"sum",                // 2
	"sum_distinct",       // 3
	"avg",                // 4
	"avg_distinct",       // 5
	"min",                // 6
	"max",                // 7
	"array_agg",          // 8
	"array_agg_distinct", // 9
}

// isFloatSum: aggregates whose Float variant accumulates with IEEE + and - (order dependent).
func isFloatSum(agg int) bool { return agg >= 2 && agg <= 5 }

// Prototype returns the real prototype registered in aggregates.Aggregates for aggregate AGG on
// values of kind vt (the overload whose argument type is vt; count and array_agg have one overload);
// nil when the aggregate has no overload for vt.
func Prototype(agg, vt int) func() nodes.Aggregate {
	det, ok := aggregates.Aggregates[AggNames[agg]]
	if !ok {
		panic("vagg: unknown aggregate " + AggNames[agg])
	}
	if len(det.Descriptors) == 1 {
		return det.Descriptors[0].Prototype
	}
	want := []octosql.TypeID{octosql.TypeIDInt, octosql.TypeIDFloat, octosql.TypeIDDuration, octosql.TypeIDTime}[vt]
	for _, d := range det.Descriptors {
		if d.ArgumentType.TypeID == want {
			return d.Prototype
		}
	}
	return nil // no overload for this argument type (e.g. min(Time), sum(Time))
}

// FloatSumDomain is the value table of Float inputs to sum/avg (and their DISTINCT variants): small
// integers (|v| < 2^26), for which every partial sum of a bounded history is exactly representable,
// so "within rounding error" degenerates to equality. The values are CONCRETE (forked Choice): the
// SMT FloatingPoint encoding of symbolic int->float conversions plus +/- chains is not decided by
// the back ends within the budget.
var FloatSumDomain = []float64{0, 1, -1, 2, 67108863, -67108863, 3, -2}

// NDVal returns a fresh non-NULL value of kind vt. Int and Duration: symbolic over all 64-bit
// patterns, or over [0, dom) when dom > 0. Float: symbolic over all bit patterns (NaN, +-0, +-Inf
// included), or over [0, dom) integers when dom > 0; with floatSum set the value is instead one of
// the first fdom entries of FloatSumDomain (forked).
func NDVal(name string, vt int, floatSum bool, dom, fdom int) octosql.Value {
	switch vt {
	case VTInt:
		x := zzverif.Int64(name)
		if dom > 0 {
			zzverif.Assume(zzverif.And(x >= 0, x < int64(dom)))
		}
		return octosql.NewInt(x)
	case VTFloat:
		if floatSum {
			return octosql.NewFloat(FloatSumDomain[zzverif.Choice(name+".f", fdom)])
		}
		if dom > 0 {
			x := zzverif.Int64(name)
			zzverif.Assume(zzverif.And(x >= 0, x < int64(dom)))
			return octosql.NewFloat(float64(x))
		}
		return octosql.NewFloat(zzverif.Float64(name))
	case VTDuration:
		x := zzverif.Int64(name)
		if dom > 0 {
			zzverif.Assume(zzverif.And(x >= 0, x < int64(dom)))
		}
		return octosql.NewDuration(time.Duration(x))
	case VTTime:
		// whole seconds in 1970..2200 (or [0, dom)), forked over the Local / UTC representation
		x := zzverif.Int64(name)
		if dom > 0 {
			zzverif.Assume(zzverif.And(x >= 0, x < int64(dom)))
		} else {
			zzverif.Assume(zzverif.And(x >= 0, x < 7258118400))
		}
		t := time.Unix(x, 0)
		if zzverif.Choice(name+".utc", 2) == 1 {
			t = t.UTC()
		}
		return octosql.NewTime(t)
	}
	panic("vagg: bad value kind")
}

// ValEq is Value.Compare-equality (row identity: NULL = NULL, all NaNs equal, +0 = -0, times by
// instant) on the value shapes the aggregates can return here (NULL, Int, Float, Duration, Time
// in whole seconds, List of those), branch-free
// on scalars. List lengths are concrete.
func ValEq(a, b octosql.Value) bool {
	if a.TypeID == octosql.TypeIDList || b.TypeID == octosql.TypeIDList {
		if a.TypeID != b.TypeID || len(a.List) != len(b.List) {
			return false
		}
		eq := true
		for i := range a.List {
			eq = zzverif.And(eq, ValEq(a.List[i], b.List[i]))
		}
		return eq
	}
	feq := zzverif.Or(zzverif.F64Eq(a.Float, b.Float), zzverif.And(zzverif.F64IsNaN(a.Float), zzverif.F64IsNaN(b.Float)))
	return zzverif.And(a.TypeID == b.TypeID,
		zzverif.And(a.Int == b.Int, zzverif.And(a.Duration == b.Duration, zzverif.And(feq, a.Time.Unix() == b.Time.Unix()))))
}

// Step is one element of an aggregate history.
type Step struct {
	Retraction bool
	Value      octosql.Value
}

// NDHistory returns a valid history of exactly L steps and its net multiset: every step adds a
// fresh symbolic value or retracts an earlier addition that is still live (chosen by a forked
// Choice, so the history is valid by construction: it never retracts an absent value).
func NDHistory(name string, L, vt int, floatSum bool, dom, fdom int) (hist []Step, net []octosql.Value) {
	var live []int
	for i := 0; i < L; i++ {
		k := zzverif.Choice(fmt.Sprintf("%s.e%d", name, i), 1+len(live))
		if k == 0 {
			hist = append(hist, Step{Value: NDVal(fmt.Sprintf("%s.v%d", name, i), vt, floatSum, dom, fdom)})
			live = append(live, len(hist)-1)
		} else {
			idx := live[k-1]
			live = append(live[:k-1:k-1], live[k:]...)
			hist = append(hist, Step{Retraction: true, Value: hist[idx].Value})
		}
	}
	for _, idx := range live {
		net = append(net, hist[idx].Value)
	}
	return hist, net
}
