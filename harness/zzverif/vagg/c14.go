package vagg

import (
	"time"

	"github.com/cube2222/octosql/octosql"
	"github.com/cube2222/octosql/zzverif"
)

// scalar returns the int64 payload of an Int or Duration value (branch-free).
func scalar(v octosql.Value, vt int) int64 {
	if vt == VTDuration {
		return int64(v.Duration)
	}
	return v.Int
}

func mkScalar(x int64, vt int) octosql.Value {
	if vt == VTDuration {
		return octosql.NewDuration(time.Duration(x))
	}
	return octosql.NewInt(x)
}

// distinctMask[i] = net[i] is the first occurrence of its value in net (branch-free).
func distinctMask(net []octosql.Value) []bool {
	out := make([]bool, len(net))
	for i := range net {
		first := true
		for j := 0; j < i; j++ {
			first = zzverif.And(first, zzverif.Not(ValEq(net[i], net[j])))
		}
		out[i] = first
	}
	return out
}

// refScalar is an implementation-independent reference for the scalar aggregates over the net
// multiset (Int / Duration inputs; count for every kind). ok=false: no independent reference.
func refScalar(agg, vt int, net []octosql.Value) (octosql.Value, bool) {
	mask := make([]bool, len(net))
	for i := range mask {
		mask[i] = true
	}
	if agg == 1 || agg == 3 || agg == 5 {
		mask = distinctMask(net)
	}
	var cnt int64
	for i := range net {
		cnt += zzverif.IteInt64(mask[i], 1, 0)
	}
	if agg == 0 || agg == 1 {
		return octosql.NewInt(cnt), true
	}
	if vt == VTFloat || vt == VTTime {
		return octosql.Value{}, false
	}
	switch agg {
	case 2, 3, 4, 5:
		var sum int64
		for i := range net {
			sum += zzverif.IteInt64(mask[i], scalar(net[i], vt), 0)
		}
		if agg <= 3 {
			return mkScalar(sum, vt), true
		}
		// avg = sum / count with Go truncation (DESIGN 5.0); cnt >= 1 because net is non-empty.
		zzverif.Assume(cnt >= 1)
		return mkScalar(sum/cnt, vt), true
	case 6, 7:
		best := scalar(net[0], vt)
		for i := 1; i < len(net); i++ {
			x := scalar(net[i], vt)
			if agg == 6 {
				best = zzverif.IteInt64(x < best, x, best)
			} else {
				best = zzverif.IteInt64(x > best, x, best)
			}
		}
		return mkScalar(best, vt), true
	}
	return octosql.Value{}, false
}

// VerifC14History: a valid add/retract history of 1..L steps with a non-empty net multiset is fed to
// the real aggregate AGG (prototype taken from aggregates.Aggregates); its Trigger() must equal
// the Trigger() of a fresh aggregate of the same kind fed the net multiset once (additions only).
//
// Params: L maximal history length; AGG index into AggNames; VT 0 Int / 1 Float / 2 Duration /
// 3 Time (whole seconds 1970..2200, Local or UTC representation; only for the aggregates that have
// a Time overload: count, count_distinct, max, array_agg, array_agg_distinct);
// DOM 0 = unrestricted values, > 0 = values in [0, DOM); FDOM = number of FloatSumDomain entries.
// Float inputs of sum/avg (and their DISTINCT variants) are restricted to the integers of
// FloatSumDomain (|v| < 2^26, every partial sum exact); for other Float values the float-sum
// assertion is not made (the property only grants "within rounding error" there).
func VerifC14History() {
	L := zzverif.Param("L")
	agg := zzverif.Param("AGG")
	vt := zzverif.Param("VT")
	dom := zzverif.Param("DOM")

	fdom := zzverif.Param("FDOM")

	proto := Prototype(agg, vt)
	if proto == nil {
		return // the aggregate has no overload for this value kind
	}
	steps := 1 + zzverif.Choice("len", L) // every history length 1..L
	hist, net := NDHistory("h", steps, vt, vt == VTFloat && isFloatSum(agg), dom, fdom)
	if len(net) == 0 {
		return // the property quantifies over non-empty net multisets
	}
	zzverif.Reach("non-empty-net")

	real := proto()
	// OBS=1: the value is additionally READ once at an arbitrary intermediate point of the history
	// (whenever the running multiset is non-empty there); reading must not disturb later results.
	obsAt := -1
	if zzverif.Param("OBS") == 1 {
		obsAt = zzverif.Choice("observe-after-step", len(hist))
	}
	running := 0
	for i, s := range hist {
		real.Add(s.Retraction, s.Value)
		if s.Retraction {
			running--
		} else {
			running++
		}
		if i == obsAt && running > 0 && i < len(hist)-1 {
			_ = real.Trigger()
			zzverif.Reach("observed-mid-history")
		}
	}
	got := real.Trigger()

	fresh := proto()
	for _, v := range net {
		fresh.Add(false, v)
	}
	want := fresh.Trigger()

	zzverif.Assert(ValEq(got, want), "history-equals-from-scratch")

	if agg == 8 || agg == 9 {
		// array_agg lists elements in ascending order (C03 text; checked here on the history result)
		asc := true
		for i := 1; i < len(got.List); i++ {
			asc = zzverif.And(asc, got.List[i-1].Compare(got.List[i]) <= 0)
		}
		zzverif.Assert(asc, "array-ascending")
	}
	if ref, ok := refScalar(agg, vt, net); ok {
		zzverif.Assert(ValEq(got, ref), "history-equals-independent-reference")
	}
}
