package vfn2

import (
	"context"
	"fmt"
	"time"

	"github.com/cube2222/octosql/execution"
	"github.com/cube2222/octosql/functions"
	"github.com/cube2222/octosql/octosql"
	"github.com/cube2222/octosql/physical"
	"github.com/cube2222/octosql/table_valued_functions"
	"github.com/cube2222/octosql/zzverif"
	"github.com/cube2222/octosql/zzverif/vx"
)

// scriptDatasource is a physical datasource that materialises into a vx.ScriptSource.
type scriptDatasource struct{ src *vx.ScriptSource }

func (d *scriptDatasource) Materialize(ctx context.Context, env physical.Environment, schema physical.Schema, pushedDownPredicates []physical.Expression) (execution.Node, error) {
	return d.src, nil
}

func (d *scriptDatasource) PushDownPredicates(newPredicates, pushedDownPredicates []physical.Expression) (rejected, pushedDown []physical.Expression, changed bool) {
	return newPredicates, nil, false
}

func durationConst(d time.Duration) physical.TableValuedFunctionArgument {
	return physical.TableValuedFunctionArgument{
		TableValuedFunctionArgumentType: physical.TableValuedFunctionArgumentTypeExpression,
		Expression: &physical.TableValuedFunctionArgumentExpression{Expression: physical.Expression{
			Type:           octosql.Duration,
			ExpressionType: physical.ExpressionTypeConstant,
			Constant:       &physical.Constant{Value: octosql.NewDuration(d)},
		}},
	}
}

// tvfTime: an arbitrary time (SYMT=1) or one of a few sample times (SYMT=0; none of the code under
// test can panic depending on the time value, and symbolic times make every comparison a
// division-by-1e9 query).
func tvfTime(name string) time.Time {
	if zzverif.Param("SYMT") == 1 {
		return octosql.VerifNDScalar(name, octosql.VKTime, 0).Time
	}
	samples := []time.Time{{}, time.Unix(0, 0), time.Unix(1000000000, 5).UTC(), time.Unix(-1, 999999999), time.Unix(253402300800, 0).UTC(), time.Unix(1000000003, 0)}
	return samples[zzverif.Choice(name, len(samples))]
}

// tvfDuration: an arbitrary duration (SYM=1) or one of a few samples around the edge cases.
func tvfDuration(name string, sym bool) time.Duration {
	if sym {
		return time.Duration(zzverif.Int64(name))
	}
	samples := []time.Duration{0, 1, -1, 7, time.Millisecond, -time.Second, time.Hour, -1 << 63, 1<<63 - 1}
	return samples[zzverif.Choice(name, len(samples))]
}

// tvfSource: a table (id Int, t Time) with 0..rows arbitrary records and a watermark in between.
func tvfSource(rows int) (physical.TableValuedFunctionArgument, physical.TableValuedFunctionArgument) {
	n := zzverif.Choice("rows", rows+1)
	var msgs []vx.Msg
	for i := 0; i < n; i++ {
		tv := octosql.NewTime(tvfTime(fmt.Sprintf("r%d.t", i)))
		rec := execution.NewRecord([]octosql.Value{octosql.NewInt(int64(i)), tv}, zzverif.Bool(fmt.Sprintf("r%d.retraction", i)), time.Time{})
		msgs = append(msgs, vx.Msg{Kind: vx.MsgRecord, Rec: rec})
		if i == 0 {
			msgs = append(msgs, vx.Msg{Kind: vx.MsgWatermark, Watermark: tvfTime("wm")})
		}
	}
	fields := []physical.SchemaField{{Name: "id", Type: octosql.Int}, {Name: "t", Type: octosql.Time}}
	table := physical.TableValuedFunctionArgument{
		TableValuedFunctionArgumentType: physical.TableValuedFunctionArgumentTypeTable,
		Table: &physical.TableValuedFunctionArgumentTable{Table: physical.Node{
			Schema:   physical.NewSchema(fields, 1),
			NodeType: physical.NodeTypeDatasource,
			Datasource: &physical.Datasource{
				Name: "src", Alias: "src",
				DatasourceImplementation: &scriptDatasource{src: vx.NewScriptSource(msgs)},
				VariableMapping:          map[string]string{"src.id": "id", "src.t": "t"},
			},
		}},
	}
	descriptor := physical.TableValuedFunctionArgument{
		TableValuedFunctionArgumentType: physical.TableValuedFunctionArgumentTypeDescriptor,
		Descriptor:                      &physical.TableValuedFunctionArgumentDescriptor{Descriptor: "t"},
	}
	return table, descriptor
}

func tvfEnv() physical.Environment {
	return physical.Environment{Functions: functions.FunctionMap(), VariableContext: nil}
}

// VerifC07MaxDiffWatermark: max_diff_watermark(source, max_diff, time_field[, resolution]) with
// arbitrary durations (0 and negatives included) over arbitrary record times never panics.
func VerifC07MaxDiffWatermark() {
	table, descriptor := tvfSource(zzverif.Param("ROWS"))
	maxDiff := tvfDuration("max_diff", zzverif.Param("SYMD") == 1)
	args := map[string]physical.TableValuedFunctionArgument{
		"source": table, "time_field": descriptor, "max_diff": durationConst(maxDiff),
	}
	resolution := time.Second
	if zzverif.Choice("has_resolution", 2) == 1 {
		// x / resolution * resolution over a symbolic 64-bit divisor is out of the solvers' reach
		resolution = tvfDuration("resolution", zzverif.Param("SYMRES") == 1)
		args["resolution"] = durationConst(resolution)
	}
	node, err := table_valued_functions.MaxDiffWatermark.Descriptors[0].Materialize(context.Background(), tvfEnv(), args)
	zzverif.Assert(err == nil, "materialize-no-error")
	zzverif.Reach("materialized")
	zzverif.Known("C07-maxdiff-resolution-zero", zzverif.And(resolution == 0, len(table.Table.Table.Datasource.DatasourceImplementation.(*scriptDatasource).src.Msgs) > 0))
	sink := &vx.Sink{}
	_ = vx.RunNode(node, sink)
	zzverif.Reach("done")
}

// VerifC07Tumble: tumble(source, window_length[, time_field][, offset]) with an arbitrary offset
// (SYMD=1) and an arbitrary (SYMW=1) or sampled window length (Time.Truncate over a symbolic
// divisor is a 64-step long division the solvers do not get through).
func VerifC07Tumble() {
	table, descriptor := tvfSource(zzverif.Param("ROWS"))
	args := map[string]physical.TableValuedFunctionArgument{
		"source": table, "window_length": durationConst(tvfDuration("window_length", zzverif.Param("SYMW") == 1)),
	}
	if zzverif.Choice("has_time_field", 2) == 1 {
		args["time_field"] = descriptor
	}
	if zzverif.Choice("has_offset", 2) == 1 {
		args["offset"] = durationConst(tvfDuration("offset", zzverif.Param("SYMD") == 1))
	}
	node, err := table_valued_functions.Tumble.Descriptors[0].Materialize(context.Background(), tvfEnv(), args)
	zzverif.Assert(err == nil, "materialize-no-error")
	zzverif.Reach("materialized")
	sink := &vx.Sink{}
	_ = vx.RunNode(node, sink)
	zzverif.Reach("done")
}
