package vfn2

import (
	"context"
	"fmt"
	"time"

	"github.com/cube2222/octosql/execution"
	"github.com/cube2222/octosql/functions"
	"github.com/cube2222/octosql/octosql"
	"github.com/cube2222/octosql/physical"
	"github.com/cube2222/octosql/table_valued_functions"
	"github.com/cube2222/octosql/zzverif"
	"github.com/cube2222/octosql/zzverif/vx"
)

// scriptDatasource is a physical datasource that materialises into a vx.ScriptSource.
type scriptDatasource struct{ src *vx.ScriptSource }

func (d *scriptDatasource) Materialize(ctx context.Context, env physical.Environment, schema physical.Schema, pushedDownPredicates []physical.Expression) (execution.Node, error) {
	return d.src, nil
}

func (d *scriptDatasource) PushDownPredicates(newPredicates, pushedDownPredicates []physical.Expression) (rejected, pushedDown []physical.Expression, changed bool) {
	return newPredicates, nil, false
}

func durationConst(d time.Duration) physical.TableValuedFunctionArgument {
	return physical.TableValuedFunctionArgument{
		TableValuedFunctionArgumentType: physical.TableValuedFunctionArgumentTypeExpression,
		Expression: &physical.TableValuedFunctionArgumentExpression{Expression: physical.Expression{
			Type:           octosql.Duration,
			ExpressionType: physical.ExpressionTypeConstant,
			Constant:       &physical.Constant{Value: octosql.NewDuration(d)},
		}},
	}
}

// tvfSource: a table (id Int, t Time) with 0..rows arbitrary records and a watermark in between.
func tvfSource(rows int) (physical.TableValuedFunctionArgument, physical.TableValuedFunctionArgument) {
	n := zzverif.Choice("rows", rows+1)
	var msgs []vx.Msg
	for i := 0; i < n; i++ {
		tv := octosql.VerifNDScalar(fmt.Sprintf("r%d.t", i), octosql.VKTime, 0)
		rec := execution.NewRecord([]octosql.Value{octosql.NewInt(int64(i)), tv}, zzverif.Bool(fmt.Sprintf("r%d.retraction", i)), time.Time{})
		msgs = append(msgs, vx.Msg{Kind: vx.MsgRecord, Rec: rec})
		if i == 0 {
			msgs = append(msgs, vx.Msg{Kind: vx.MsgWatermark, Watermark: octosql.VerifNDScalar("wm", octosql.VKTime, 0).Time})
		}
	}
	fields := []physical.SchemaField{{Name: "id", Type: octosql.Int}, {Name: "t", Type: octosql.Time}}
	table := physical.TableValuedFunctionArgument{
		TableValuedFunctionArgumentType: physical.TableValuedFunctionArgumentTypeTable,
		Table: &physical.TableValuedFunctionArgumentTable{Table: physical.Node{
			Schema:   physical.NewSchema(fields, 1),
			NodeType: physical.NodeTypeDatasource,
			Datasource: &physical.Datasource{
				Name: "src", Alias: "src",
				DatasourceImplementation: &scriptDatasource{src: vx.NewScriptSource(msgs)},
				VariableMapping:          map[string]string{"src.id": "id", "src.t": "t"},
			},
		}},
	}
	descriptor := physical.TableValuedFunctionArgument{
		TableValuedFunctionArgumentType: physical.TableValuedFunctionArgumentTypeDescriptor,
		Descriptor:                      &physical.TableValuedFunctionArgumentDescriptor{Descriptor: "t"},
	}
	return table, descriptor
}

func tvfEnv() physical.Environment {
	return physical.Environment{Functions: functions.FunctionMap(), VariableContext: nil}
}

// VerifC07MaxDiffWatermark: max_diff_watermark(source, max_diff, time_field[, resolution]) with
// arbitrary durations (0 and negatives included) over arbitrary record times never panics.
func VerifC07MaxDiffWatermark() {
	table, descriptor := tvfSource(zzverif.Param("ROWS"))
	maxDiff := time.Duration(zzverif.Int64("max_diff"))
	args := map[string]physical.TableValuedFunctionArgument{
		"source": table, "time_field": descriptor, "max_diff": durationConst(maxDiff),
	}
	resolution := time.Second
	if zzverif.Choice("has_resolution", 2) == 1 {
		resolution = time.Duration(zzverif.Int64("resolution"))
		args["resolution"] = durationConst(resolution)
	}
	node, err := table_valued_functions.MaxDiffWatermark.Descriptors[0].Materialize(context.Background(), tvfEnv(), args)
	zzverif.Assert(err == nil, "materialize-no-error")
	zzverif.Reach("materialized")
	zzverif.Known("C07-maxdiff-resolution-zero", zzverif.And(resolution == 0, len(table.Table.Table.Datasource.DatasourceImplementation.(*scriptDatasource).src.Msgs) > 0))
	sink := &vx.Sink{}
	_ = vx.RunNode(node, sink)
	zzverif.Reach("done")
}

// VerifC07Tumble: tumble(source, window_length[, time_field][, offset]) with arbitrary durations.
func VerifC07Tumble() {
	table, descriptor := tvfSource(zzverif.Param("ROWS"))
	args := map[string]physical.TableValuedFunctionArgument{
		"source": table, "window_length": durationConst(time.Duration(zzverif.Int64("window_length"))),
	}
	if zzverif.Choice("has_time_field", 2) == 1 {
		args["time_field"] = descriptor
	}
	if zzverif.Choice("has_offset", 2) == 1 {
		args["offset"] = durationConst(time.Duration(zzverif.Int64("offset")))
	}
	node, err := table_valued_functions.Tumble.Descriptors[0].Materialize(context.Background(), tvfEnv(), args)
	zzverif.Assert(err == nil, "materialize-no-error")
	zzverif.Reach("materialized")
	sink := &vx.Sink{}
	_ = vx.RunNode(node, sink)
	zzverif.Reach("done")
}
