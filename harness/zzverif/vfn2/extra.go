package vfn2

import (
	"context"

	"github.com/cube2222/octosql/logical"
	"github.com/cube2222/octosql/octosql"
	"github.com/cube2222/octosql/zzverif"
)

// VerifXObjectFieldAccess (not part of C07/C12; side observation recorded in reports/fn2.md):
// x->b on x of static type String | {a: Int, b: Int} should evaluate to field b of the object.
func VerifXObjectFieldAccess() {
	obj := structOf([]string{"a", "b"}, []octosql.Type{octosql.Int, octosql.Int})
	types := []octosql.Type{octosql.TypeSum(octosql.String, obj)}
	if zzverif.Param("NULLABLE") == 1 {
		types[0] = octosql.TypeSum(obj, octosql.Null)
	}
	env, logicalEnv := envFor(types, false)
	expr, ok := typecheck(logical.NewObjectFieldAccess(vars(1)[0], "b"), env, logicalEnv)
	zzverif.Assert(ok, "typechecks")
	ex, err := expr.Materialize(context.Background(), env)
	zzverif.Assert(err == nil, "materialize-no-error")
	a, b := zzverif.Int64("a"), zzverif.Int64("b")
	v, err := ex.Evaluate(evalCtx([]octosql.Value{octosql.NewStruct([]octosql.Value{octosql.NewInt(a), octosql.NewInt(b)})}))
	zzverif.Assert(err == nil, "evaluate-no-error")
	zzverif.Assert(zzverif.And(v.TypeID == octosql.TypeIDInt, v.Int == b), "field-b-returned")
}
