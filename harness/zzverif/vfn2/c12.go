package vfn2

import (
	"fmt"

	"github.com/cube2222/octosql/functions"
	"github.com/cube2222/octosql/octosql"
	"github.com/cube2222/octosql/zzverif"
)

func fnOf(name string, overload int) func([]octosql.Value) (octosql.Value, error) {
	return functions.FunctionMap()[name].Descriptors[overload].Function
}

func between(b, lo, hi byte) bool { return zzverif.And(b >= lo, b <= hi) }

// utf8Rune returns the UTF-8 encoding of an arbitrary rune that needs exactly size bytes
// (RFC 3629: no overlong forms, no surrogates, at most U+10FFFF).
func utf8Rune(name string, size int) string {
	b := []byte(zzverif.BytesN(name, size))
	switch size {
	case 1:
		zzverif.Assume(b[0] < 0x80)
	case 2:
		zzverif.Assume(zzverif.And(between(b[0], 0xC2, 0xDF), between(b[1], 0x80, 0xBF)))
	case 3:
		lo := zzverif.IteByte(b[0] == 0xE0, 0xA0, 0x80)
		hi := zzverif.IteByte(b[0] == 0xED, 0x9F, 0xBF)
		zzverif.Assume(zzverif.And(between(b[0], 0xE0, 0xEF), zzverif.And(between(b[1], lo, hi), between(b[2], 0x80, 0xBF))))
	case 4:
		lo := zzverif.IteByte(b[0] == 0xF0, 0x90, 0x80)
		hi := zzverif.IteByte(b[0] == 0xF4, 0x8F, 0xBF)
		zzverif.Assume(zzverif.And(zzverif.And(between(b[0], 0xF0, 0xF4), between(b[1], lo, hi)), zzverif.And(between(b[2], 0x80, 0xBF), between(b[3], 0x80, 0xBF))))
	}
	return string(b)
}

// asciiString returns a string of 0..maxLen arbitrary bytes < 0x80.
func asciiString(name string, maxLen int) string {
	s := zzverif.Bytes(name, maxLen)
	for i := 0; i < len(s); i++ {
		zzverif.Assume(s[i] < 0x80)
	}
	return s
}

// VerifC12Reverse: reverse(s) is s with its characters (runes) in reverse order, for every valid
// UTF-8 string of at most L bytes (every split of the bytes into runes of 1..4 bytes).
func VerifC12Reverse() {
	remaining := zzverif.Param("L")
	var runes []string
	multibyte := false
	for i := 0; remaining > 0; i++ {
		max := remaining
		if max > 4 {
			max = 4
		}
		size := zzverif.Choice(fmt.Sprintf("r%d.size", i), max+1)
		if size == 0 {
			break
		}
		runes = append(runes, utf8Rune(fmt.Sprintf("r%d", i), size))
		multibyte = multibyte || size > 1
		remaining -= size
	}
	s, want := "", ""
	for i := range runes {
		s += runes[i]
		want = runes[i] + want
	}
	zzverif.Known("C12-reverse-multibyte", multibyte)
	got, err := fnOf("reverse", 0)([]octosql.Value{octosql.NewString(s)})
	zzverif.Reach("called")
	zzverif.Assert(err == nil, "no-error")
	zzverif.Assert(got.TypeID == octosql.TypeIDString, "returns-string")
	zzverif.Assert(zzverif.StrEq(got.Str, want), "reverse-is-runes-reversed")
}

// VerifC12Substr: on ASCII input and a non-negative start (and length), substr(s, start[, length])
// is the bytes s[k] with start <= k < start+length, k < len(s). ARGS = 2 or 3.
// Negative start / length and start+length overflowing int64 panic: recorded under C07.
func VerifC12Substr() {
	s := asciiString("s", zzverif.Param("L"))
	start := zzverif.Int64("start")
	zzverif.Assume(start >= 0)
	n := int64(len(s))
	end := n
	args := []octosql.Value{octosql.NewString(s), octosql.NewInt(start)}
	if zzverif.Param("ARGS") == 3 {
		length := zzverif.Int64("length")
		zzverif.Assume(zzverif.And(length >= 0, start+length >= start))
		end = zzverif.IteInt64(start+length > n, n, start+length)
		args = append(args, octosql.NewInt(length))
	}
	wantLen := zzverif.IteInt64(start >= n, 0, end-start)
	got, err := fnOf("substr", zzverif.Param("ARGS")-2)(args)
	zzverif.Reach("called")
	zzverif.Assert(err == nil, "no-error")
	zzverif.Assert(got.TypeID == octosql.TypeIDString, "returns-string")
	ok := int64(len(got.Str)) == wantLen
	for j := 0; j < len(got.Str); j++ {
		for k := 0; k < len(s); k++ {
			ok = zzverif.And(ok, zzverif.Implies(start+int64(j) == int64(k), got.Str[j] == s[k]))
		}
	}
	zzverif.Assert(ok, "substr-is-the-byte-range")
}

// VerifC12Position: on ASCII input position(s, sub) is the smallest i with s[i:i+len(sub)] == sub
// and NULL when there is none.
func VerifC12Position() {
	s := asciiString("s", zzverif.Param("L"))
	sub := asciiString("sub", zzverif.Param("LSUB"))
	want := int64(-1)
	for i := len(s) - len(sub); i >= 0; i-- {
		match := true
		for j := 0; j < len(sub); j++ {
			match = zzverif.And(match, s[i+j] == sub[j])
		}
		want = zzverif.IteInt64(match, int64(i), want)
	}
	got, err := fnOf("position", 0)([]octosql.Value{octosql.NewString(s), octosql.NewString(sub)})
	zzverif.Reach("called")
	zzverif.Assert(err == nil, "no-error")
	zzverif.Assert(zzverif.Or(got.TypeID == octosql.TypeIDNull, got.TypeID == octosql.TypeIDInt), "returns-int-or-null")
	zzverif.Assert((got.TypeID == octosql.TypeIDNull) == (want == -1), "null-iff-no-occurrence")
	zzverif.Assert(zzverif.Implies(got.TypeID == octosql.TypeIDInt, got.Int == want), "first-occurrence")
}

// VerifC12Len: len(s) of an ASCII string is its number of characters.
func VerifC12Len() {
	s := asciiString("s", zzverif.Param("L"))
	got, err := fnOf("len", 0)([]octosql.Value{octosql.NewString(s)})
	zzverif.Reach("called")
	zzverif.Assert(err == nil, "no-error")
	zzverif.Assert(zzverif.And(got.TypeID == octosql.TypeIDInt, got.Int == int64(len(s))), "len-is-number-of-characters")
}

// VerifC12Replace: on ASCII input and a non-empty second argument, replace(s, old, new) is s with
// every (left-to-right, non-overlapping) occurrence of old replaced by new.
func VerifC12Replace() {
	s := asciiString("s", zzverif.Param("L"))
	old := asciiString("old", zzverif.Param("LOLD"))
	zzverif.Assume(len(old) > 0)
	repl := asciiString("new", zzverif.Param("LNEW"))
	got, err := fnOf("replace", 0)([]octosql.Value{octosql.NewString(s), octosql.NewString(old), octosql.NewString(repl)})
	zzverif.Reach("called")
	zzverif.Assert(err == nil, "no-error")
	zzverif.Assert(got.TypeID == octosql.TypeIDString, "returns-string")
	// reference (its comparisons repeat decisions the real code has already taken on this path)
	want := ""
	for i := 0; i < len(s); {
		if i+len(old) <= len(s) && s[i:i+len(old)] == old {
			want += repl
			i += len(old)
		} else {
			want += s[i : i+1]
			i++
		}
	}
	zzverif.Assert(zzverif.StrEq(got.Str, want), "all-occurrences-replaced")
}

// VerifC12Case: on ASCII input upper / lower map each letter to the other case and leave every
// other byte alone. UPPER = 1 upper, 0 lower.
func VerifC12Case() {
	s := asciiString("s", zzverif.Param("L"))
	upper := zzverif.Param("UPPER") == 1
	name := "lower"
	if upper {
		name = "upper"
	}
	want := make([]byte, len(s))
	for i := range want {
		c := s[i]
		if upper {
			want[i] = zzverif.IteByte(between(c, 'a', 'z'), c-32, c)
		} else {
			want[i] = zzverif.IteByte(between(c, 'A', 'Z'), c+32, c)
		}
	}
	got, err := fnOf(name, 0)([]octosql.Value{octosql.NewString(s)})
	zzverif.Reach("called")
	zzverif.Assert(err == nil, "no-error")
	zzverif.Assert(got.TypeID == octosql.TypeIDString, "returns-string")
	zzverif.Assert(zzverif.StrEq(got.Str, string(want)), "ascii-case-mapping")
}

// VerifC12PatternProbe calls like (FN=0), ~ (FN=1) or ~* (FN=2) on arbitrary strings; it records
// how far the engine gets (regexp is not supported, see the report) and asserts nothing yet.
func VerifC12PatternProbe() {
	name := []string{"like", "~", "~*"}[zzverif.Param("FN")]
	s := zzverif.Bytes("s", zzverif.Param("L"))
	p := zzverif.Bytes("p", zzverif.Param("L"))
	_, err := fnOf(name, 0)([]octosql.Value{octosql.NewString(s), octosql.NewString(p)})
	if err != nil {
		zzverif.Reach("rejected-pattern")
		return
	}
	zzverif.Reach("matched")
}
