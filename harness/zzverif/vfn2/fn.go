// Package vfn2 holds the harnesses of properties C07 (no Go runtime panic; partial claim) and C12
// (string functions meet their description; partial claim). Injected by overlay, not part of /repo.
package vfn2

import (
	"fmt"
	"time"

	"github.com/cube2222/octosql/functions"
	"github.com/cube2222/octosql/octosql"
	"github.com/cube2222/octosql/physical"
	"github.com/cube2222/octosql/zzverif"
	"github.com/cube2222/octosql/zzverif/vx"
)

// fnNames is the fixed enumeration of functions.FunctionMap() (a Go map has no order; the
// enumeration is checked for completeness by VerifC07FnCoverage).
var fnNames = []string{
	"<", "<=", "=", "!=", ">=", ">", "is null", "is not null", // 0..7
	"+", "-", "*", "/", // 8..11
	"abs", "sqrt", "ceil", "floor", "log2", "log", "log10", "pow", // 12..19
	"not",             // 20
	"like", "~", "~*", // 21..23
	"upper", "lower", "reverse", "substr", "replace", "position", "len", // 24..30
	"now", "parse_time", "time_from_unix", "time_to_unix", // 31..34
	"int", "float", "string", // 35..37
	"[]", "in", "not in", // 38..40
	"panic", // 41
}

// fnOverloads[i] is the number of descriptors of fnNames[i] (checked by VerifC07FnCoverage).
var fnOverloads = []int{
	1, 1, 1, 1, 1, 1, 1, 1,
	6, 7, 6, 4,
	2, 1, 1, 1, 1, 1, 1, 1,
	1,
	1, 1, 1,
	1, 1, 1, 2, 1, 1, 4,
	1, 1, 2, 1,
	5, 4, 1,
	1, 2, 2,
	1,
}

// fnUnsupported: descriptors the engine cannot execute (regexp.Compile is in a denied package;
// time.Parse builds its error text with string(symbolic rune)); they are left out of
// VerifC07Functions and probed one by one by VerifC07FnProbe / VerifC12PatternProbe, which record
// the engine's reason.
func fnUnsupported(name string, overload int) bool {
	switch name {
	case "like", "~", "~*", "parse_time":
		return true
	}
	return false
}

// printable returns an arbitrary value for string(x) / panic(x): every kind except Time (the
// engine cannot run Time.Format on a symbolic or local time), containers of depth 1.
func printable(name string, depth, elems, strLen int) octosql.Value {
	kinds := []int{octosql.VKNull, octosql.VKInt, octosql.VKFloat, octosql.VKBoolean, octosql.VKString, octosql.VKDuration}
	n := len(kinds)
	if depth > 0 {
		n += 3
	}
	k := zzverif.Choice(name+".kind", n)
	if k < len(kinds) {
		if kinds[k] == octosql.VKDuration {
			// Duration.String() on a symbolic number is a long chain of divisions: concrete samples
			return octosql.NewDuration([]time.Duration{0, 1, -1 << 63, 1<<63 - 1, 1500 * time.Millisecond}[zzverif.Choice(name+".dur", 5)])
		}
		return octosql.VerifNDScalar(name, kinds[k], strLen)
	}
	cnt := zzverif.Choice(name+".n", elems+1)
	out := make([]octosql.Value, cnt)
	for i := range out {
		out[i] = printable(fmt.Sprintf("%s.%d", name, i), depth-1, elems, strLen)
	}
	switch k - len(kinds) {
	case 0:
		return octosql.NewList(out)
	case 1:
		return octosql.NewStruct(out)
	}
	return octosql.NewTuple(out)
}

func listOf(el octosql.Type) octosql.Type {
	return octosql.Type{TypeID: octosql.TypeIDList, List: struct{ Element *octosql.Type }{Element: &el}}
}

func tupleOf(els ...octosql.Type) octosql.Type {
	return octosql.Type{TypeID: octosql.TypeIDTuple, Tuple: struct{ Elements []octosql.Type }{Elements: els}}
}

func structOf(names []string, types []octosql.Type) octosql.Type {
	fields := make([]octosql.StructField, len(names))
	for i := range names {
		fields[i] = octosql.StructField{Name: names[i], Type: types[i]}
	}
	return octosql.Type{TypeID: octosql.TypeIDStruct, Struct: struct{ Fields []octosql.StructField }{Fields: fields}}
}

var emptyList = octosql.Type{TypeID: octosql.TypeIDList}

// sampleTypes are the hand-picked argument types for descriptors that have a TypeFn instead of
// declared ArgumentTypes.
func sampleTypes(name string, overload int) [][]octosql.Type {
	pair := func(t octosql.Type) []octosql.Type { return []octosql.Type{t, t} }
	ab := structOf([]string{"a", "b"}, []octosql.Type{octosql.Int, octosql.String})
	tup := tupleOf(octosql.Int, octosql.String)
	switch name {
	case "<", "<=", ">=", ">":
		return [][]octosql.Type{
			pair(octosql.Int), pair(octosql.Float), pair(octosql.Boolean), pair(octosql.String),
			pair(octosql.Time), pair(octosql.Duration), pair(listOf(octosql.Int)), pair(ab), pair(tup),
			pair(listOf(octosql.TypeSum(octosql.Int, octosql.String))),
		}
	case "len":
		switch overload {
		case 1:
			return [][]octosql.Type{{listOf(octosql.Int)}, {emptyList}, {listOf(octosql.Any)}}
		case 2:
			return [][]octosql.Type{{ab}, {structOf(nil, nil)}}
		case 3:
			return [][]octosql.Type{{tup}, {tupleOf()}}
		}
	case "[]":
		return [][]octosql.Type{
			{listOf(octosql.Int), octosql.Int}, {listOf(octosql.String), octosql.Int},
			{emptyList, octosql.Int}, {listOf(listOf(octosql.Int)), octosql.Int},
		}
	case "in", "not in":
		if overload == 0 {
			return [][]octosql.Type{
				{octosql.Int, listOf(octosql.Int)}, {octosql.String, listOf(octosql.String)},
				{octosql.Any, listOf(octosql.Any)}, {octosql.Int, emptyList},
			}
		}
		return [][]octosql.Type{
			{octosql.Int, tup}, {octosql.String, tup}, {octosql.Any, tupleOf(octosql.Any, octosql.Any)}, {octosql.Int, tupleOf()},
		}
	}
	panic("sampleTypes: no samples for " + name)
}

// fnArgs picks argument types for the descriptor and arbitrary values of these types.
func fnArgs(name string, overload int, d physical.FunctionDescriptor, elems, strLen int) []octosql.Value {
	types := d.ArgumentTypes
	if d.TypeFn != nil {
		samples := sampleTypes(name, overload)
		types = samples[zzverif.Choice("sample", len(samples))]
		_, ok := d.TypeFn(types)
		zzverif.Assert(ok, "sample-types-accepted-by-TypeFn")
	}
	values := make([]octosql.Value, len(types))
	for i := range types {
		if name == "string" || name == "panic" {
			values[i] = printable(fmt.Sprintf("a%d", i), 1, elems, strLen)
		} else {
			values[i] = vx.ValueOfType(fmt.Sprintf("a%d", i), types[i], elems, strLen)
		}
		if d.Strict {
			// execution.FunctionCall returns NULL before calling a strict function on a NULL argument
			zzverif.Assume(values[i].TypeID != octosql.TypeIDNull)
		}
	}
	return values
}

// substr3Region: substr(s, start, length) with 0 <= start < len(s) computes end = start+length
// (wrapping) and slices s[start:end] without checking end >= start.
func substr3Region(values []octosql.Value) bool {
	start, length := values[1].Int, values[2].Int
	return zzverif.And(zzverif.And(start >= 0, start < int64(len(values[0].Str))), start+length < start)
}

// fnKnown marks the regions of the recorded C07 findings of functions.go (each one narrow, so
// that any other panic is still reported).
func fnKnown(name string, overload int, values []octosql.Value) {
	switch {
	case name == "/" && overload == 0:
		zzverif.Known("C07-int-div-by-zero", values[1].Int == 0)
	case name == "/" && overload == 2:
		zzverif.Known("C07-duration-div-by-int-zero", values[1].Int == 0)
	case name == "*" && overload == 4:
		zzverif.Known("C07-repeat-negative-count", values[1].Int < 0)
	case name == "*" && overload == 5:
		zzverif.Known("C07-repeat-negative-count", values[0].Int < 0)
	case name == "[]":
		zzverif.Known("C07-index-negative", values[1].Int < 0)
	case name == "substr" && overload == 0:
		zzverif.Known("C07-substr-negative-start", values[1].Int < 0)
	case name == "substr" && overload == 1:
		zzverif.Known("C07-substr-negative-start", values[1].Int < 0)
		zzverif.Known("C07-substr-length-negative-or-overflow", substr3Region(values))
	}
}

// fnBound restricts the inputs whose SIZE the code under test derives from an integer (the
// engine needs concrete sizes; natively such calls allocate without bound).
func fnBound(name string, overload int, values []octosql.Value) {
	rc := int64(zzverif.Param("RC"))
	if name == "*" && (overload == 4 || overload == 5) {
		cnt := values[1].Int
		if overload == 5 {
			cnt = values[0].Int
		}
		// all negative counts and 0..RC
		zzverif.Assume(cnt <= rc)
	}
}

// fnHeavy: functions whose library code forks per byte class (unicode tables, UTF-8 decoding) and
// time_from_unix(Float) (floating-point Modf / multiply / convert queries need a longer solver
// timeout); with FN=-1 they are skipped unless HEAVY=1 and get their own instances.
func fnHeavy(name string, overload int) bool {
	return name == "upper" || name == "lower" || name == "replace" || (name == "time_from_unix" && overload == 1)
}

func fnPick() (string, int, physical.FunctionDescriptor) {
	fi := zzverif.Param("FN")
	if fi < 0 {
		fi = zzverif.Choice("fn", len(fnNames))
	}
	name := fnNames[fi]
	details := functions.FunctionMap()[name]
	ov := zzverif.Param("OV")
	if ov < 0 {
		ov = zzverif.Choice("overload", len(details.Descriptors))
	}
	return name, ov, details.Descriptors[ov]
}

// VerifC07Functions: no descriptor of functions.FunctionMap() panics on any arguments of its
// declared types. Params: FN (index into fnNames, -1 = all), OV (overload, -1 = all), HEAVY (with
// FN=-1: 0 skips upper/lower/replace), S (string bytes), E (list/tuple elements), RC (largest
// non-negative repeat count).
func VerifC07Functions() {
	name, ov, d := fnPick()
	if fnUnsupported(name, ov) {
		return
	}
	if zzverif.Param("FN") < 0 && zzverif.Param("HEAVY") == 0 && fnHeavy(name, ov) {
		return
	}
	values := fnArgs(name, ov, d, zzverif.Param("E"), zzverif.Param("S"))
	fnBound(name, ov, values)
	fnKnown(name, ov, values)
	zzverif.Reach("called")
	_, _ = d.Function(values)
	zzverif.Reach("done")
}

// VerifC07FnProbe is VerifC07Functions for ONE function without the unsupported filter (used to
// record the engine's exact reason for like, ~, ~*, now, parse_time).
func VerifC07FnProbe() {
	name, ov, d := fnPick()
	values := fnArgs(name, ov, d, zzverif.Param("E"), zzverif.Param("S"))
	zzverif.Reach("called")
	_, _ = d.Function(values)
	zzverif.Reach("done")
}

// VerifC07FnCoverage: fnNames / fnOverloads enumerate functions.FunctionMap() exactly.
func VerifC07FnCoverage() {
	m := functions.FunctionMap()
	zzverif.Assert(len(m) == len(fnNames), "every-function-enumerated")
	zzverif.Assert(len(fnOverloads) == len(fnNames), "tables-same-length")
	for i, name := range fnNames {
		details, ok := m[name]
		zzverif.Assert(ok, "enumerated-name-exists")
		zzverif.Assert(len(details.Descriptors) == fnOverloads[i], "overload-count")
		for j := 0; j < i; j++ {
			zzverif.Assert(fnNames[j] != name, "names-distinct")
		}
	}
	zzverif.Reach("done")
}
