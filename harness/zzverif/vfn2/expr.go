package vfn2

import (
	"context"
	"fmt"
	"time"

	"github.com/cube2222/octosql/execution"
	"github.com/cube2222/octosql/functions"
	"github.com/cube2222/octosql/logical"
	"github.com/cube2222/octosql/octosql"
	"github.com/cube2222/octosql/physical"
	"github.com/cube2222/octosql/zzverif"
	"github.com/cube2222/octosql/zzverif/vx"
)

func argName(i int) string { return fmt.Sprintf("a%d", i) }

func envFor(types []octosql.Type, withFunctions bool) (physical.Environment, logical.Environment) {
	fields := make([]physical.SchemaField, len(types))
	mapping := map[string]string{}
	for i := range types {
		fields[i] = physical.SchemaField{Name: argName(i), Type: types[i]}
		mapping[argName(i)] = argName(i)
	}
	env := physical.Environment{VariableContext: &physical.VariableContext{Fields: fields}}
	if withFunctions {
		env.Functions = functions.FunctionMap()
	}
	logicalEnv := logical.Environment{
		UniqueVariableNames: &logical.VariableMapping{Mapping: mapping},
		UniqueNameGenerator: map[string]int{},
	}
	return env, logicalEnv
}

// typecheck runs the real logical typechecker over variables a0.. of the given static types.
// ok=false when the typechecker rejects the expression: it panics by design and cmd/root.go
// recovers these panics, so they are outside C07.
func typecheck(e logical.Expression, env physical.Environment, logicalEnv logical.Environment) (expr physical.Expression, ok bool) {
	defer func() {
		if r := recover(); r != nil {
			ok = false
		}
	}()
	return e.Typecheck(context.Background(), env, logicalEnv), true
}

func vars(n int) []logical.Expression {
	out := make([]logical.Expression, n)
	for i := range out {
		out[i] = logical.NewVariable(argName(i))
	}
	return out
}

func hasAny(t octosql.Type) bool {
	switch t.TypeID {
	case octosql.TypeIDAny:
		return true
	case octosql.TypeIDList:
		return t.List.Element != nil && hasAny(*t.List.Element)
	case octosql.TypeIDStruct:
		for _, f := range t.Struct.Fields {
			if hasAny(f.Type) {
				return true
			}
		}
	case octosql.TypeIDTuple:
		for _, e := range t.Tuple.Elements {
			if hasAny(e) {
				return true
			}
		}
	case octosql.TypeIDUnion:
		for _, a := range t.Union.Alternatives {
			if hasAny(a) {
				return true
			}
		}
	}
	return false
}

// ndType: an arbitrary type of C10's generator without Any (no expression has static type Any
// except a call of panic(), which always fails).
func ndType(name string, depth, elems int) octosql.Type {
	t := octosql.VerifNDType(name, depth, elems, true)
	zzverif.Assume(!hasAny(t))
	return t
}

// ndCType: a type built from Int / String leaves with lists (with and without element type),
// structs (0..elems fields with distinct names from {a,b,c}, in any order), tuples (0..elems) and,
// if unions > 0, TypeSum of two such types (what COALESCE/UNION typing produces). Every choice
// is a forked Choice, so the type is concrete on each path.
func ndCType(name string, depth, elems, unions int) octosql.Type {
	kinds := 3
	if depth > 0 {
		kinds = 6
		if unions > 0 {
			kinds = 7
		}
	}
	switch zzverif.Choice(name+".kind", kinds) {
	case 0:
		return octosql.Int
	case 1:
		return octosql.String
	case 2:
		return emptyList
	case 3:
		return listOf(ndCType(name+".el", depth-1, elems, unions))
	case 4:
		n := zzverif.Choice(name+".n", elems+1)
		fields := make([]octosql.StructField, n)
		for i := range fields {
			c := zzverif.Choice(fmt.Sprintf("%s.f%d.name", name, i), 3)
			for j := 0; j < i; j++ {
				zzverif.Assume(fields[j].Name[0] != byte('a'+c))
			}
			fields[i] = octosql.StructField{Name: string([]byte{byte('a' + c)}), Type: ndCType(fmt.Sprintf("%s.f%d", name, i), depth-1, elems, unions)}
		}
		return octosql.Type{TypeID: octosql.TypeIDStruct, Struct: struct{ Fields []octosql.StructField }{Fields: fields}}
	case 5:
		n := zzverif.Choice(name+".n", elems+1)
		els := make([]octosql.Type, n)
		for i := range els {
			els[i] = ndCType(fmt.Sprintf("%s.t%d", name, i), depth-1, elems, unions)
		}
		return tupleOf(els...)
	}
	return octosql.TypeSum(ndCType(name+".u0", depth-1, elems, 0), ndCType(name+".u1", depth-1, elems, 0))
}

// nonEmptyTuple: v contains a tuple with >= 1 element at a position fixLayout walks to.
func nonEmptyTuple(v octosql.Value) bool {
	switch v.TypeID {
	case octosql.TypeIDTuple:
		return len(v.Tuple) > 0
	case octosql.TypeIDList:
		for _, e := range v.List {
			if nonEmptyTuple(e) {
				return true
			}
		}
	case octosql.TypeIDStruct:
		for _, e := range v.Struct {
			if nonEmptyTuple(e) {
				return true
			}
		}
	}
	return false
}

// shorterTuple mirrors the recursion of execution.calculateMapping(target, source) and reports
// whether it reaches a source tuple type with fewer elements than the target tuple type.
func shorterTuple(target, source octosql.Type) bool {
	if source.TypeID == octosql.TypeIDUnion {
		for _, alt := range source.Union.Alternatives {
			if shorterTuple(target, alt) {
				return true
			}
		}
		return false
	}
	if target.TypeID == octosql.TypeIDUnion {
		for _, alt := range target.Union.Alternatives {
			if alt.TypeID == source.TypeID {
				return shorterTuple(alt, source)
			}
		}
		return false
	}
	if target.TypeID != source.TypeID {
		return false
	}
	switch target.TypeID {
	case octosql.TypeIDStruct:
		for _, tf := range target.Struct.Fields {
			for _, sf := range source.Struct.Fields {
				if tf.Name == sf.Name && shorterTuple(tf.Type, sf.Type) {
					return true
				}
			}
		}
	case octosql.TypeIDList:
		if target.List.Element != nil && source.List.Element != nil {
			return shorterTuple(*target.List.Element, *source.List.Element)
		}
	case octosql.TypeIDTuple:
		if len(source.Tuple.Elements) < len(target.Tuple.Elements) {
			return true
		}
		for i := range target.Tuple.Elements {
			if shorterTuple(target.Tuple.Elements[i], source.Tuple.Elements[i]) {
				return true
			}
		}
	}
	return false
}

func evalCtx(values []octosql.Value) execution.ExecutionContext {
	return execution.ExecutionContext{
		Context:         context.Background(),
		VariableContext: &execution.VariableContext{Values: values},
	}
}

// VerifC07Coalesce: COALESCE(a0, .., aN-1) over arguments of arbitrary (struct / list / tuple /
// union / scalar) static types, typechecked by the real typechecker, materialised with the real
// ObjectLayoutFixer and evaluated on arbitrary values of these types, never panics.
// Params: N arguments, D type depth, E elements per struct/tuple/list, S string bytes.
func VerifC07Coalesce() {
	n, d, e, s := zzverif.Param("N"), zzverif.Param("D"), zzverif.Param("E"), zzverif.Param("S")
	types := make([]octosql.Type, n)
	for i := range types {
		types[i] = ndCType(fmt.Sprintf("t%d", i), d, e, zzverif.Param("U"))
		if i < n-1 && zzverif.Choice(fmt.Sprintf("t%d.nullable", i), 2) == 1 {
			types[i] = vx.Nullable(types[i])
		}
	}
	env, logicalEnv := envFor(types, false)
	expr := logical.NewCoalesce(vars(n)).Typecheck(context.Background(), env, logicalEnv)
	zzverif.Reach("typechecked")
	for i := range types {
		zzverif.Known("C07-coalesce-shorter-tuple", shorterTuple(expr.Type, types[i]))
	}
	ex, err := expr.Materialize(context.Background(), env)
	zzverif.Assert(err == nil, "materialize-no-error")
	zzverif.Reach("materialized")
	values := make([]octosql.Value, n)
	for i := range values {
		values[i] = vx.ValueOfType(argName(i), types[i], e, s)
	}
	for i := range values {
		if values[i].TypeID != octosql.TypeIDNull {
			zzverif.Known("C07-fixlayout-tuple", nonEmptyTuple(values[i]))
			break
		}
	}
	_, _ = ex.Evaluate(evalCtx(values))
	zzverif.Reach("done")
}

func boolishType(name string) octosql.Type {
	switch zzverif.Choice(name, 6) {
	case 0:
		return octosql.Boolean
	case 1:
		return vx.Nullable(octosql.Boolean)
	case 2:
		return octosql.Null
	case 3:
		return octosql.TypeSum(octosql.Boolean, octosql.Int)
	case 4:
		return octosql.TypeSum(vx.Nullable(octosql.Boolean), octosql.String)
	}
	return octosql.Int // rejected by the typechecker
}

// VerifC07ExprKinds: every kind of execution.Expression, built by the real typechecker and
// Materialize from arbitrary argument types (KIND selects: 0 variable, 1 constant, 2 and, 3 or,
// 4 tuple, 5 type cast, 6 object field access, 7 function call with nullable arguments,
// 8 single-column query expression, 9 multi-column query expression; coalesce has its own
// harness), evaluated on arbitrary values of the argument types, never panics.
func VerifC07ExprKinds() {
	d, e, s := zzverif.Param("D"), zzverif.Param("E"), zzverif.Param("S")
	kind := zzverif.Param("KIND")
	if kind < 0 {
		kind = zzverif.Choice("kind", 10)
	}
	var types []octosql.Type
	var le logical.Expression
	switch kind {
	case 0:
		types = []octosql.Type{ndType("t0", d, e), ndType("t1", 0, e)}
		le = logical.NewVariable(argName(zzverif.Choice("var", 2)))
	case 1:
		types = nil
		v := octosql.VerifNDValue("c", d, e, s)
		le = logical.NewConstant(v)
	case 2, 3:
		types = []octosql.Type{boolishType("t0"), boolishType("t1")}
		if kind == 2 {
			le = logical.NewAnd(vars(2)[0], vars(2)[1])
		} else {
			le = logical.NewOr(vars(2)[0], vars(2)[1])
		}
	case 4:
		n := zzverif.Choice("n", 3)
		types = make([]octosql.Type, n)
		for i := range types {
			types[i] = ndType(fmt.Sprintf("t%d", i), d, e)
		}
		le = logical.NewTuple(vars(n))
	case 5:
		types = []octosql.Type{ndType("t0", d, e)}
		target := octosql.TypeID(zzverif.Choice("target", int(octosql.TypeIDAny)+1))
		le = logical.NewTypeCast(vars(1)[0], target)
	case 6:
		types = []octosql.Type{ndType("t0", d, e)}
		field := string([]byte{byte('a' + zzverif.Choice("field", 3))})
		le = logical.NewObjectFieldAccess(vars(1)[0], field)
	case 7:
		types = []octosql.Type{boolishType("t0"), boolishType("t1")}
		le = logical.NewFunctionExpression([]string{"=", "not", "is null"}[zzverif.Choice("fn", 3)], vars(1+zzverif.Choice("nargs", 2)))
	case 8, 9:
		cols := kind - 7
		k := zzverif.Choice("rows", e+1)
		msgs := make([]vx.Msg, k)
		for i := range msgs {
			row := make([]octosql.Value, cols)
			for j := range row {
				row[j] = octosql.VerifNDValue(fmt.Sprintf("r%d.%d", i, j), 0, e, s)
			}
			msgs[i] = vx.Msg{Kind: vx.MsgRecord, Rec: execution.NewRecord(row, zzverif.Bool(fmt.Sprintf("r%d.retraction", i)), time.Time{})}
		}
		src := vx.NewScriptSource(msgs)
		if zzverif.Choice("fails", 2) == 1 {
			src.FailAt = zzverif.Choice("failat", k+1)
			src.Err = fmt.Errorf("source failed")
		}
		var ex execution.Expression
		if kind == 8 {
			ex = execution.NewSingleColumnQueryExpression(src)
		} else {
			ex = execution.NewMultiColumnQueryExpression(src)
		}
		zzverif.Reach("materialized")
		_, _ = ex.Evaluate(evalCtx(nil))
		zzverif.Reach("done")
		return
	}
	env, logicalEnv := envFor(types, kind == 7)
	expr, ok := typecheck(le, env, logicalEnv)
	if !ok {
		zzverif.Reach("rejected-by-typechecker")
		return
	}
	zzverif.Reach("typechecked")
	ex, err := expr.Materialize(context.Background(), env)
	zzverif.Assert(err == nil, "materialize-no-error")
	zzverif.Reach("materialized")
	values := make([]octosql.Value, len(types))
	for i := range values {
		values[i] = vx.ValueOfType(argName(i), types[i], e, s)
	}
	_, _ = ex.Evaluate(evalCtx(values))
	zzverif.Reach("done")
}

// ---------- physical.Expression walkers ----------

const numExpressionTypes = int(physical.ExpressionTypeObjectFieldAccess) + 1

// physExpr builds a physical expression tree whose node kinds range over the whole
// ExpressionType enum (children: 0..W per n-ary node, depth <= depth).
func physExpr(name string, depth, width int) physical.Expression {
	var kind physical.ExpressionType
	if depth == 0 {
		kind = []physical.ExpressionType{physical.ExpressionTypeVariable, physical.ExpressionTypeConstant}[zzverif.Choice(name+".leaf", 2)]
	} else {
		kind = physical.ExpressionType(zzverif.Choice(name+".kind", numExpressionTypes))
	}
	children := func() []physical.Expression {
		n := zzverif.Choice(name+".n", width+1)
		out := make([]physical.Expression, n)
		for i := range out {
			out[i] = physExpr(fmt.Sprintf("%s.%d", name, i), depth-1, width)
		}
		return out
	}
	child := func() physical.Expression { return physExpr(name+".0", depth-1, width) }
	out := physical.Expression{Type: octosql.Boolean, ExpressionType: kind}
	switch kind {
	case physical.ExpressionTypeVariable:
		out.Variable = &physical.Variable{Name: string([]byte{byte('x' + zzverif.Choice(name+".var", 2))}), IsLevel0: zzverif.Bool(name + ".l0")}
	case physical.ExpressionTypeConstant:
		out.Constant = &physical.Constant{Value: octosql.NewBoolean(true)}
	case physical.ExpressionTypeFunctionCall:
		out.FunctionCall = &physical.FunctionCall{Name: "=", Arguments: children()}
	case physical.ExpressionTypeAnd:
		out.And = &physical.And{Arguments: children()}
	case physical.ExpressionTypeOr:
		out.Or = &physical.Or{Arguments: children()}
	case physical.ExpressionTypeQueryExpression:
		out.QueryExpression = &physical.QueryExpression{Source: physical.Node{
			Schema:          physical.NewSchema([]physical.SchemaField{{Name: "c", Type: octosql.Int}}, -1),
			NodeType:        physical.NodeTypeInMemoryRecords,
			InMemoryRecords: &physical.InMemoryRecords{},
		}}
	case physical.ExpressionTypeCoalesce:
		out.Coalesce = &physical.Coalesce{Arguments: children()}
	case physical.ExpressionTypeTuple:
		out.Tuple = &physical.Tuple{Arguments: children()}
	case physical.ExpressionTypeTypeAssertion:
		out.TypeAssertion = &physical.TypeAssertion{Expression: child(), TargetType: octosql.Boolean}
	case physical.ExpressionTypeTypeCast:
		out.TypeCast = &physical.TypeCast{Expression: child(), TargetTypeID: octosql.TypeIDBoolean}
	case physical.ExpressionTypeObjectFieldAccess:
		out.ObjectFieldAccess = &physical.ObjectFieldAccess{Object: child(), Field: "f"}
	}
	return out
}

// unhandledByVariablesUsed: variablesUsed reaches a node whose kind its switch does not list.
func unhandledByVariablesUsed(e physical.Expression) bool {
	any := func(args []physical.Expression) bool {
		for _, a := range args {
			if unhandledByVariablesUsed(a) {
				return true
			}
		}
		return false
	}
	switch e.ExpressionType {
	case physical.ExpressionTypeVariable, physical.ExpressionTypeConstant:
		return false
	case physical.ExpressionTypeFunctionCall:
		return any(e.FunctionCall.Arguments)
	case physical.ExpressionTypeAnd:
		return any(e.And.Arguments)
	case physical.ExpressionTypeOr:
		return any(e.Or.Arguments)
	case physical.ExpressionTypeTypeAssertion:
		return unhandledByVariablesUsed(e.TypeAssertion.Expression)
	case physical.ExpressionTypeTypeCast:
		return unhandledByVariablesUsed(e.TypeCast.Expression)
	}
	return true // QueryExpression, Coalesce, Tuple, ObjectFieldAccess
}

// VerifC07PhysExprWalkers: SplitByAnd, VariablesUsed, Transformers.TransformExpr and
// RenameVariablesExpr accept a physical expression tree of every ExpressionType.
// WALK selects: 0 SplitByAnd, 1 VariablesUsed (of every conjunct, as the optimizer rules do),
// 2 TransformExpr with an identity transformer, 3 RenameVariablesExpr; -1 all.
func VerifC07PhysExprWalkers() {
	expr := physExpr("e", zzverif.Param("D"), zzverif.Param("W"))
	walk := zzverif.Param("WALK")
	if walk < 0 {
		walk = zzverif.Choice("walk", 4)
	}
	zzverif.Reach("built")
	switch walk {
	case 0:
		parts := expr.SplitByAnd()
		zzverif.Assert(len(parts) >= 0, "split")
	case 1:
		zzverif.Known("C07-variablesused-unhandled-kind", unhandledByVariablesUsed(expr))
		_ = expr.VariablesUsed()
		for _, part := range expr.SplitByAnd() {
			_ = part.VariablesUsed()
		}
	case 2:
		t := physical.Transformers{ExpressionTransformer: func(e physical.Expression) physical.Expression { return e }}
		_ = t.TransformExpr(expr)
	case 3:
		_ = physical.RenameVariablesExpr(map[string]string{"x": "z"}, expr)
	}
	zzverif.Reach("done")
}
