package vfn

import (
	"github.com/cube2222/octosql/logical"
	"github.com/cube2222/octosql/octosql"
	"github.com/cube2222/octosql/zzverif"
	"github.com/cube2222/octosql/zzverif/vx"
)

// ---------- COALESCE over objects of different layout ----------

// structAlt returns the object alternative of t (t itself, or the object member of a union).
func structAlt(t octosql.Type) (octosql.Type, bool) {
	if t.TypeID == octosql.TypeIDStruct {
		return t, true
	}
	if t.TypeID == octosql.TypeIDUnion {
		for _, alt := range t.Union.Alternatives {
			if alt.TypeID == octosql.TypeIDStruct {
				return alt, true
			}
		}
	}
	return t, false
}

// byNameEq: got (laid out as outT) carries exactly what v (laid out as vT) carries: object fields
// are matched BY NAME, a field of outT that vT lacks is NULL; everything else is compared as is.
func byNameEq(got octosql.Value, outT octosql.Type, v octosql.Value, vT octosql.Type) bool {
	if v.TypeID != octosql.TypeIDStruct {
		return scalarEq(got, v)
	}
	os, ok1 := structAlt(outT)
	vs, ok2 := structAlt(vT)
	if !ok1 || !ok2 || got.TypeID != octosql.TypeIDStruct || len(got.Struct) != len(os.Struct.Fields) {
		return false
	}
	ok := true
	for i, f := range os.Struct.Fields {
		src := -1
		for j := range vs.Struct.Fields {
			if vs.Struct.Fields[j].Name == f.Name {
				src = j
			}
		}
		if src == -1 {
			ok = zzverif.And(ok, got.Struct[i].TypeID == octosql.TypeIDNull)
			continue
		}
		ok = zzverif.And(ok, byNameEq(got.Struct[i], f.Type, v.Struct[src], vs.Struct.Fields[src].Type))
	}
	return ok
}

// objectLayouts: object types whose fields (some of them objects themselves) appear under
// different positions / with different field sets, so that COALESCE's output type (the union of
// the field names, sorted) differs from the layout of each argument.
func objectLayouts() []octosql.Type {
	km := structOf([]string{"k"}, []octosql.Type{tInt})
	jk := structOf([]string{"j", "k"}, []octosql.Type{tInt, tInt})
	m := structOf([]string{"m"}, []octosql.Type{tInt})
	mn := structOf([]string{"m", "n"}, []octosql.Type{tInt, tStr})
	return []octosql.Type{
		/* 0 */ structOf([]string{"z", "a"}, []octosql.Type{km, m}),
		/* 1 */ structOf([]string{"a", "z"}, []octosql.Type{mn, jk}),
		/* 2 */ structOf([]string{"b", "c"}, []octosql.Type{km, m}),
		/* 3 */ structOf([]string{"a", "b", "c"}, []octosql.Type{m, jk, mn}),
		/* 4 */ structOf([]string{"a", "b"}, []octosql.Type{tInt, tStr}),
		/* 5 */ structOf([]string{"b", "a"}, []octosql.Type{tStr, tInt}),
		/* 6 */ structOf([]string{"c", "a"}, []octosql.Type{listOf(tInt), km}),
	}
}

// VerifC13CoalesceObjects: COALESCE(a0, a1[, a2]) whose arguments are (nullable) objects of two
// different layouts from objectLayouts (forked), values symbolic: the result is the first non-NULL
// argument, re-laid-out BY FIELD NAME to the output type (absent fields NULL).
func VerifC13CoalesceObjects() {
	setup()
	u := objectLayouts()
	k := 2 + zzverif.Choice("k", zzverif.Param("K")-1)
	types := make([]octosql.Type, k)
	vals := make([]octosql.Value, k)
	for i := range types {
		types[i] = u[zzverif.Choice(argName(i)+".layout", len(u))]
		if zzverif.Choice(argName(i)+".nullable", 2) == 1 {
			types[i] = vx.Nullable(types[i])
		}
		vals[i] = vx.ValueOfType(argName(i), types[i], 1, zzverif.Param("S"))
	}
	expr, oc := typecheck(logical.NewCoalesce(vars(k)), types)
	zzverif.Assert(oc == tcOK, "typechecks")
	r, err := eval(expr, types, vals)
	zzverif.Assert(err == nil, "no-error")
	zzverif.Reach("evaluated")
	first := -1
	for i := k - 1; i >= 0; i-- {
		if vals[i].TypeID != octosql.TypeIDNull {
			first = i
		}
	}
	if first == -1 {
		zzverif.Assert(r.TypeID == octosql.TypeIDNull, "coalesce-of-nulls-is-null")
		return
	}
	zzverif.Assert(byNameEq(r, expr.Type, vals[first], types[first]), "coalesce-is-first-non-null-by-field-name")
}

// VerifC13CoalesceLazy: COALESCE(a0, a1 / a2) with a0 Int|NULL and a1, a2 arbitrary Ints: when a0
// is not NULL the result is a0 and NO error, whatever a2 is (a later argument that would fail —
// division by zero — is not what COALESCE returns); when a0 is NULL the result is a1 / a2, an
// error exactly when a2 = 0.
func VerifC13CoalesceLazy() {
	setup()
	types := []octosql.Type{vx.Nullable(tInt), tInt, tInt}
	vals := []octosql.Value{vx.ValueOfType("a0", types[0], 1, 0), octosql.NewInt(zzverif.Int64("a1")), octosql.NewInt(zzverif.Int64("a2"))}
	div := logical.NewFunctionExpression("/", []logical.Expression{logical.NewVariable(argName(1)), logical.NewVariable(argName(2))})
	expr, oc := typecheck(logical.NewCoalesce([]logical.Expression{logical.NewVariable(argName(0)), div}), types)
	zzverif.Assert(oc == tcOK, "typechecks")
	r, err := eval(expr, types, vals)
	zzverif.Reach("evaluated")
	if vals[0].TypeID != octosql.TypeIDNull {
		zzverif.Assert(err == nil, "first-non-null-argument-wins-without-error")
		zzverif.Assert(scalarEq(r, vals[0]), "coalesce-is-first-non-null")
		return
	}
	zzverif.Assert((err != nil) == (vals[2].Int == 0), "error-exactly-when-the-chosen-argument-fails")
}

// VerifC09EqOperator (C09): the SQL operator = (whatever overload the typechecker picks for two
// operands of the same scalar type) agrees with Value.Compare: a = b is TRUE exactly when
// Compare(a, b) == 0 — for NaN and signed zeros as for everything else, so that =, GROUP BY,
// DISTINCT and joins have one notion of equality.
func VerifC09EqOperator() {
	setup()
	scalars := []octosql.Type{tInt, tFlt, tBool, tStr, tTime, tDur}
	t := scalars[zzverif.Choice("type", len(scalars))]
	types := []octosql.Type{t, t}
	vals := []octosql.Value{vx.ValueOfType("a", t, 1, zzverif.Param("S")), vx.ValueOfType("b", t, 1, zzverif.Param("S"))}
	r := call("=", types, vals)
	zzverif.Reach("evaluated")
	zzverif.Assert(r.TypeID == octosql.TypeIDBoolean, "boolean-result")
	zzverif.Assert(r.Boolean == (vals[0].Compare(vals[1]) == 0), "equals-operator-agrees-with-compare")
}
