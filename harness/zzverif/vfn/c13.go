package vfn

import (
	"math"
	"time"

	"github.com/cube2222/octosql/logical"
	"github.com/cube2222/octosql/octosql"
	"github.com/cube2222/octosql/zzverif"
	"github.com/cube2222/octosql/zzverif/vx"
)

// All C13 harnesses go through the real typechecker (overload resolution), the real Materialize
// and the real FunctionCall.Evaluate, on NON-nullable argument types. Every (function, overload)
// pair is its own path (zzverif.Choice); the oracles are branch-free terms.

type overload struct {
	name  string
	types []octosql.Type
}

func ndArgs(types []octosql.Type, strLen int) []octosql.Value {
	vals := make([]octosql.Value, len(types))
	for i := range types {
		vals[i] = vx.ValueOfType(argName(i), types[i], 2, strLen)
	}
	return vals
}

// ---------- arithmetic on Int / Float / Duration / String ----------

func arithOverloads() []overload {
	return []overload{
		{"+", []octosql.Type{tInt, tInt}}, // 0
		{"+", []octosql.Type{tFlt, tFlt}}, // 1
		{"+", []octosql.Type{tDur, tDur}}, // 2
		{"+", []octosql.Type{tStr, tStr}}, // 3
		{"-", []octosql.Type{tInt, tInt}}, // 4
		{"-", []octosql.Type{tInt}},       // 5
		{"-", []octosql.Type{tFlt, tFlt}}, // 6
		{"-", []octosql.Type{tFlt}},       // 7
		{"-", []octosql.Type{tDur, tDur}}, // 8
		{"-", []octosql.Type{tDur}},       // 9
		{"*", []octosql.Type{tInt, tInt}}, // 10
		{"*", []octosql.Type{tFlt, tFlt}}, // 11
		{"*", []octosql.Type{tDur, tInt}}, // 12
		{"*", []octosql.Type{tInt, tDur}}, // 13
		{"/", []octosql.Type{tInt, tInt}}, // 14
		{"/", []octosql.Type{tFlt, tFlt}}, // 15
		{"/", []octosql.Type{tDur, tInt}}, // 16
		{"/", []octosql.Type{tDur, tDur}}, // 17
	}
}

// VerifC13Arith: + - * / on Int, Float, Duration and String concatenation against wrapping int64
// arithmetic, IEEE operations in the same order, Go truncated division (divisor != 0).
func VerifC13Arith() {
	setup()
	ov := arithOverloads()
	k := zzverif.Choice("case", len(ov))
	o := ov[k]
	a := ndArgs(o.types, zzverif.Param("S"))
	assumeNoPanicInputs(o.name, a, 0)
	if k == 16 {
		zzverif.Assume(a[1].Int != 0) // Duration / Int 0 panics (C07)
	}
	r := call(o.name, o.types, a)
	zzverif.Reach("evaluated")
	switch k {
	case 0:
		zzverif.Assert(isInt(r, a[0].Int+a[1].Int), "int-add")
	case 1:
		zzverif.Assert(isFloat(r, a[0].Float+a[1].Float), "float-add")
	case 2:
		zzverif.Assert(isDur(r, int64(a[0].Duration)+int64(a[1].Duration)), "duration-add")
	case 3:
		zzverif.Assert(isStr(r, a[0].Str+a[1].Str), "string-concat")
	case 4:
		zzverif.Assert(isInt(r, a[0].Int-a[1].Int), "int-sub")
	case 5:
		zzverif.Assert(isInt(r, 0-a[0].Int), "int-neg")
	case 6:
		zzverif.Assert(isFloat(r, a[0].Float-a[1].Float), "float-sub")
	case 7:
		// IEEE negation flips the sign bit (also of zeros and infinities)
		zzverif.Assert(zzverif.And(r.TypeID == octosql.TypeIDFloat,
			zzverif.Or(zzverif.And(zzverif.F64IsNaN(r.Float), zzverif.F64IsNaN(a[0].Float)),
				math.Float64bits(r.Float) == math.Float64bits(a[0].Float)^(1<<63))), "float-neg")
	case 8:
		zzverif.Assert(isDur(r, int64(a[0].Duration)-int64(a[1].Duration)), "duration-sub")
	case 9:
		zzverif.Assert(isDur(r, 0-int64(a[0].Duration)), "duration-neg")
	case 10:
		zzverif.Assert(isInt(r, a[0].Int*a[1].Int), "int-mul")
	case 11:
		zzverif.Assert(isFloat(r, a[0].Float*a[1].Float), "float-mul")
	case 12:
		zzverif.Assert(isDur(r, int64(a[0].Duration)*a[1].Int), "duration-mul-int")
	case 13:
		zzverif.Assert(isDur(r, int64(a[1].Duration)*a[0].Int), "int-mul-duration")
	case 14:
		zzverif.Assert(isInt(r, a[0].Int/a[1].Int), "int-div")
	case 15:
		zzverif.Assert(isFloat(r, a[0].Float/a[1].Float), "float-div")
	case 16:
		zzverif.Assert(isDur(r, int64(a[0].Duration)/a[1].Int), "duration-div-int")
	case 17:
		zzverif.Assert(isFloat(r, float64(int64(a[0].Duration))/float64(int64(a[1].Duration))), "duration-div-duration")
	}
}

// VerifC13Repeat: String * Int and Int * String repeat the string (count 0..R; negative counts
// panic and belong to C07).
func VerifC13Repeat() {
	setup()
	s := zzverif.Bytes("s", zzverif.Param("S"))
	n := zzverif.Choice("n", zzverif.Param("R")+1)
	want := ""
	for i := 0; i < n; i++ {
		want += s
	}
	if zzverif.Choice("order", 2) == 0 {
		r := call("*", []octosql.Type{tStr, tInt}, []octosql.Value{octosql.NewString(s), octosql.NewInt(int64(n))})
		zzverif.Assert(isStr(r, want), "string-times-int")
	} else {
		r := call("*", []octosql.Type{tInt, tStr}, []octosql.Value{octosql.NewInt(int64(n)), octosql.NewString(s)})
		zzverif.Assert(isStr(r, want), "int-times-string")
	}
}

// ---------- Time +- Duration ----------

// VerifC13TimeArith: Time + Duration, Duration + Time, Time - Duration move the instant by exactly
// the duration (instants in 1678..2262 so that UnixNano is defined, result in the same range).
func VerifC13TimeArith() {
	setup()
	k := zzverif.Choice("case", 3)
	t := vx.ValueOfType("t", tTime, 0, 0)
	d := zzverif.Int64("d")
	const lim = int64(9214646400) * 1000000000 // |UnixNano| bound used by the generator
	t0 := t.Time.UnixNano()
	delta := d
	if k == 2 {
		zzverif.Assume(d != math.MinInt64)
		delta = -d
	}
	sum := t0 + delta
	// no int64 overflow of t0+delta and the result stays inside the generator's range
	zzverif.Assume(zzverif.And((delta >= 0) == (sum >= t0), zzverif.And(sum > -lim, sum < lim)))
	var r octosql.Value
	switch k {
	case 0:
		r = call("+", []octosql.Type{tTime, tDur}, []octosql.Value{t, octosql.NewDuration(time.Duration(d))})
	case 1:
		r = call("+", []octosql.Type{tDur, tTime}, []octosql.Value{octosql.NewDuration(time.Duration(d)), t})
	default:
		r = call("-", []octosql.Type{tTime, tDur}, []octosql.Value{t, octosql.NewDuration(time.Duration(d))})
	}
	zzverif.Reach("evaluated")
	zzverif.Assert(r.TypeID == octosql.TypeIDTime, "result-is-time")
	zzverif.Assert(r.Time.UnixNano() == sum, "instant-moved-by-duration")
}

// ---------- math ----------

func mathOverloads() []overload {
	return []overload{
		{"abs", []octosql.Type{tInt}},       // 0
		{"abs", []octosql.Type{tFlt}},       // 1
		{"sqrt", []octosql.Type{tFlt}},      // 2
		{"ceil", []octosql.Type{tFlt}},      // 3
		{"floor", []octosql.Type{tFlt}},     // 4
		{"log", []octosql.Type{tFlt}},       // 5
		{"log2", []octosql.Type{tFlt}},      // 6
		{"log10", []octosql.Type{tFlt}},     // 7
		{"pow", []octosql.Type{tFlt, tFlt}}, // 8
	}
}

// VerifC13Math: abs / sqrt / ceil / floor exactly (IEEE), log* / pow as plumbing (the library
// function is uninterpreted: the result must be that function of exactly the argument(s)).
func VerifC13Math() {
	setup()
	ov := mathOverloads()
	k := zzverif.Choice("case", len(ov))
	o := ov[k]
	a := ndArgs(o.types, 0)
	r := call(o.name, o.types, a)
	zzverif.Reach("evaluated")
	var x float64
	if k > 0 {
		x = a[0].Float
		zzverif.Assert(r.TypeID == octosql.TypeIDFloat, "result-is-float")
	}
	nan := zzverif.F64IsNaN(x)
	rnan := zzverif.F64IsNaN(r.Float)
	_ = rnan
	switch k {
	case 0:
		n := a[0].Int
		zzverif.Assert(isInt(r, zzverif.IteInt64(n < 0, 0-n, n)), "int-abs")
		zzverif.Assert(zzverif.Or(r.Int >= 0, n == math.MinInt64), "int-abs-nonnegative-unless-minint")
	case 1:
		// |x|: sign bit cleared, everything else unchanged
		zzverif.Assert(zzverif.Or(zzverif.And(nan, rnan),
			math.Float64bits(r.Float) == math.Float64bits(x)&^(1<<63)), "float-abs")
	case 2:
		zzverif.Assert(sameFloat(r.Float, math.Sqrt(x)), "sqrt")
	case 3:
		zzverif.Assert(sameFloat(r.Float, math.Ceil(x)), "ceil")
		zzverif.Assert(zzverif.Or(nan, zzverif.And(!zzverif.F64Lt(r.Float, x), sameFloat(r.Float, math.Trunc(r.Float)))), "ceil-is-integral-upper-bound")
	case 4:
		zzverif.Assert(sameFloat(r.Float, math.Floor(x)), "floor")
		zzverif.Assert(zzverif.Or(nan, zzverif.And(!zzverif.F64Lt(x, r.Float), sameFloat(r.Float, math.Trunc(r.Float)))), "floor-is-integral-lower-bound")
	case 5:
		zzverif.Assert(math.Float64bits(r.Float) == math.Float64bits(math.Log(x)), "log-plumbing")
	case 6:
		zzverif.Assert(math.Float64bits(r.Float) == math.Float64bits(math.Log2(x)), "log2-plumbing")
	case 7:
		zzverif.Assert(math.Float64bits(r.Float) == math.Float64bits(math.Log10(x)), "log10-plumbing")
	case 8:
		zzverif.Assert(math.Float64bits(r.Float) == math.Float64bits(math.Pow(x, a[1].Float)), "pow-plumbing")
	}
}

// ---------- conversions ----------

// VerifC13Conv: int() / float() of non-string arguments, and totality of string().
func VerifC13Conv() {
	setup()
	k := zzverif.Choice("case", 8)
	switch k {
	case 0:
		x := zzverif.Int64("x")
		r := call("int", []octosql.Type{tInt}, []octosql.Value{octosql.NewInt(x)})
		zzverif.Assert(isInt(r, x), "int-of-int")
	case 1:
		b := zzverif.Bool("b")
		r := call("int", []octosql.Type{tBool}, []octosql.Value{octosql.NewBoolean(b)})
		zzverif.Assert(isInt(r, zzverif.IteInt64(b, 1, 0)), "int-of-boolean")
	case 2:
		// Go leaves float->int conversion of NaN and of values outside int64 implementation-defined:
		// only in-range arguments are asserted: the result is the argument truncated toward zero.
		f := zzverif.Float64("f")
		zzverif.Assume(zzverif.And(!zzverif.F64Lt(f, -9223372036854775808.0), zzverif.F64Lt(f, 9223372036854775808.0)))
		r := call("int", []octosql.Type{tFlt}, []octosql.Value{octosql.NewFloat(f)})
		zzverif.Assert(r.TypeID == octosql.TypeIDInt, "int-of-float-is-int")
		zzverif.Assert(zzverif.F64Eq(float64(r.Int), math.Trunc(f)), "int-of-float-truncates")
	case 3:
		d := zzverif.Int64("d")
		r := call("int", []octosql.Type{tDur}, []octosql.Value{octosql.NewDuration(time.Duration(d))})
		zzverif.Assert(isInt(r, d), "int-of-duration")
	case 4:
		f := zzverif.Float64("f")
		r := call("float", []octosql.Type{tFlt}, []octosql.Value{octosql.NewFloat(f)})
		zzverif.Assert(zzverif.And(r.TypeID == octosql.TypeIDFloat, math.Float64bits(r.Float) == math.Float64bits(f)), "float-of-float")
	case 5:
		x := zzverif.Int64("x")
		r := call("float", []octosql.Type{tInt}, []octosql.Value{octosql.NewInt(x)})
		zzverif.Assert(isFloat(r, float64(x)), "float-of-int")
	case 6:
		d := zzverif.Int64("d")
		r := call("float", []octosql.Type{tDur}, []octosql.Value{octosql.NewDuration(time.Duration(d))})
		zzverif.Assert(isFloat(r, float64(d)), "float-of-duration")
	case 7:
		// string(x): the rendering is not specified; only totality and the result type are asserted
		// (Time and Duration renderings are outside the claim: time.Format / Duration.String)
		v := ndPrintable("v", zzverif.Param("D"), 2, zzverif.Param("S"))
		ty := octosql.Any
		if zzverif.Choice("typed", 2) == 1 {
			ty = v.Type()
		}
		r := call("string", []octosql.Type{ty}, []octosql.Value{v})
		zzverif.Assert(r.TypeID == octosql.TypeIDString, "string-returns-string")
	}
	zzverif.Reach("evaluated")
}

// ndPrintable: NULL, Int, Float, Boolean, String, and (depth > 0) lists / objects / tuples of them.
func ndPrintable(name string, depth, maxElems, strLen int) octosql.Value {
	kinds := []int{octosql.VKNull, octosql.VKInt, octosql.VKFloat, octosql.VKBoolean, octosql.VKString}
	n := len(kinds)
	if depth > 0 {
		n += 3
	}
	k := zzverif.Choice(name+".kind", n)
	if k < len(kinds) {
		return octosql.VerifNDScalar(name, kinds[k], strLen)
	}
	cnt := zzverif.Choice(name+".n", maxElems+1)
	elems := make([]octosql.Value, cnt)
	for i := range elems {
		elems[i] = ndPrintable(name+"."+argName(i), depth-1, maxElems, strLen)
	}
	switch k - len(kinds) {
	case 0:
		return octosql.NewList(elems)
	case 1:
		return octosql.NewStruct(elems)
	}
	return octosql.NewTuple(elems)
}

func isDigit(c byte) bool { return zzverif.And(c >= '0', c <= '9') }

// refParseInt is the definition of a base-10 int64 literal for strings of at most 18 bytes (no
// overflow possible): an optional sign followed by one or more digits.
func refParseInt(s string) (ok bool, val int64) {
	if len(s) == 0 {
		return false, 0
	}
	signed := zzverif.Or(s[0] == '+', s[0] == '-')
	neg := s[0] == '-'
	ok = true
	if len(s) == 1 {
		ok = isDigit(s[0])
	}
	for i := 0; i < len(s); i++ {
		d := isDigit(s[i])
		if i == 0 {
			d = zzverif.Or(d, signed)
			val = zzverif.IteInt64(signed, 0, int64(s[0]-'0'))
		} else {
			val = val*10 + int64(s[i]-'0')
		}
		ok = zzverif.And(ok, d)
	}
	if len(s) == 1 {
		return ok, val
	}
	return ok, zzverif.IteInt64(neg, 0-val, val)
}

// VerifC13ParseInt: int(String) on every string of 0..S bytes: the decimal value, NULL when the
// string is not a decimal integer literal.
func VerifC13ParseInt() {
	setup()
	s := zzverif.Bytes("s", zzverif.Param("S"))
	r := call("int", []octosql.Type{tStr}, []octosql.Value{octosql.NewString(s)})
	zzverif.Reach("evaluated")
	ok, val := refParseInt(s)
	zzverif.Assert(zzverif.Or(zzverif.And(!ok, isNull(r)), zzverif.And(ok, isInt(r, val))), "int-of-string")
}

// ---------- unix time ----------

// VerifC13UnixFloat: for Float arguments 2^(ELO-1) <= |x| < 2^EHI (ELO = 0: from zero) the round
// trip yields x when x is integral and a neighbouring integer (floor or ceil) otherwise. The
// binary exponent is a forked choice (a case split that covers the whole stated domain; it makes
// math.Modf's bit mask concrete per path).
func VerifC13UnixFloat() {
	setup()
	f := zzverif.Float64("f")
	e := zzverif.Param("ELO") + zzverif.Choice("exponent", zzverif.Param("EHI")-zzverif.Param("ELO")+1)
	field := (math.Float64bits(f) >> 52) & 0x7ff
	if e == 0 {
		zzverif.Assume(field < 1023) // |f| < 1 (zeros and subnormals included)
	} else {
		zzverif.Assume(field == uint64(1023+e-1)) // 2^(e-1) <= |f| < 2^e
	}
	t := call("time_from_unix", []octosql.Type{tFlt}, []octosql.Value{octosql.NewFloat(f)})
	zzverif.Assert(t.TypeID == octosql.TypeIDTime, "time-from-unix-float-is-time")
	r := call("time_to_unix", []octosql.Type{tTime}, []octosql.Value{t})
	zzverif.Reach("evaluated")
	zzverif.Assert(r.TypeID == octosql.TypeIDInt, "time-to-unix-is-int")
	integral := zzverif.F64Eq(math.Trunc(f), f)
	rf := float64(r.Int)
	zzverif.Assert(zzverif.Implies(integral, zzverif.F64Eq(rf, f)), "unix-float-round-trip-integral")
	zzverif.Assert(zzverif.Or(zzverif.F64Eq(rf, math.Floor(f)), zzverif.F64Eq(rf, math.Ceil(f))), "unix-float-round-trip-neighbour")
}

// VerifC13Unix: time_to_unix(time_from_unix(x)) = x for every Int x; time_to_unix of an arbitrary
// instant is its whole number of seconds since the epoch.
func VerifC13Unix() {
	setup()
	switch zzverif.Choice("case", 2) {
	case 0:
		x := zzverif.Int64("x")
		t := call("time_from_unix", []octosql.Type{tInt}, []octosql.Value{octosql.NewInt(x)})
		zzverif.Assert(t.TypeID == octosql.TypeIDTime, "time-from-unix-int-is-time")
		r := call("time_to_unix", []octosql.Type{tTime}, []octosql.Value{t})
		zzverif.Assert(isInt(r, x), "unix-int-round-trip")
	case 1:
		// time_to_unix of an arbitrary instant = whole seconds since the epoch (floor)
		sec := zzverif.Int64("sec")
		nsec := zzverif.Int64("nsec")
		zzverif.Assume(zzverif.And(nsec >= 0, nsec < 1000000000))
		tm := time.Unix(sec, nsec)
		if zzverif.Choice("utc", 2) == 1 {
			tm = tm.UTC()
		}
		r := call("time_to_unix", []octosql.Type{tTime}, []octosql.Value{octosql.NewTime(tm)})
		zzverif.Assert(isInt(r, sec), "time-to-unix-seconds")
	}
	zzverif.Reach("evaluated")
}

// ---------- IN / NOT IN ----------

func ndScalarType(name string) octosql.Type {
	return []octosql.Type{tInt, tStr, tBool, tDur, tFlt}[zzverif.Choice(name, 5)]
}

// refEq is equality of two NULL-free scalars of the same type (floats: IEEE ==, NaN excluded by
// the caller).
func refEq(a, b octosql.Value) bool {
	switch a.TypeID {
	case octosql.TypeIDInt:
		return a.Int == b.Int
	case octosql.TypeIDString:
		return zzverif.StrEq(a.Str, b.Str)
	case octosql.TypeIDBoolean:
		return a.Boolean == b.Boolean
	case octosql.TypeIDDuration:
		return a.Duration == b.Duration
	case octosql.TypeIDFloat:
		return zzverif.F64Eq(a.Float, b.Float)
	}
	panic("refEq: kind")
}

// VerifC13In: x IN list / x NOT IN list over NULL-free lists ([T] values of 0..N elements and
// tuples of exactly N elements): membership by equality. NaN is excluded (its equality is not
// specified).
func VerifC13In() {
	setup()
	n := zzverif.Param("N")
	et := ndScalarType("elem")
	var ct octosql.Type
	tuple := zzverif.Choice("container", 2) == 1
	if tuple {
		els := make([]octosql.Type, n)
		for i := range els {
			els[i] = et
		}
		ct = tupleOf(els...)
	} else {
		ct = listOf(et)
	}
	x := vx.ValueOfType("x", et, n, zzverif.Param("S"))
	c := vx.ValueOfType("c", ct, n, zzverif.Param("S"))
	elems := c.List
	if tuple {
		elems = c.Tuple
	}
	member := false
	for i := range elems {
		member = zzverif.Or(member, refEq(x, elems[i]))
		if et.TypeID == octosql.TypeIDFloat {
			zzverif.Assume(!zzverif.F64IsNaN(elems[i].Float))
		}
	}
	if et.TypeID == octosql.TypeIDFloat {
		zzverif.Assume(!zzverif.F64IsNaN(x.Float))
	}
	types := []octosql.Type{et, ct}
	vals := []octosql.Value{x, c}
	if zzverif.Choice("negated", 2) == 0 {
		r := call("in", types, vals)
		zzverif.Assert(isBool(r, member), "in-is-membership")
	} else {
		r := call("not in", types, vals)
		zzverif.Assert(isBool(r, !member), "not-in-is-non-membership")
	}
	zzverif.Reach("evaluated")
}

// ---------- list indexing ----------

// VerifC13Index: list[i] is the i-th element when 0 <= i < len(list), NULL otherwise. NEG=0
// restricts to i >= 0 (on the pinned baseline a negative index panicked - C07; since repo commit
// 73c045e it yields NULL, which NEG=1 asserts).
func VerifC13Index() {
	setup()
	n := zzverif.Param("N")
	et := []octosql.Type{tInt, tStr, vx.Nullable(tInt)}[zzverif.Choice("elem", 3)]
	lt := listOf(et)
	l := vx.ValueOfType("l", lt, n, zzverif.Param("S"))
	i := zzverif.Int64("i")
	if zzverif.Param("NEG") == 0 {
		zzverif.Assume(i >= 0)
	}
	r := call("[]", []octosql.Type{lt, tInt}, []octosql.Value{l, octosql.NewInt(i)})
	zzverif.Reach("evaluated")
	want := zzverif.And(zzverif.Or(i < 0, i >= int64(len(l.List))), isNull(r))
	for j := range l.List {
		want = zzverif.Or(want, zzverif.And(i == int64(j), scalarEq(r, l.List[j])))
	}
	zzverif.Assert(want, "index-is-element-or-null")
}

// ---------- COALESCE ----------

// coalesceTypes: argument types of COALESCE: scalars (nullable or not), the NULL literal's type,
// and (CT >= 1) Time, Duration, lists of Int and objects {a: Int, b: String} of identical layout.
func coalesceTypes(ct int) []octosql.Type {
	out := []octosql.Type{octosql.Null, tInt, vx.Nullable(tInt), vx.Nullable(tStr), vx.Nullable(tFlt), vx.Nullable(tBool)}
	if ct >= 1 {
		obj := structOf([]string{"a", "b"}, []octosql.Type{tInt, tStr})
		out = append(out, vx.Nullable(tTime), vx.Nullable(tDur), vx.Nullable(listOf(tInt)), vx.Nullable(obj), obj)
	}
	if ct >= 2 {
		// tuples: on the pinned baseline ObjectLayoutFixer.fixLayout indexed value.List for a tuple
		// value and panicked (C07 suspect, repaired in repo commit dd819f6)
		out = append(out, vx.Nullable(tupleOf(tInt, tStr)))
	}
	return out
}

// VerifC13Coalesce: COALESCE(a0..a(k-1)), k = 1..K, through logical.Coalesce.Typecheck,
// Materialize (ObjectLayoutFixer) and execution.Coalesce.Evaluate = first non-NULL argument,
// NULL when there is none.
func VerifC13Coalesce() {
	setup()
	k := 1 + zzverif.Choice("k", zzverif.Param("K"))
	u := coalesceTypes(zzverif.Param("CT"))
	types := make([]octosql.Type, k)
	vals := make([]octosql.Value, k)
	for i := range types {
		types[i] = u[zzverif.Choice(argName(i)+".type", len(u))]
		vals[i] = vx.ValueOfType(argName(i), types[i], 1, zzverif.Param("S"))
	}
	expr, oc := typecheck(logical.NewCoalesce(vars(k)), types)
	zzverif.Assert(oc == tcOK, "typechecks")
	r, err := eval(expr, types, vals)
	zzverif.Assert(err == nil, "no-error")
	zzverif.Reach("evaluated")
	// first non-NULL argument (TypeIDs are concrete on every path)
	want := octosql.NewNull()
	for i := k - 1; i >= 0; i-- {
		if vals[i].TypeID != octosql.TypeIDNull {
			want = vals[i]
		}
	}
	zzverif.Assert(scalarEq(r, want), "coalesce-is-first-non-null")
}
