package vfn

import (
	"github.com/cube2222/octosql/functions"
	"github.com/cube2222/octosql/logical"
	"github.com/cube2222/octosql/octosql"
	"github.com/cube2222/octosql/physical"
	"github.com/cube2222/octosql/zzverif"
	"github.com/cube2222/octosql/zzverif/vx"
)

// ndCall enumerates one function call: a function name (param FN >= 0 fixes it, FN = -1 forks
// over all names), an argument count 0..AR offered by some overload, and one argument type per
// argument from baseTypes(TS) (each optionally nullable, or all nullable when forceNullable).
// It returns the typechecked expression (real logical.FunctionExpression.Typecheck).
func ndCall(forceNullable bool) (name string, types []octosql.Type, expr physical.Expression, outcome int) {
	fm := functions.FunctionMap()
	checkNames(fm)
	names := functionNames()
	if fn := zzverif.Param("FN"); fn >= 0 {
		name = names[fn]
	} else {
		name = names[zzverif.Choice("fn", len(names))]
	}
	offered := arities(fm[name])
	n := zzverif.Choice("arity", zzverif.Param("AR")+1)
	if !offered[n] {
		return name, nil, expr, tcRejected
	}
	types = make([]octosql.Type, n)
	for i := range types {
		types[i] = ndArgType(argName(i), zzverif.Param("TS"))
		if forceNullable {
			types[i] = vx.Nullable(types[i])
		}
	}
	expr, outcome = typecheck(logical.NewFunctionExpression(name, vars(n)), types)
	return name, types, expr, outcome
}

// hasTimeOrDuration: the value contains a Time or a Duration (whose rendering by string() needs
// time.Format / the local time zone, which the engine cannot execute).
func hasTimeOrDuration(v octosql.Value) bool {
	switch v.TypeID {
	case octosql.TypeIDTime, octosql.TypeIDDuration:
		return true
	case octosql.TypeIDList:
		for i := range v.List {
			if hasTimeOrDuration(v.List[i]) {
				return true
			}
		}
	case octosql.TypeIDStruct:
		for i := range v.Struct {
			if hasTimeOrDuration(v.Struct[i]) {
				return true
			}
		}
	case octosql.TypeIDTuple:
		for i := range v.Tuple {
			if hasTimeOrDuration(v.Tuple[i]) {
				return true
			}
		}
	}
	return false
}

// notEvaluable: calls whose body the engine cannot execute (regexp, wall clock, time.Parse) or
// that never produce a value (panic()). Their static type is still checked for being accepted.
func notEvaluable(name string) bool {
	switch name {
	case "like", "~", "~*", "now", "parse_time", "panic":
		return true
	}
	return false
}

// VerifC08Functions: for every function name, argument count and argument types accepted by the
// real typechecker, the value computed by the real Materialize + Evaluate on arbitrary arguments
// CONFORMING to the argument types matches the type the typechecker reported.
func VerifC08Functions() {
	setup()
	name, types, expr, oc := ndCall(false)
	if oc == tcCrashed {
		// a Go runtime error inside the typechecker: no type is reported, nothing to check here;
		// asserted separately by VerifC07TypecheckTotal (property C07)
		zzverif.Reach("typechecker-crashed")
		return
	}
	if oc != tcOK {
		zzverif.Reach("rejected")
		return
	}
	zzverif.Reach("accepted")
	if notEvaluable(name) {
		zzverif.Reach("accepted-not-evaluated")
		return
	}
	vals := make([]octosql.Value, len(types))
	for i := range types {
		vals[i] = vx.ValueOfType(argName(i), types[i], zzverif.Param("E"), zzverif.Param("S"))
		zzverif.Assert(octosql.VerifMatches(vals[i], types[i]), "generated-argument-conforms")
	}
	if name == "string" && hasTimeOrDuration(vals[0]) {
		zzverif.Reach("string-of-time-not-evaluated")
		return
	}
	assumeNoPanicInputs(name, vals, 2)
	r, err := eval(expr, types, vals)
	if err != nil {
		zzverif.Reach("runtime-error")
		return
	}
	zzverif.Reach("evaluated")
	// known findings: int(String) / float(String) are declared Int / Float but return NULL when the
	// string does not parse (region: the argument value is a String and the result is NULL)
	str := len(vals) == 1 && vals[0].TypeID == octosql.TypeIDString
	zzverif.Known("C08-int-of-string-null", zzverif.And(name == "int" && str, isNull(r)))
	zzverif.Known("C08-float-of-string-null", zzverif.And(name == "float" && str, isNull(r)))
	zzverif.Assert(octosql.VerifMatches(r, expr.Type), "value-matches-static-type")
}

// ---------- And / Or / Coalesce / TypeCast / Tuple / ObjectFieldAccess ----------

func objType() octosql.Type {
	return structOf([]string{"a", "b"}, []octosql.Type{tInt, tStr})
}

// logicTypes: operand types for AND / OR.
func logicTypes() []octosql.Type {
	return []octosql.Type{
		tBool, vx.Nullable(tBool), octosql.Null, octosql.Any, tInt,
		octosql.TypeSum(tInt, tBool), vx.Nullable(octosql.TypeSum(tInt, tBool)),
	}
}

// castTypes: operand types for a type cast (unions) plus one non-union.
func castTypes() []octosql.Type {
	return []octosql.Type{
		vx.Nullable(tInt), octosql.TypeSum(tInt, tStr), vx.Nullable(octosql.TypeSum(tInt, tFlt)),
		octosql.TypeSum(tStr, listOf(tInt)), octosql.TypeSum(tInt, objType()), tInt,
	}
}

// objectTypes: operand types for object field access.
func objectTypes() []octosql.Type {
	return []octosql.Type{
		objType(), vx.Nullable(objType()), octosql.TypeSum(tInt, objType()),
		vx.Nullable(octosql.TypeSum(tInt, objType())), tInt,
	}
}

// VerifC08Logic: the same soundness statement for the non-function expression forms that the
// logical layer typechecks itself: AND, OR, COALESCE, type cast, tuple, object field access
// (with the TypeAssertion nodes the typechecker inserts).
func VerifC08Logic() {
	setup()
	var e logical.Expression
	var types []octosql.Type
	fieldIndexRegion := false
	form := zzverif.Choice("form", 6)
	switch form {
	case 0, 1:
		u := logicTypes()
		types = []octosql.Type{u[zzverif.Choice("l", len(u))], u[zzverif.Choice("r", len(u))]}
		if form == 0 {
			e = logical.NewAnd(logical.NewVariable(argName(0)), logical.NewVariable(argName(1)))
		} else {
			e = logical.NewOr(logical.NewVariable(argName(0)), logical.NewVariable(argName(1)))
		}
	case 2:
		k := 1 + zzverif.Choice("k", zzverif.Param("K"))
		u := coalesceTypes(zzverif.Param("CT"))
		types = make([]octosql.Type, k)
		for i := range types {
			types[i] = u[zzverif.Choice(argName(i)+".type", len(u))]
		}
		e = logical.NewCoalesce(vars(k))
	case 3:
		u := castTypes()
		types = []octosql.Type{u[zzverif.Choice("arg", len(u))]}
		target := octosql.TypeID(zzverif.Choice("target", int(octosql.TypeIDTuple)+1))
		e = logical.NewTypeCast(logical.NewVariable(argName(0)), target)
	case 4:
		k := zzverif.Choice("k", 3)
		types = make([]octosql.Type, k)
		for i := range types {
			types[i] = ndArgType(argName(i), 1)
		}
		e = logical.NewTuple(vars(k))
	default:
		u := objectTypes()
		arg := zzverif.Choice("arg", len(u))
		types = []octosql.Type{u[arg]}
		field := []string{"a", "b", "c"}[zzverif.Choice("field", 3)]
		e = logical.NewObjectFieldAccess(logical.NewVariable(argName(0)), field)
		// known finding: the operand is a union with a non-object, non-NULL alternative and the
		// accessed field is not the first field of the object (see reports/fn1.md)
		fieldIndexRegion = (arg == 2 || arg == 3) && field == "b"
	}
	expr, oc := typecheck(e, types)
	zzverif.Assert(oc != tcCrashed, "typechecker-does-not-crash")
	if oc != tcOK {
		zzverif.Reach("rejected")
		return
	}
	zzverif.Reach("accepted")
	vals := make([]octosql.Value, len(types))
	for i := range types {
		vals[i] = vx.ValueOfType(argName(i), types[i], 1, zzverif.Param("S"))
	}
	r, err := eval(expr, types, vals)
	if err != nil {
		zzverif.Reach("runtime-error")
		return
	}
	zzverif.Reach("evaluated")
	zzverif.Known("C08-object-field-index-in-union", fieldIndexRegion && vals[0].TypeID == octosql.TypeIDStruct)
	zzverif.Assert(octosql.VerifMatches(r, expr.Type), "value-matches-static-type")
}

// VerifC07TypecheckTotal (property C07, kept here because it shares the enumeration): the
// typechecker either accepts a call or rejects it with a message; it never dies with a Go
// runtime error (nil dereference / index out of range).
func VerifC07TypecheckTotal() {
	setup()
	_, _, _, oc := ndCall(zzverif.Param("NULLABLE") == 1)
	zzverif.Reach("typechecked")
	zzverif.Assert(oc != tcCrashed, "typechecker-does-not-crash")
}
