package vfn

import (
	"github.com/cube2222/octosql/functions"
	"github.com/cube2222/octosql/logical"
	"github.com/cube2222/octosql/octosql"
	"github.com/cube2222/octosql/physical"
	"github.com/cube2222/octosql/zzverif"
	"github.com/cube2222/octosql/zzverif/vx"
)

// VerifC11Strict: every call that the real typechecker resolves to a Strict overload returns NULL
// (and no error) whenever at least one argument is NULL. All argument types are nullable; the
// null checks are the nullCheckIndices computed by the real Materialize; the non-NULL arguments
// are arbitrary values of their types.
func VerifC11Strict() {
	setup()
	name, types, expr, oc := ndCall(true)
	if oc == tcCrashed {
		zzverif.Reach("typechecker-crashed") // see VerifC07TypecheckTotal
		return
	}
	if oc != tcOK {
		zzverif.Reach("rejected")
		return
	}
	if !expr.FunctionCall.FunctionDescriptor.Strict {
		zzverif.Reach("accepted-non-strict")
		zzverif.Assert(name == "is null" || name == "is not null" || name == "string" || name == "panic", "non-strict-functions-are-the-four-known")
		return
	}
	n := len(types)
	if n == 0 {
		zzverif.Reach("strict-without-arguments")
		return
	}
	zzverif.Reach("accepted-strict")
	mask := 1 + zzverif.Choice("nulls", 1<<uint(n)-1) // non-empty set of NULL positions
	vals := make([]octosql.Value, n)
	for i := range vals {
		if mask&(1<<uint(i)) != 0 {
			vals[i] = octosql.NewNull()
		} else {
			vals[i] = vx.ValueOfType(argName(i), types[i], zzverif.Param("E"), zzverif.Param("S"))
		}
	}
	r, err := eval(expr, types, vals)
	// The only legitimate error is a failed runtime type assertion (inserted by the typechecker
	// around an argument whose static type only MAY fit the overload) on a non-NULL argument;
	// arguments are evaluated before the NULL check.
	asserted := false
	for i := range expr.FunctionCall.Arguments {
		if expr.FunctionCall.Arguments[i].ExpressionType == physical.ExpressionTypeTypeAssertion && mask&(1<<uint(i)) == 0 {
			asserted = true
		}
	}
	if err != nil {
		zzverif.Assert(asserted, "error-only-from-type-assertion-on-non-null-argument")
		zzverif.Reach("runtime-type-error")
		return
	}
	zzverif.Assert(isNull(r), "strict-call-with-null-argument-is-null")
}

// VerifC11IsNull: IS NULL / IS NOT NULL return TRUE or FALSE - never NULL - for every value of
// every argument type, and the answer is right.
func VerifC11IsNull() {
	setup()
	negated := zzverif.Choice("negated", 2) == 1
	name := "is null"
	if negated {
		name = "is not null"
	}
	t := ndArgType("a0", zzverif.Param("TS"))
	var v octosql.Value
	if t.TypeID == octosql.TypeIDAny {
		v = octosql.VerifNDValue("a0", zzverif.Param("D"), zzverif.Param("E"), zzverif.Param("S"))
	} else {
		v = vx.ValueOfType("a0", t, zzverif.Param("E"), zzverif.Param("S"))
	}
	r := call(name, []octosql.Type{t}, []octosql.Value{v})
	zzverif.Reach("evaluated")
	zzverif.Assert(r.TypeID == octosql.TypeIDBoolean, "is-null-never-returns-null")
	zzverif.Assert(r.Boolean == (isNull(v) != negated), "is-null-answer")
}

// VerifC11StrictMixed: as VerifC11Strict, but only SOME arguments have nullable static types (every
// non-empty subset of the positions, forked), the others are non-nullable, and NULLs are placed at
// a non-empty subset of the nullable positions: the null checks Materialize computes are then a
// proper subset of the argument positions (a nullable argument AFTER a non-nullable one included).
func VerifC11StrictMixed() {
	setup()
	fm := functions.FunctionMap()
	names := functionNames()
	name := names[zzverif.Choice("fn", len(names))]
	if fn := zzverif.Param("FN"); fn >= 0 {
		name = names[fn]
	}
	offered := arities(fm[name])
	n := 2 + zzverif.Choice("arity", zzverif.Param("AR")-1)
	if !offered[n] {
		return
	}
	nullable := 1 + zzverif.Choice("nullable-positions", 1<<uint(n)-2) // non-empty, not all
	types := make([]octosql.Type, n)
	for i := range types {
		types[i] = ndArgType(argName(i), zzverif.Param("TS"))
		if nullable&(1<<uint(i)) != 0 {
			types[i] = vx.Nullable(types[i])
		}
	}
	expr, oc := typecheck(logical.NewFunctionExpression(name, vars(n)), types)
	if oc != tcOK || !expr.FunctionCall.FunctionDescriptor.Strict {
		return
	}
	zzverif.Reach("accepted-strict")
	vals := make([]octosql.Value, n)
	anyNull := false
	for i := range vals {
		if nullable&(1<<uint(i)) != 0 && zzverif.Choice(argName(i)+".null", 2) == 1 {
			vals[i] = octosql.NewNull()
			anyNull = true
		} else {
			vals[i] = vx.ValueOfType(argName(i), octosql.NonNullable(types[i]), zzverif.Param("E"), zzverif.Param("S"))
		}
	}
	if !anyNull {
		return
	}
	r, err := eval(expr, types, vals)
	asserted := false
	for i := range expr.FunctionCall.Arguments {
		if expr.FunctionCall.Arguments[i].ExpressionType == physical.ExpressionTypeTypeAssertion && vals[i].TypeID != octosql.TypeIDNull {
			asserted = true
		}
	}
	if err != nil {
		zzverif.Assert(asserted, "error-only-from-type-assertion-on-non-null-argument")
		return
	}
	zzverif.Assert(isNull(r), "strict-call-with-null-argument-is-null")
}
