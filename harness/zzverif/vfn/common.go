// Package vfn holds the function-level harnesses of properties C13 (function specifications),
// C08 (static types are sound) and C11 (strict functions propagate NULL, IS [NOT] NULL is
// two-valued). It is injected by the /verif build overlay and is not part of the repository.
package vfn

import (
	"context"
	"fmt"
	"math"

	"github.com/cube2222/octosql/execution"
	"github.com/cube2222/octosql/functions"
	"github.com/cube2222/octosql/logical"
	"github.com/cube2222/octosql/octosql"
	"github.com/cube2222/octosql/physical"
	"github.com/cube2222/octosql/zzverif"
	"github.com/cube2222/octosql/zzverif/vx"
)

// ---------- running the real front end on one expression ----------

func argName(i int) string { return fmt.Sprintf("a%d", i) }

func vars(n int) []logical.Expression {
	out := make([]logical.Expression, n)
	for i := range out {
		out[i] = logical.NewVariable(argName(i))
	}
	return out
}

func physEnv(types []octosql.Type) physical.Environment {
	fields := make([]physical.SchemaField, len(types))
	for i := range types {
		fields[i] = physical.SchemaField{Name: argName(i), Type: types[i]}
	}
	return physical.Environment{
		Functions:       functions.FunctionMap(),
		VariableContext: &physical.VariableContext{Fields: fields},
	}
}

// Typecheck outcome
const (
	tcOK       = iota
	tcRejected // the typechecker refused the expression (it panics with a message by design)
	tcCrashed  // the typechecker died with a Go runtime error (nil dereference, index out of range)
)

// typecheck runs the real logical typechecker on e, whose variables a0.. have the given types.
func typecheck(e logical.Expression, types []octosql.Type) (expr physical.Expression, outcome int) {
	defer func() {
		if r := recover(); r != nil {
			outcome = tcRejected
			switch r.(type) {
			case string:
			case zzverif.AssertFailed:
				panic(r)
			case zzverif.AssumeFailed:
				panic(r)
			default:
				if _, isErr := r.(error); isErr {
					if _, isRuntime := r.(interface{ RuntimeError() }); isRuntime {
						outcome = tcCrashed
					}
				}
			}
		}
	}()
	mapping := map[string]string{}
	for i := range types {
		mapping[argName(i)] = argName(i)
	}
	logicalEnv := logical.Environment{
		UniqueVariableNames: &logical.VariableMapping{Mapping: mapping},
		UniqueNameGenerator: map[string]int{},
	}
	expr = e.Typecheck(context.Background(), physEnv(types), logicalEnv)
	return expr, tcOK
}

// eval materialises (real Materialize) and evaluates a typechecked expression on values.
func eval(expr physical.Expression, types []octosql.Type, values []octosql.Value) (octosql.Value, error) {
	ex, err := expr.Materialize(context.Background(), physEnv(types))
	if err != nil {
		return octosql.ZeroValue, err
	}
	return ex.Evaluate(execution.ExecutionContext{
		Context:         context.Background(),
		VariableContext: &execution.VariableContext{Values: values},
	})
}

// call typechecks name(a0..), asserts that it is accepted, evaluates it and asserts err == nil.
func call(name string, types []octosql.Type, values []octosql.Value) octosql.Value {
	expr, oc := typecheck(logical.NewFunctionExpression(name, vars(len(types))), types)
	zzverif.Assert(oc == tcOK, "typechecks")
	out, err := eval(expr, types, values)
	zzverif.Assert(err == nil, "no-error")
	return out
}

// ---------- small branch-free references ----------

func isNull(v octosql.Value) bool { return v.TypeID == octosql.TypeIDNull }

func isInt(v octosql.Value, x int64) bool {
	return zzverif.And(v.TypeID == octosql.TypeIDInt, v.Int == x)
}

func isBool(v octosql.Value, b bool) bool {
	return zzverif.And(v.TypeID == octosql.TypeIDBoolean, v.Boolean == b)
}

func isDur(v octosql.Value, x int64) bool {
	return zzverif.And(v.TypeID == octosql.TypeIDDuration, int64(v.Duration) == x)
}

func isStr(v octosql.Value, s string) bool {
	return zzverif.And(v.TypeID == octosql.TypeIDString, zzverif.StrEq(v.Str, s))
}

func signBit(x float64) bool { return math.Float64bits(x)>>63 != 0 }

// sameFloat: IEEE-identical results: both NaN, or equal with the same sign (so +0 != -0).
func sameFloat(a, b float64) bool {
	return zzverif.Or(
		zzverif.And(zzverif.F64IsNaN(a), zzverif.F64IsNaN(b)),
		zzverif.And(zzverif.F64Eq(a, b), signBit(a) == signBit(b)))
}

func isFloat(v octosql.Value, x float64) bool {
	return zzverif.And(v.TypeID == octosql.TypeIDFloat, sameFloat(v.Float, x))
}

// scalarEq: identical scalar values of the same TypeID (floats by sameFloat, times by instant).
func scalarEq(a, b octosql.Value) bool {
	if a.TypeID != b.TypeID {
		return false
	}
	switch a.TypeID {
	case octosql.TypeIDNull:
		return true
	case octosql.TypeIDInt:
		return a.Int == b.Int
	case octosql.TypeIDFloat:
		return sameFloat(a.Float, b.Float)
	case octosql.TypeIDBoolean:
		return a.Boolean == b.Boolean
	case octosql.TypeIDString:
		return zzverif.StrEq(a.Str, b.Str)
	case octosql.TypeIDTime:
		return zzverif.And(a.Time.Unix() == b.Time.Unix(), a.Time.Nanosecond() == b.Time.Nanosecond())
	case octosql.TypeIDDuration:
		return a.Duration == b.Duration
	case octosql.TypeIDList:
		return seqEq(a.List, b.List)
	case octosql.TypeIDStruct:
		return seqEq(a.Struct, b.Struct)
	case octosql.TypeIDTuple:
		return seqEq(a.Tuple, b.Tuple)
	}
	return false
}

func seqEq(a, b []octosql.Value) bool {
	if len(a) != len(b) {
		return false
	}
	ok := true
	for i := range a {
		ok = zzverif.And(ok, scalarEq(a[i], b[i]))
	}
	return ok
}

// ---------- argument type universe ----------

// short aliases of the scalar types (set by setup, which every harness calls first)
var tInt, tFlt, tBool, tStr, tTime, tDur octosql.Type

func setup() {
	tInt, tFlt, tBool, tStr, tTime, tDur = octosql.Int, octosql.Float, octosql.Boolean, octosql.String, octosql.Time, octosql.Duration
}

func listOf(t octosql.Type) octosql.Type {
	return octosql.Type{TypeID: octosql.TypeIDList, List: struct{ Element *octosql.Type }{Element: &t}}
}

func tupleOf(ts ...octosql.Type) octosql.Type {
	return octosql.Type{TypeID: octosql.TypeIDTuple, Tuple: struct{ Elements []octosql.Type }{Elements: ts}}
}

func structOf(names []string, ts []octosql.Type) octosql.Type {
	fields := make([]octosql.StructField, len(names))
	for i := range names {
		fields[i] = octosql.StructField{Name: names[i], Type: ts[i]}
	}
	return octosql.Type{TypeID: octosql.TypeIDStruct, Struct: struct{ Fields []octosql.StructField }{Fields: fields}}
}

// baseTypes is the universe of (non-nullable) argument types, by size class TS:
// 0: the six scalar types; 1: + NULL, Any, [Int], (Int, String), {a: Int};
// 2: + the type of an empty list, [String | NULL], Int | String, Int | Float.
func baseTypes(ts int) []octosql.Type {
	out := []octosql.Type{tInt, tFlt, tBool, tStr, tTime, tDur}
	if ts >= 1 {
		out = append(out,
			octosql.Null,
			octosql.Any,
			listOf(tInt),
			tupleOf(tInt, tStr),
			structOf([]string{"a"}, []octosql.Type{tInt}),
		)
	}
	if ts >= 2 {
		out = append(out,
			octosql.Type{TypeID: octosql.TypeIDList},
			listOf(vx.Nullable(tStr)),
			octosql.TypeSum(tInt, tStr),
			octosql.TypeSum(tInt, tFlt),
		)
	}
	return out
}

// ndArgType chooses an argument type from the universe, optionally made nullable.
func ndArgType(name string, ts int) octosql.Type {
	u := baseTypes(ts)
	t := u[zzverif.Choice(name+".base", len(u))]
	if t.TypeID == octosql.TypeIDNull || t.TypeID == octosql.TypeIDAny {
		return t
	}
	if zzverif.Choice(name+".nullable", 2) == 1 {
		return vx.Nullable(t)
	}
	return t
}

// functionNames lists every key of functions.FunctionMap() (checked by checkNames).
func functionNames() []string {
	return []string{
		"<", "<=", "=", "!=", ">=", ">", "is null", "is not null",
		"+", "-", "*", "/",
		"abs", "sqrt", "ceil", "floor", "log2", "log", "log10", "pow",
		"not", "like", "~", "~*", "upper", "lower", "reverse", "substr", "replace", "position", "len",
		"now", "parse_time", "time_from_unix", "time_to_unix",
		"int", "float", "string",
		"[]", "in", "not in",
		"panic",
	}
}

// checkNames asserts that functionNames is exactly the key set of the real function map.
func checkNames(fm map[string]physical.FunctionDetails) {
	ok := len(fm) == len(functionNames())
	for _, n := range functionNames() {
		if _, found := fm[n]; !found {
			ok = false
		}
	}
	zzverif.Assert(ok, "function-list-complete")
}

// arities returns which argument counts (0..3) some overload of the function may accept
// (TypeFn overloads of the pinned tree take one or two arguments).
func arities(d physical.FunctionDetails) [4]bool {
	var out [4]bool
	for _, desc := range d.Descriptors {
		if desc.TypeFn != nil {
			out[1], out[2] = true, true
			continue
		}
		if n := len(desc.ArgumentTypes); n < len(out) {
			out[n] = true
		}
	}
	return out
}

// assumeNoPanicInputs narrows the argument values away from the inputs on which the function
// bodies panic by construction (those belong to C07): integer division by zero, negative list
// index, negative / overflowing substr bounds, negative or large repeat counts.
func assumeNoPanicInputs(name string, vals []octosql.Value, maxRepeat int64) {
	switch name {
	case "/":
		if len(vals) == 2 && vals[1].TypeID == octosql.TypeIDInt {
			zzverif.Assume(vals[1].Int != 0)
		}
	case "[]":
		if len(vals) == 2 && vals[1].TypeID == octosql.TypeIDInt {
			zzverif.Assume(vals[1].Int >= 0)
		}
	case "substr":
		for i := 1; i < len(vals); i++ {
			if vals[i].TypeID == octosql.TypeIDInt {
				zzverif.Assume(zzverif.And(vals[i].Int >= 0, vals[i].Int < 1<<62))
			}
		}
	case "*":
		if len(vals) == 2 {
			for i := 0; i < 2; i++ {
				if vals[i].TypeID == octosql.TypeIDInt && vals[1-i].TypeID == octosql.TypeIDString {
					zzverif.Assume(zzverif.And(vals[i].Int >= 0, vals[i].Int <= maxRepeat))
				}
			}
		}
	}
}
