package vfn

import (
	"math"

	"github.com/cube2222/octosql/octosql"
	"github.com/cube2222/octosql/zzverif"
)

func lowerByte(c byte) byte {
	if c >= 'A' && c <= 'Z' {
		return c + ('a' - 'A')
	}
	return c
}

func digitByte(c byte) bool { return c >= '0' && c <= '9' }

// refParseFloat is the definition of a float literal accepted by float(String), written from the
// grammar (Go floating-point literal syntax as documented for strconv.ParseFloat), for strings of
// AT MOST 3 BYTES (so: no hexadecimal literal - it needs at least "0x1p0" -, no signed "inf",
// no "infinity", mantissa < 1000, |exponent| <= 9, hence every value below is computed exactly
// or with one correctly rounded division of two exactly represented numbers):
//
//	"inf" | "nan"                                (any letter case)
//	[+-] mantissa [ (e|E) [+-] digits ]          mantissa = digits and at most one '.', at least
//	                                             one digit; '_' only between two digits
func refParseFloat(s string) (ok bool, val float64) {
	if len(s) == 3 {
		a, b, c := lowerByte(s[0]), lowerByte(s[1]), lowerByte(s[2])
		if a == 'i' && b == 'n' && c == 'f' {
			return true, math.Inf(1)
		}
		if a == 'n' && b == 'a' && c == 'n' {
			return true, math.NaN()
		}
	}
	i := 0
	neg := false
	if i < len(s) && (s[i] == '+' || s[i] == '-') {
		neg = s[i] == '-'
		i++
	}
	if i+1 < len(s) && s[i] == '0' && lowerByte(s[i+1]) == 'x' {
		return false, 0 // a hexadecimal literal needs a mantissa digit and a 'p' exponent: > 3 bytes
	}
	var mant uint64
	digits, fracDigits := 0, 0
	sawDot := false
	prev := byte('^') // previous character class: ^ start, 0 digit, _ underscore, ! other
	for ; i < len(s); i++ {
		c := s[i]
		if digitByte(c) {
			mant = mant*10 + uint64(c-'0')
			digits++
			if sawDot {
				fracDigits++
			}
			prev = '0'
			continue
		}
		if c == '_' {
			if prev != '0' {
				return false, 0
			}
			prev = '_'
			continue
		}
		if prev == '_' {
			return false, 0
		}
		if c == '.' && !sawDot {
			sawDot = true
			prev = '!'
			continue
		}
		break
	}
	if digits == 0 || prev == '_' {
		return false, 0
	}
	exp := 0
	if i < len(s) && lowerByte(s[i]) == 'e' {
		i++
		eneg := false
		if i < len(s) && (s[i] == '+' || s[i] == '-') {
			eneg = s[i] == '-'
			i++
		}
		if i >= len(s) || !digitByte(s[i]) {
			return false, 0
		}
		prev = '!'
		for ; i < len(s); i++ {
			c := s[i]
			if digitByte(c) {
				exp = exp*10 + int(c-'0')
				prev = '0'
				continue
			}
			if c == '_' && prev == '0' {
				prev = '_'
				continue
			}
			break
		}
		if prev == '_' {
			return false, 0
		}
		if eneg {
			exp = -exp
		}
	}
	if i != len(s) {
		return false, 0
	}
	exp -= fracDigits
	val = float64(mant)
	p := 1.0
	for k := 0; k < exp || k < -exp; k++ {
		p *= 10
	}
	if exp >= 0 {
		val *= p
	} else {
		val /= p
	}
	if neg {
		val = -val
	}
	return true, val
}

// VerifC13ParseFloat: float(String) on every string of 0..S bytes (S <= 3): the literal's value,
// NULL when the string is not a float literal. (The reference parser branches on the same byte
// classes as the real one, so it is evaluated after the real call.)
func VerifC13ParseFloat() {
	setup()
	s := zzverif.Bytes("s", zzverif.Param("S"))
	r := call("float", []octosql.Type{tStr}, []octosql.Value{octosql.NewString(s)})
	zzverif.Reach("evaluated")
	ok, val := refParseFloat(s)
	if ok {
		zzverif.Assert(isFloat(r, val), "float-of-string-value")
	} else {
		zzverif.Assert(isNull(r), "float-of-unparsable-string-is-null")
	}
}
