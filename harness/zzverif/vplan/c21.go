package vplan

import (
	"time"

	"github.com/cube2222/octosql/octosql"
	"github.com/cube2222/octosql/zzverif"
)

// C21 at plan level: tumble() called through its descriptor (TypecheckArguments, Materialize) over
// a table whose schema has an IMPLICIT event time field (column a) while time_field => DESCRIPTOR(b)
// names another column, and the other way round (no time_field argument: the implicit field is
// used): the window must contain the DESIGNATED column's time. Concrete instants (forked from a
// small catalogue); the window arithmetic itself is VerifC21Tumble's subject.
func VerifC21TumblePlan() {
	zzverif.FixedSchedule(true)
	instants := []time.Time{time.Unix(100, 0), time.Unix(205, 500000000), time.Unix(3000, 1), time.Unix(59, 999999999)}
	a := instants[zzverif.Choice("a", len(instants))]
	b := instants[zzverif.Choice("b", len(instants))]
	x := &Table{Name: "x", Cols: []string{"a", "b", "c"}, Types: []octosql.Type{octosql.Time, octosql.Time, octosql.Int},
		Rows: [][]octosql.Value{{octosql.NewTime(a), octosql.NewTime(b), octosql.NewInt(zzverif.Int64("c"))}}}
	explicit := zzverif.Param("EXPLICIT") == 1
	sql := "SELECT w.window_start, w.window_end, w.a, w.b FROM tumble(source=>TABLE(x.sym), window_length=>INTERVAL 1 SECOND) w"
	designated := a
	if zzverif.Param("IMPLICIT") == 1 {
		x.TimeFieldPlus1 = 1 // column a
	}
	if explicit {
		sql = "SELECT w.window_start, w.window_end, w.a, w.b FROM tumble(source=>TABLE(x.sym), time_field=>DESCRIPTOR(b), window_length=>INTERVAL 1 SECOND) w"
		designated = b
	}
	res, perr, rerr := Run(sql, []*Table{x}, zzverif.Param("OPT") == 1)
	zzverif.Reach("ran")
	if !explicit && x.TimeFieldPlus1 == 0 {
		zzverif.Assert(perr != nil, "no-time-field-at-all-is-rejected")
		return
	}
	zzverif.Assert(perr == nil, "query-plans")
	zzverif.Assert(rerr == nil, "no-runtime-error")
	zzverif.Assert(len(res.Records) == 1 && len(res.Records[0].Values) == 4, "one-row-four-columns")
	v := res.Records[0].Values
	zzverif.Assert(v[0].TypeID == octosql.TypeIDTime && v[1].TypeID == octosql.TypeIDTime, "window-bounds-are-times")
	start, end := v[0].Time, v[1].Time
	zzverif.Assert(!designated.Before(start) && designated.Before(end), "designated-time-inside-window")
	zzverif.Assert(end.Sub(start) == time.Second, "window-has-the-length")
}
