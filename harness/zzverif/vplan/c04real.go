package vplan

import (
	"github.com/cube2222/octosql/execution/files"
	"github.com/cube2222/octosql/zzverif"
	"github.com/cube2222/octosql/zzverif/vx"
)

// C04 over the REAL file datasources: the optimiser's datasource rewrites (removal of unused
// columns, predicate push-down attempts) meet the real csv / json / lines implementations, fed
// through standard input (stdin.csv, stdin.json, stdin.lines). Content: a fixed header / first line
// followed by an ARBITRARY body of <= L bytes (quotes, separators, line breaks included).
var c04RealQueries = []struct{ sql, head string }{
	/* 0 */ {"SELECT COUNT(*) AS c FROM stdin.csv s", "a\n"},
	/* 1 */ {"SELECT 1 AS one FROM stdin.csv s", "a\n"},
	/* 2 */ {"SELECT s.b FROM stdin.csv s", "a,b\n"},
	/* 3 */ {"SELECT s.a FROM stdin.csv s WHERE s.b = '1'", "a,b\nx,1\n"},
	/* 4 */ {"SELECT COUNT(*) AS c FROM stdin.lines s", ""},
	/* 5 */ {"SELECT COUNT(*) AS c FROM stdin.json s", "{\"a\":1}\n"},
	/* 6 */ {"SELECT s.number FROM stdin.lines s", ""},
}

func runOnStdin(sql string, content []byte, optimize bool) (Result, error, error) {
	files.VerifResetStdin()
	zzverif.SetStdin(content)
	return Run(sql, nil, optimize)
}

func VerifC04RealSources() {
	zzverif.FixedSchedule(true)
	q := c04RealQueries[zzverif.Param("Q")]
	content := []byte(q.head + zzverif.Bytes("body", zzverif.Param("L")))
	plain, perr1, rerr1 := runOnStdin(q.sql, content, false)
	opt, perr2, rerr2 := runOnStdin(q.sql, content, true)
	zzverif.Reach("both-ran")
	zzverif.Assert((perr1 == nil) == (perr2 == nil), "same-plan-error-status")
	if perr1 != nil {
		return
	}
	zzverif.Assert((rerr1 == nil) == (rerr2 == nil), "same-error-status")
	if rerr1 != nil {
		return
	}
	zzverif.Reach("both-succeeded")
	zzverif.Assert(vx.SameMultiset(opt.Records, plain.Records), "optimized-equals-unoptimized")
}
