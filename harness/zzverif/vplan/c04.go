package vplan

import (
	"fmt"

	"github.com/cube2222/octosql/octosql"
	"github.com/cube2222/octosql/zzverif"
	"github.com/cube2222/octosql/zzverif/vx"
)

// C04Queries is the catalogue of rewrite-triggering query shapes.
var C04Queries = []string{
	/* 0 */ "SELECT t.a, t.b FROM t.sym t WHERE t.a > 1",
	/* 1 */ "SELECT t.a FROM t.sym t WHERE t.a > 1 AND t.b < 5",
	/* 2 */ "SELECT x.a FROM (SELECT t.a, t.b FROM t.sym t WHERE t.b > 0) x WHERE x.a > 1",
	/* 3 */ "SELECT t.a, u.b FROM t.sym t JOIN u.sym u ON t.a = u.a",
	/* 4 */ "SELECT t.a, u.b FROM t.sym t JOIN u.sym u ON t.a = u.a WHERE t.b > 0 AND u.b > 0",
	/* 5 */ "SELECT t.a, u.b FROM t.sym t, u.sym u WHERE t.a = u.a AND t.b = u.b",
	/* 6 */ "SELECT t.a, COUNT(*) AS c, SUM(t.b) AS s FROM t.sym t GROUP BY t.a",
	/* 7 */ "SELECT x.a FROM (SELECT t.a, COUNT(*) AS c, SUM(t.b) AS s FROM t.sym t GROUP BY t.a) x",
	/* 8 */ "SELECT DISTINCT t.a FROM t.sym t WHERE t.b > 0",
	/* 9 */ "SELECT t.a + 1 AS a1 FROM t.sym t WHERE t.a + 1 > 2",
	/* 10 */ "SELECT t.a, u.b FROM t.sym t LEFT JOIN u.sym u ON t.a = u.a",
	/* 11 */ "SELECT t.a, u.b FROM t.sym t LOOKUP JOIN u.sym u ON t.a = u.a",
	/* 12 */ "SELECT t.a FROM t.sym t WHERE 1 = 1 AND t.a > 0",
	/* 13 */ "SELECT x.a, x.b FROM (SELECT t.a, t.b, t.a + t.b AS s FROM t.sym t) x WHERE x.a > 0",
	/* 14 */ "SELECT t.a, u.b FROM t.sym t, u.sym u WHERE t.a + u.a = 10",
	/* 15 */ "SELECT t.a, u.b FROM t.sym t JOIN u.sym u ON t.a = u.a AND t.b + u.b = 3",
	/* 16 */ "SELECT t.a, u.b FROM t.sym t, u.sym u WHERE t.a = 5 AND u.a = t.b",
	/* 17 */ "SELECT t.a, u.b FROM t.sym t, u.sym u WHERE t.a < u.a",
	/* 18 */ "SELECT t.a, u.b FROM t.sym t LOOKUP JOIN u.sym u ON t.a = u.a WHERE u.b > 0 AND t.b > 0",
	/* 19 */ "SELECT t.a, u.b FROM t.sym t RIGHT JOIN u.sym u ON t.a = u.a",
	/* 20 */ "SELECT t.a FROM t.sym t WHERE t.a IN (SELECT u.a FROM u.sym u)",
	/* 21 */ "SELECT t.a, MAX(t.b) AS m FROM t.sym t WHERE t.b > 0 GROUP BY t.a",
	/* 22 */ "SELECT x.c FROM (SELECT t.a, COUNT(*) AS c FROM t.sym t GROUP BY t.a) x WHERE x.c > 1",
	/* 23 */ "SELECT t.a + 0 AS k, u.a AS v FROM t.sym t, u.sym u WHERE t.a + 0 = u.a + 0",
	/* 24 */ "SELECT t.a, u.b FROM t.sym t JOIN u.sym u ON t.a = u.a WHERE t.b = u.b",
	/* 25 */ "SELECT t.a, u.b FROM t.sym t LEFT JOIN u.sym u ON t.a = u.a WHERE t.b > 0",
	/* 26 */ "SELECT t.a, v.b FROM t.sym t JOIN u.sym u ON t.a = u.a JOIN u.sym v ON u.b = v.b",
	/* 27 (WTABLE=1) */ "SELECT w.a, unnest(w.l) AS e FROM w.sym w",
	/* 28 (WTABLE=1) */ "SELECT x.a FROM (SELECT w.a, unnest(w.l) AS e FROM w.sym w) x",
	/* 29 (WTABLE=1) */ "SELECT x.e FROM (SELECT w.a, unnest(w.l) AS e FROM w.sym w) x WHERE x.e > 0",
	// predicates that reference NEITHER join branch (constants) above a join
	/* 30 */ "SELECT t.a, u.b FROM t.sym t JOIN u.sym u ON t.a = u.a WHERE 1 = 2",
	/* 31 */ "SELECT t.a, u.b FROM t.sym t JOIN u.sym u ON t.a = u.a WHERE 1 = 2 AND t.b > 0",
	// DISTINCT in a subquery of which only some columns are read outside
	/* 32 */ "SELECT x.a FROM (SELECT DISTINCT t.a, t.b FROM t.sym t) x",
	/* 33 */ "SELECT COUNT(*) AS c FROM (SELECT DISTINCT t.a, t.b FROM t.sym t) x",
	/* 34 */ "SELECT x.a, u.b FROM (SELECT DISTINCT t.a, t.b FROM t.sym t) x JOIN u.sym u ON x.a = u.a",
}

func ndTables(rows int, accept bool) []*Table {
	nullableInt := octosql.TypeSum(octosql.Int, octosql.Null)
	mk := func(name string) *Table {
		t := &Table{Name: name, Cols: []string{"a", "b"}, Types: []octosql.Type{nullableInt, nullableInt}, AcceptPushdown: accept}
		for i, r := range vx.NDTable(name, rows, 2) {
			_ = i
			t.Rows = append(t.Rows, r)
		}
		return t
	}
	// w(a Int|NULL, l [Int]): a list-valued column for UNNEST queries (0..2 symbolic elements)
	w := &Table{Name: "w", Cols: []string{"a", "l"}, Types: []octosql.Type{nullableInt, {TypeID: octosql.TypeIDList, List: struct{ Element *octosql.Type }{Element: &octosql.Int}}}, AcceptPushdown: accept}
	if zzverif.ParamOr("WTABLE", 0) == 1 {
		for i, r := range vx.NDTable("w", rows, 1) {
			n := zzverif.Choice(fmt.Sprintf("w.r%d.len", i), 3)
			elems := make([]octosql.Value, n)
			for j := range elems {
				elems[j] = octosql.NewInt(zzverif.Int64(fmt.Sprintf("w.r%d.l%d", i, j)))
			}
			w.Rows = append(w.Rows, []octosql.Value{r[0], octosql.NewList(elems)})
		}
	}
	return []*Table{mk("t"), mk("u"), w}
}

// VerifC04Optimize: the optimised plan returns the same multiset of rows (and the same error
// status) as the unoptimised plan of the same query on the same symbolic tables.
// Params: Q query index, ROWS max rows per table, ACCEPT 1 = datasource accepts predicate push-down.
func VerifC04Optimize() {
	zzverif.FixedSchedule(true) // schedules are the subject of C02/C19, not of this property
	q := C04Queries[zzverif.Param("Q")]
	tables := ndTables(zzverif.Param("ROWS"), zzverif.Param("ACCEPT") == 1)
	plain, perr1, rerr1 := Run(q, tables, false)
	opt, perr2, rerr2 := Run(q, tables, true)
	zzverif.Reach("both-ran")
	zzverif.Assert(perr1 == nil && perr2 == nil, fmt.Sprintf("query-plans"))
	zzverif.Assert((rerr1 == nil) == (rerr2 == nil), "same-error-status")
	if rerr1 != nil {
		return
	}
	zzverif.Assert(len(plain.Schema.Fields) == len(opt.Schema.Fields), "same-number-of-columns")
	zzverif.Assert(vx.SameMultiset(opt.Records, plain.Records), "optimized-equals-unoptimized")
}
