package vplan

import (
	"github.com/cube2222/octosql/zzverif"
	"github.com/cube2222/octosql/zzverif/vx"
)

// Plan-level differential for C16 / C05: a query with a TRIGGER clause (which makes the grouping
// emit intermediate results and retractions) must return, after consolidation, exactly what the
// same query without the clause returns — also when the grouping is nested under ORDER BY / LIMIT
// or a further projection, where the planner has to notice that its input can retract.
var c16PlanQueries = [][2]string{
	/* 0 */ {"SELECT t.a, COUNT(*) AS c FROM t.sym t GROUP BY t.a TRIGGER COUNTING 1",
		"SELECT t.a, COUNT(*) AS c FROM t.sym t GROUP BY t.a"},
	/* 1 */ {"SELECT x.a, x.c FROM (SELECT t.a, COUNT(*) AS c FROM t.sym t GROUP BY t.a TRIGGER COUNTING 1) x ORDER BY x.c DESC LIMIT 1",
		"SELECT x.a, x.c FROM (SELECT t.a, COUNT(*) AS c FROM t.sym t GROUP BY t.a) x ORDER BY x.c DESC LIMIT 1"},
	/* 2 */ {"SELECT y.c FROM (SELECT x.a, x.c FROM (SELECT t.a, COUNT(*) AS c FROM t.sym t GROUP BY t.a TRIGGER COUNTING 1) x ORDER BY x.c DESC LIMIT 1) y",
		"SELECT y.c FROM (SELECT x.a, x.c FROM (SELECT t.a, COUNT(*) AS c FROM t.sym t GROUP BY t.a) x ORDER BY x.c DESC LIMIT 1) y"},
	/* 3 */ {"SELECT t.a, SUM(t.b) AS s FROM t.sym t GROUP BY t.a TRIGGER COUNTING 2, ON END OF STREAM",
		"SELECT t.a, SUM(t.b) AS s FROM t.sym t GROUP BY t.a"},
	/* 4 */ {"SELECT DISTINCT x.c FROM (SELECT t.a, COUNT(*) AS c FROM t.sym t GROUP BY t.a TRIGGER COUNTING 1) x",
		"SELECT DISTINCT x.c FROM (SELECT t.a, COUNT(*) AS c FROM t.sym t GROUP BY t.a) x"},
	/* 5 */ {"SELECT x.c, COUNT(*) AS n FROM (SELECT t.a, COUNT(*) AS c FROM t.sym t GROUP BY t.a TRIGGER COUNTING 1) x GROUP BY x.c",
		"SELECT x.c, COUNT(*) AS n FROM (SELECT t.a, COUNT(*) AS c FROM t.sym t GROUP BY t.a) x GROUP BY x.c"},
	/* 6 */ {"SELECT y.c FROM (SELECT x.a, x.c FROM (SELECT t.a, COUNT(*) AS c FROM t.sym t GROUP BY t.a TRIGGER COUNTING 1) x ORDER BY x.c LIMIT 1) y",
		"SELECT y.c FROM (SELECT x.a, x.c FROM (SELECT t.a, COUNT(*) AS c FROM t.sym t GROUP BY t.a) x ORDER BY x.c LIMIT 1) y"},
	/* 7 */ {"SELECT y.c FROM (SELECT x.a, x.c FROM (SELECT t.a, COUNT(*) AS c FROM t.sym t GROUP BY t.a TRIGGER COUNTING 1) x ORDER BY x.c, x.a LIMIT 2) y",
		"SELECT y.c FROM (SELECT x.a, x.c FROM (SELECT t.a, COUNT(*) AS c FROM t.sym t GROUP BY t.a) x ORDER BY x.c, x.a LIMIT 2) y"},
	// 8, 9: as 6, 7 but the outer query keeps x.a, so the optimiser cannot drop the column that makes
	// the buffered rows distinct (in 6 and 7 it does, and the ORDER BY buffer only ever sees counts)
	/* 8 */ {"SELECT y.a, y.c FROM (SELECT t.a, COUNT(*) AS c FROM t.sym t GROUP BY t.a TRIGGER COUNTING 1 ORDER BY c LIMIT 1) y",
		"SELECT y.a, y.c FROM (SELECT t.a, COUNT(*) AS c FROM t.sym t GROUP BY t.a ORDER BY c LIMIT 1) y"},
	/* 9 */ {"SELECT y.a, y.c FROM (SELECT x.a, x.c FROM (SELECT t.a, COUNT(*) AS c FROM t.sym t GROUP BY t.a TRIGGER COUNTING 1) x ORDER BY x.c, x.a LIMIT 2) y",
		"SELECT y.a, y.c FROM (SELECT x.a, x.c FROM (SELECT t.a, COUNT(*) AS c FROM t.sym t GROUP BY t.a) x ORDER BY x.c, x.a LIMIT 2) y"},
}

// VerifC16PlanTriggers: Q = catalogue index, ROWS = max rows, OPT = 1 optimised plan.
func VerifC16PlanTriggers() {
	zzverif.FixedSchedule(true)
	q := c16PlanQueries[zzverif.Param("Q")]
	tables := ndTables(zzverif.Param("ROWS"), false)[:1]
	opt := zzverif.Param("OPT") == 1
	with, perr1, rerr1 := Run(q[0], tables, opt)
	without, perr2, rerr2 := Run(q[1], tables, opt)
	zzverif.Reach("both-ran")
	zzverif.Assert(perr1 == nil && perr2 == nil, "queries-plan")
	zzverif.Assert(rerr1 == nil && rerr2 == nil, "no-runtime-error")
	zzverif.Assert(vx.ValidChangelog(with.Records), "output-changelog-valid")
	zzverif.Assert(vx.SameMultiset(with.Records, without.Records), "trigger-does-not-change-the-final-result")
}
