// Package vplan runs whole queries — real SQL parser, logical plan, typechecker, optimizer,
// materialisation and execution nodes — over symbolic in-memory tables.
package vplan

import (
	"context"
	"fmt"
	"time"

	"github.com/cube2222/octosql/aggregates"
	"github.com/cube2222/octosql/config"
	csvsource "github.com/cube2222/octosql/datasources/csv"
	jsonsource "github.com/cube2222/octosql/datasources/json"
	linessource "github.com/cube2222/octosql/datasources/lines"
	"github.com/cube2222/octosql/execution"
	"github.com/cube2222/octosql/execution/nodes"
	"github.com/cube2222/octosql/functions"
	"github.com/cube2222/octosql/logical"
	"github.com/cube2222/octosql/octosql"
	"github.com/cube2222/octosql/optimizer"
	"github.com/cube2222/octosql/parser"
	"github.com/cube2222/octosql/parser/sqlparser"
	"github.com/cube2222/octosql/physical"
	"github.com/cube2222/octosql/table_valued_functions"
	"github.com/cube2222/octosql/zzverif/vx"
)

// Table is a symbolic in-memory table served through the real datasource interface
// (file-handler route: `FROM <name>.sym`).
type Table struct {
	Name           string
	Cols           []string
	Types          []octosql.Type
	Rows           [][]octosql.Value
	TimeFieldPlus1 int  // 0: no implicit event time field; k+1: column k is the schema's TimeField
	AcceptPushdown bool // false: rejects predicate push-down like every in-tree file source
	Pushed         int  // number of predicates pushed down at materialisation (observed)
}

type tableImpl struct{ t *Table }

func (ti *tableImpl) PushDownPredicates(newPredicates, pushedDownPredicates []physical.Expression) (rejected, pushedDown []physical.Expression, changed bool) {
	if !ti.t.AcceptPushdown {
		return newPredicates, pushedDownPredicates, false
	}
	out := append(append([]physical.Expression{}, pushedDownPredicates...), newPredicates...)
	return nil, out, len(newPredicates) > 0
}

type tableNode struct {
	t     *Table
	cols  []int
	preds []execution.Expression
}

func (n *tableNode) Run(ctx execution.ExecutionContext, produce execution.ProduceFn, metaSend execution.MetaSendFn) error {
	for _, row := range n.t.Rows {
		full := make([]octosql.Value, len(row))
		copy(full, row)
		keep := true
		for _, p := range n.preds {
			v, err := p.Evaluate(ctx.WithRecord(execution.Record{Values: full}))
			if err != nil {
				return err
			}
			if !(v.TypeID == octosql.TypeIDBoolean && v.Boolean) {
				keep = false
				break
			}
		}
		if !keep {
			continue
		}
		vals := make([]octosql.Value, len(n.cols))
		for i, c := range n.cols {
			vals[i] = row[c]
		}
		if err := produce(execution.ProduceFromExecutionContext(ctx), execution.NewRecord(vals, false, time.Time{})); err != nil {
			return err
		}
	}
	return nil
}

func (ti *tableImpl) Materialize(ctx context.Context, env physical.Environment, schema physical.Schema, pushedDownPredicates []physical.Expression) (execution.Node, error) {
	n := &tableNode{t: ti.t}
	for _, f := range schema.Fields {
		idx := -1
		for i, c := range ti.t.Cols {
			if c == f.Name {
				idx = i
			}
		}
		if idx == -1 {
			return nil, fmt.Errorf("symtable %s: unknown column %q", ti.t.Name, f.Name)
		}
		n.cols = append(n.cols, idx)
	}
	full := make([]physical.SchemaField, len(ti.t.Cols))
	for i := range full {
		full[i] = physical.SchemaField{Name: ti.t.Cols[i], Type: ti.t.Types[i]}
	}
	for _, p := range pushedDownPredicates {
		ex, err := p.Materialize(ctx, env.WithRecordSchema(physical.NewSchema(full, -1)))
		if err != nil {
			return nil, err
		}
		n.preds = append(n.preds, ex)
	}
	ti.t.Pushed = len(pushedDownPredicates)
	return n, nil
}

// Env builds the physical environment the way cmd/root.go does, with the symbolic tables.
func Env(tables []*Table) physical.Environment {
	return physical.Environment{
		Aggregates: aggregates.Aggregates,
		Functions:  functions.FunctionMap(),
		Datasources: &physical.DatasourceRepository{
			Databases: map[string]func() (physical.Database, error){},
			FileHandlers: map[string]func(ctx context.Context, name string, options map[string]string) (physical.DatasourceImplementation, physical.Schema, error){
				// the real file datasources, as wired in cmd/root.go (reachable as stdin.csv, stdin.json, ...)
				"csv":   csvsource.Creator(','),
				"tsv":   csvsource.Creator('\t'),
				"json":  jsonsource.Creator,
				"lines": linessource.Creator,
				"sym": func(ctx context.Context, name string, options map[string]string) (physical.DatasourceImplementation, physical.Schema, error) {
					for _, t := range tables {
						if t.Name+".sym" == name {
							fields := make([]physical.SchemaField, len(t.Cols))
							for i := range fields {
								fields[i] = physical.SchemaField{Name: t.Cols[i], Type: t.Types[i]}
							}
							return &tableImpl{t: t}, physical.NewSchema(fields, t.TimeFieldPlus1-1, physical.WithNoRetractions(true)), nil
						}
					}
					return nil, physical.Schema{}, fmt.Errorf("no such symbolic table %s", name)
				},
			},
		},
		PhysicalConfig:  nil,
		VariableContext: nil,
	}
}

type Result struct {
	Records []execution.Record
	Schema  physical.Schema
	Plan    physical.Node
}

func typecheckNode(ctx context.Context, node logical.Node, env physical.Environment, logicalEnv logical.Environment) (_ physical.Node, _ map[string]string, outErr error) {
	defer func() {
		if r := recover(); r != nil {
			outErr = fmt.Errorf("typecheck error: %v", r)
		}
	}()
	n, m := node.Typecheck(ctx, env, logicalEnv)
	return n, m, nil
}

func typecheckExpr(ctx context.Context, expr logical.Expression, env physical.Environment, logicalEnv logical.Environment) (_ physical.Expression, outErr error) {
	defer func() {
		if r := recover(); r != nil {
			outErr = fmt.Errorf("typecheck error: %v", r)
		}
	}()
	return expr.Typecheck(ctx, env, logicalEnv), nil
}

// Run executes sql over the tables exactly along cmd/root.go's pipeline with the csv/json/
// stream_native wiring for top-level ORDER BY / LIMIT (OrderSensitiveTransform or Limit node),
// collecting the emitted records in order. planErr reports parse/typecheck errors separately
// from run-time errors.
func Run(sql string, tables []*Table, optimize bool) (res Result, planErr, runErr error) {
	// cmd/root.go puts the configuration into the context; the real file datasources read it
	cfg := &config.Config{}
	cfg.Files.BufferSizeBytes = 4096
	cfg.Files.JSON.MaxLineSizeBytes = 4096
	ctx := config.ContextWithConfig(context.Background(), cfg)
	statement, err := sqlparser.Parse(sql)
	if err != nil {
		return res, err, nil
	}
	selectStmt, ok := statement.(sqlparser.SelectStatement)
	if !ok {
		return res, fmt.Errorf("only SELECT statements are supported"), nil
	}
	logicalPlan, outputOptions, err := parser.ParseNode(selectStmt)
	if err != nil {
		return res, err, nil
	}
	env := Env(tables)
	tvfs := map[string]logical.TableValuedFunctionDescription{
		"max_diff_watermark": table_valued_functions.MaxDiffWatermark,
		"tumble":             table_valued_functions.Tumble,
		"range":              table_valued_functions.Range,
		"poll":               table_valued_functions.Poll,
	}
	uniqueNameGenerator := map[string]int{}
	physicalPlan, mapping, err := typecheckNode(ctx, logicalPlan, env, logical.Environment{
		CommonTableExpressions: map[string]logical.CommonTableExpression{},
		TableValuedFunctions:   tvfs,
		UniqueNameGenerator:    uniqueNameGenerator,
	})
	if err != nil {
		return res, err, nil
	}
	exprEnv := logical.Environment{
		CommonTableExpressions: map[string]logical.CommonTableExpression{},
		TableValuedFunctions:   tvfs,
		UniqueVariableNames:    &logical.VariableMapping{Mapping: mapping},
		UniqueNameGenerator:    uniqueNameGenerator,
	}
	physOrderBy := make([]physical.Expression, len(outputOptions.OrderByExpressions))
	for i := range outputOptions.OrderByExpressions {
		pe, err := typecheckExpr(ctx, outputOptions.OrderByExpressions[i], env.WithRecordSchema(physicalPlan.Schema), exprEnv)
		if err != nil {
			return res, err, nil
		}
		physOrderBy[i] = pe
	}
	var physLimit *physical.Expression
	if outputOptions.Limit != nil {
		pe, err := typecheckExpr(ctx, *outputOptions.Limit, env.WithRecordSchema(physicalPlan.Schema), exprEnv)
		if err != nil {
			return res, err, nil
		}
		physLimit = &pe
	}
	if optimize {
		physicalPlan = optimizer.Optimize(physicalPlan)
	}
	res.Plan = physicalPlan
	res.Schema = physicalPlan.Schema
	executionPlan, err := physicalPlan.Materialize(ctx, env)
	if err != nil {
		return res, err, nil
	}
	orderBy := make([]execution.Expression, len(physOrderBy))
	for i, pe := range physOrderBy {
		ex, err := pe.Materialize(ctx, env.WithRecordSchema(physicalPlan.Schema))
		if err != nil {
			return res, err, nil
		}
		orderBy[i] = ex
	}
	var limitExpr *execution.Expression
	if physLimit != nil {
		ex, err := physLimit.Materialize(ctx, env.WithRecordSchema(physicalPlan.Schema))
		if err != nil {
			return res, err, nil
		}
		limitExpr = &ex
	}
	if len(orderBy) > 0 || (limitExpr != nil && !physicalPlan.Schema.NoRetractions) {
		executionPlan = nodes.NewOrderSensitiveTransform(executionPlan, orderBy, logical.DirectionsToMultipliers(outputOptions.OrderByDirections), limitExpr, physicalPlan.Schema.NoRetractions)
	} else if limitExpr != nil {
		executionPlan = nodes.NewLimit(executionPlan, *limitExpr)
	}
	sink := &vx.Sink{}
	runErr = executionPlan.Run(execution.ExecutionContext{Context: ctx, VariableContext: nil}, sink.Produce, sink.Meta)
	res.Records = sink.Records()
	return res, nil, runErr
}
