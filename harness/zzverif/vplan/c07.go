package vplan

import (
	"github.com/cube2222/octosql/zzverif"
)

// C07 — no query string crashes the process: a short ARBITRARY byte fragment (every byte value,
// exactly L bytes) spliced into a query at one of several positions goes through the real lexer,
// the goyacc parser, parser.ParseNode, the typechecker (whose panics cmd/root.go turns into
// errors, as typecheckNode here does), the optimizer, Materialize and the execution over a
// one-row table. Any Go panic on the way is reported by the engine as a violation (tag "panic")
// and replayed natively.
var c07Templates = [][2]string{
	/* 0 */ {"SELECT ", " FROM t.sym t"},
	/* 1 */ {"SELECT t.a FROM t.sym t WHERE t.a ", " 1"},
	/* 2 */ {"SELECT t.a ", " FROM t.sym t"},
	/* 3 */ {"SELECT t.a FROM t.sym t ", ""},
	/* 4 */ {"SELECT t.a FROM t.sym t WHERE ", ""},
	/* 5 */ {"SELECT t.a, COUNT(*) FROM t.sym t GROUP BY t.a ", ""},
	/* 6 */ {"SELECT '", "' FROM t.sym t"},
	/* 7 */ {"SELECT t.a FROM t.sym t WHERE t.a = 1", ""},
	/* 8 */ {"SELECT t.a::", " FROM t.sym t"},
	/* 9 */ {"SELECT 1", "2 FROM t.sym t"},
}

func VerifC07QueryFragment() {
	zzverif.FixedSchedule(true)
	tpl := c07Templates[zzverif.Param("T")]
	frag := zzverif.BytesN("frag", zzverif.Param("L"))
	tables := ndTables(1, false)
	_, perr, rerr := Run(tpl[0]+frag+tpl[1], tables, true)
	if perr == nil && rerr == nil {
		zzverif.Reach("query-ran")
	} else {
		zzverif.Reach("query-rejected")
	}
}
