package vplan

import (
	"github.com/cube2222/octosql/execution"
	"github.com/cube2222/octosql/octosql"
	"github.com/cube2222/octosql/zzverif"
	"github.com/cube2222/octosql/zzverif/vx"
)

// Reference building blocks (branch-free): a cell is Int or NULL.
func isNull(v octosql.Value) bool { return v.TypeID == octosql.TypeIDNull }
func intOrNull(null bool, x int64) octosql.Value {
	return octosql.Value{TypeID: octosql.TypeID(zzverif.IteInt(null, int(octosql.TypeIDNull), int(octosql.TypeIDInt))), Int: zzverif.IteInt64(null, 0, x)}
}

// gt is SQL `x > k` evaluated to "is TRUE" (NULL is not TRUE).
func gtTrue(x octosql.Value, k int64) bool { return zzverif.And(!isNull(x), x.Int > k) }

// keyLess: the documented ascending order on Int|NULL cells (NULL first).
func keyLess(x, y octosql.Value) bool {
	return zzverif.Or(zzverif.And(isNull(x), !isNull(y)), zzverif.And(zzverif.And(!isNull(x), !isNull(y)), x.Int < y.Int))
}

type expRow struct {
	vals    []octosql.Value
	present bool
}

type c01Query struct {
	sql string
	// expected returns the candidate output rows with their presence conditions
	expected func(rows [][]octosql.Value) []expRow
	// sortedBy: indices of output columns forming the ORDER BY key, with direction multipliers; nil = unordered
	sortCols []int
	sortDirs []int
	distinct bool
}

func all(rows [][]octosql.Value, f func(r []octosql.Value) expRow) []expRow {
	out := make([]expRow, len(rows))
	for i, r := range rows {
		out[i] = f(r)
	}
	return out
}

// rankLimit marks present exactly the first `limit` rows of the sort by column key (ascending,
// NULL first), counting duplicates individually (ties broken by position; tied rows are equal in
// every projected column of the queries that use this).
func rankLimit(rows [][]octosql.Value, key func(r []octosql.Value) octosql.Value, limit int, vals func(r []octosql.Value) []octosql.Value) []expRow {
	out := make([]expRow, len(rows))
	for i, r := range rows {
		rank := 0
		for j, s := range rows {
			before := keyLess(key(s), key(r))
			if j < i {
				before = zzverif.Or(before, zzverif.And(!keyLess(key(s), key(r)), !keyLess(key(r), key(s))))
			}
			rank += zzverif.IteInt(before, 1, 0)
		}
		out[i] = expRow{vals: vals(r), present: rank < limit}
	}
	return out
}

var c01Queries = []c01Query{
	/* 0 */ {sql: "SELECT t.a, t.b FROM t.sym t WHERE t.a > 1", expected: func(rows [][]octosql.Value) []expRow {
		return all(rows, func(r []octosql.Value) expRow { return expRow{[]octosql.Value{r[0], r[1]}, gtTrue(r[0], 1)} })
	}},
	/* 1 */ {sql: "SELECT t.a + t.b AS s FROM t.sym t", expected: func(rows [][]octosql.Value) []expRow {
		return all(rows, func(r []octosql.Value) expRow {
			return expRow{[]octosql.Value{intOrNull(zzverif.Or(isNull(r[0]), isNull(r[1])), r[0].Int+r[1].Int)}, true}
		})
	}},
	/* 2 */ {sql: "SELECT t.a FROM t.sym t WHERE t.a > 1 OR t.b IS NULL", expected: func(rows [][]octosql.Value) []expRow {
		return all(rows, func(r []octosql.Value) expRow {
			return expRow{[]octosql.Value{r[0]}, zzverif.Or(gtTrue(r[0], 1), isNull(r[1]))}
		})
	}},
	/* 3 */ {sql: "SELECT DISTINCT t.a FROM t.sym t", distinct: true, expected: func(rows [][]octosql.Value) []expRow {
		return all(rows, func(r []octosql.Value) expRow { return expRow{[]octosql.Value{r[0]}, true} })
	}},
	/* 4 */ {sql: "SELECT t.a, t.b FROM t.sym t ORDER BY t.a", sortCols: []int{0}, sortDirs: []int{1}, expected: func(rows [][]octosql.Value) []expRow {
		return all(rows, func(r []octosql.Value) expRow { return expRow{[]octosql.Value{r[0], r[1]}, true} })
	}},
	/* 5 */ {sql: "SELECT t.a, t.b FROM t.sym t ORDER BY t.a DESC, t.b", sortCols: []int{0, 1}, sortDirs: []int{-1, 1}, expected: func(rows [][]octosql.Value) []expRow {
		return all(rows, func(r []octosql.Value) expRow { return expRow{[]octosql.Value{r[0], r[1]}, true} })
	}},
	/* 6 */ {sql: "SELECT t.a FROM t.sym t ORDER BY t.a LIMIT 2", sortCols: []int{0}, sortDirs: []int{1}, expected: func(rows [][]octosql.Value) []expRow {
		return rankLimit(rows, func(r []octosql.Value) octosql.Value { return r[0] }, 2, func(r []octosql.Value) []octosql.Value { return []octosql.Value{r[0]} })
	}},
	/* 7 */ {sql: "SELECT x.s FROM (SELECT t.a + 1 AS s, t.b FROM t.sym t WHERE t.b > 0) x WHERE x.s > 2", expected: func(rows [][]octosql.Value) []expRow {
		return all(rows, func(r []octosql.Value) expRow {
			s := intOrNull(isNull(r[0]), r[0].Int+1)
			return expRow{[]octosql.Value{s}, zzverif.And(gtTrue(r[1], 0), gtTrue(s, 2))}
		})
	}},
	/* 8 */ {sql: "WITH x AS (SELECT t.a AS a FROM t.sym t WHERE t.a > 0) SELECT a FROM x", expected: func(rows [][]octosql.Value) []expRow {
		return all(rows, func(r []octosql.Value) expRow { return expRow{[]octosql.Value{r[0]}, gtTrue(r[0], 0)} })
	}},
	/* 9 */ {sql: "SELECT t.a FROM t.sym t WHERE NOT (t.a > 1)", expected: func(rows [][]octosql.Value) []expRow {
		return all(rows, func(r []octosql.Value) expRow { return expRow{[]octosql.Value{r[0]}, zzverif.And(!isNull(r[0]), r[0].Int <= 1)} })
	}},
	/* 10 */ {sql: "SELECT COALESCE(t.a, t.b, 0) AS c FROM t.sym t", expected: func(rows [][]octosql.Value) []expRow {
		return all(rows, func(r []octosql.Value) expRow {
			c := zzverif.IteInt64(!isNull(r[0]), r[0].Int, zzverif.IteInt64(!isNull(r[1]), r[1].Int, 0))
			return expRow{[]octosql.Value{octosql.NewInt(c)}, true}
		})
	}},
	/* 11 */ {sql: "SELECT t.a * 2 - t.b AS e FROM t.sym t WHERE t.a < t.b", expected: func(rows [][]octosql.Value) []expRow {
		return all(rows, func(r []octosql.Value) expRow {
			both := zzverif.And(!isNull(r[0]), !isNull(r[1]))
			return expRow{[]octosql.Value{octosql.NewInt(r[0].Int*2 - r[1].Int)}, zzverif.And(both, r[0].Int < r[1].Int)}
		})
	}},
	/* 12 */ {sql: "SELECT t.a FROM t.sym t LIMIT 1", expected: nil},
	/* 13 */ {sql: "SELECT t.b FROM t.sym t WHERE t.a IS NOT NULL AND t.b >= 0", expected: func(rows [][]octosql.Value) []expRow {
		return all(rows, func(r []octosql.Value) expRow {
			return expRow{[]octosql.Value{r[1]}, zzverif.And(!isNull(r[0]), zzverif.And(!isNull(r[1]), r[1].Int >= 0))}
		})
	}},
	// 14: the cut falls between duplicates already with two rows
	/* 14 */ {sql: "SELECT t.a FROM t.sym t ORDER BY t.a LIMIT 1", sortCols: []int{0}, sortDirs: []int{1}, expected: func(rows [][]octosql.Value) []expRow {
		return rankLimit(rows, func(r []octosql.Value) octosql.Value { return r[0] }, 1, func(r []octosql.Value) []octosql.Value { return []octosql.Value{r[0]} })
	}},
	// 15: three-valued AND under a negation (NULL AND FALSE is FALSE, so NOT of it is TRUE)
	/* 15 */ {sql: "SELECT t.a, t.b FROM t.sym t WHERE NOT (t.a > 1 AND t.b > 1)", expected: func(rows [][]octosql.Value) []expRow {
		return all(rows, func(r []octosql.Value) expRow {
			aFalse := zzverif.And(!isNull(r[0]), r[0].Int <= 1)
			bFalse := zzverif.And(!isNull(r[1]), r[1].Int <= 1)
			return expRow{[]octosql.Value{r[0], r[1]}, zzverif.Or(aFalse, bFalse)}
		})
	}},
}

func expCount(exp []expRow, x []octosql.Value, distinct bool) int {
	n := 0
	for _, e := range exp {
		n += zzverif.IteInt(zzverif.And(e.present, vx.RowEq(e.vals, x)), 1, 0)
	}
	if distinct {
		return zzverif.IteInt(n > 0, 1, 0)
	}
	return n
}

// VerifC01Select: the rows a single-source query returns are exactly the rows SQL semantics
// defines (multiset; in order when ORDER BY is given), for every table of 0..ROWS rows.
func VerifC01Select() {
	zzverif.FixedSchedule(true)
	q := c01Queries[zzverif.Param("Q")]
	tables := ndTables(zzverif.Param("ROWS"), false)[:1]
	res, perr, rerr := Run(q.sql, tables, zzverif.Param("OPT") == 1)
	zzverif.Reach("ran")
	zzverif.Assert(perr == nil, "query-plans")
	zzverif.Assert(rerr == nil, "no-runtime-error")
	out := res.Records
	rows := tables[0].Rows
	if q.expected == nil {
		// LIMIT 1 without ORDER BY: exactly min(1, rows) rows, each an input row's projection
		want := 1
		if len(rows) < 1 {
			want = len(rows)
		}
		zzverif.Assert(len(out) == want, "limit-row-count")
		ok := true
		for _, o := range out {
			n := 0
			for _, r := range rows {
				n += zzverif.IteInt(vx.CellEq(o.Values[0], r[0]), 1, 0)
			}
			ok = zzverif.And(ok, n > 0)
		}
		zzverif.Assert(ok, "limit-rows-come-from-the-input")
		return
	}
	exp := q.expected(rows)
	ok := true
	for _, e := range exp {
		ok = zzverif.And(ok, vx.Count(out, e.vals) == expCount(exp, e.vals, q.distinct))
	}
	for _, o := range out {
		ok = zzverif.And(ok, vx.Count(out, o.Values) == expCount(exp, o.Values, q.distinct))
		ok = zzverif.And(ok, !o.Retraction)
	}
	zzverif.Assert(ok, "rows-match-sql-semantics")
	if q.sortCols != nil {
		sorted := true
		for i := 1; i < len(out); i++ {
			// lexicographic: prev <= cur
			le := true // all later keys equal so far
			res := true
			for k := len(q.sortCols) - 1; k >= 0; k-- {
				a, b := out[i-1].Values[q.sortCols[k]], out[i].Values[q.sortCols[k]]
				var lt, gt bool
				if q.sortDirs[k] == 1 {
					lt, gt = keyLess(a, b), keyLess(b, a)
				} else {
					lt, gt = keyLess(b, a), keyLess(a, b)
				}
				res = zzverif.Or(lt, zzverif.And(!gt, res))
				_ = le
			}
			sorted = zzverif.And(sorted, res)
		}
		zzverif.Assert(sorted, "output-in-order-by-order")
	}
}

var _ = execution.Record{}
