package vplan

import (
	"github.com/cube2222/octosql/octosql"
	"github.com/cube2222/octosql/zzverif"
)

// C08 at plan level: every value a query returns matches the static type the planner gave its
// column (physical schema after typecheck + optimisation), for aggregate and grouping queries over
// symbolic tables with NULLs — the typing rules of logical.GroupBy (nullable inputs, groups whose
// inputs are all NULL) are not reachable from the expression-level C08 harnesses.
var c08PlanQueries = []string{
	/* 0 */ "SELECT t.a, array_agg(t.b) AS x FROM t.sym t GROUP BY t.a",
	/* 1 */ "SELECT t.a, sum(t.b) AS s, avg(t.b) AS v, min(t.b) AS lo, max(t.b) AS hi, count(t.b) AS c FROM t.sym t GROUP BY t.a",
	/* 2 */ "SELECT t.a, array_agg_distinct(t.b) AS x, count_distinct(t.b) AS c, sum_distinct(t.b) AS s FROM t.sym t GROUP BY t.a",
	/* 3 */ "SELECT array_agg(t.b) AS x, sum(t.b) AS s FROM t.sym t",
	/* 4 */ "SELECT t.a, array_agg(t.b + 1) AS x FROM t.sym t WHERE t.a IS NOT NULL GROUP BY t.a",
	/* 5 */ "SELECT COALESCE(t.a, NULL) AS c, COALESCE(t.a, t.b) AS d, COALESCE(t.a, 0) AS e FROM t.sym t",
}

func VerifC08PlanTypes() {
	zzverif.FixedSchedule(true)
	q := c08PlanQueries[zzverif.Param("Q")]
	tables := ndTables(zzverif.Param("ROWS"), false)[:1]
	res, perr, rerr := Run(q, tables, zzverif.Param("OPT") == 1)
	zzverif.Reach("ran")
	zzverif.Assert(perr == nil, "query-plans")
	zzverif.Assert(rerr == nil, "no-runtime-error")
	for _, rec := range res.Records {
		zzverif.Assert(len(rec.Values) == len(res.Schema.Fields), "one-value-per-column")
		for i := range rec.Values {
			zzverif.Assert(octosql.VerifMatches(rec.Values[i], res.Schema.Fields[i].Type), "value-matches-static-type")
		}
	}
}
