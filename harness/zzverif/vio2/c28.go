// Package vio2 holds the cross-package harnesses of properties C28 (plugin discovery; partial
// claim). Injected by overlay, not part of /repo.
package vio2

import (
	"fmt"
	"os"
	"path/filepath"

	"github.com/Masterminds/semver"

	"github.com/cube2222/octosql/plugins/manager"
	"github.com/cube2222/octosql/zzverif"
)

// verifVersions: version directory names as Install creates them (semver.Version.String()), listed
// in BYTE order (the order os.ReadDir returns them in); verifRank is their semver precedence.
var verifVersions = []string{"0.10.0", "0.2.0", "0.2.0-beta", "1.0.0", "1.0.0-rc.1", "1.0.0-rc.10", "1.0.0-rc.2"}
var verifRank = []int{2, 1, 0, 6, 3, 5, 4}

// VerifC28SemverProbe: semver.NewVersion runs under the engine on the catalogue.
func VerifC28SemverProbe() {
	for i, s := range verifVersions {
		v, err := semver.NewVersion(s)
		zzverif.Assert(err == nil, "parses")
		zzverif.Assert(v.String() == s, "prints-back")
		for j, t := range verifVersions {
			w, _ := semver.NewVersion(t)
			zzverif.Assert(v.GreaterThan(w) == (verifRank[i] > verifRank[j]), "precedence")
		}
	}
}

// ndPluginName: 1..L bytes over {a..z, '-'}.
func ndPluginName(name string, L int) string {
	n := zzverif.Choice(name+".len", L) + 1
	b := make([]byte, n)
	for i := range b {
		c := zzverif.Byte(fmt.Sprintf("%s.%d", name, i))
		zzverif.Assume(zzverif.Or(zzverif.And(c >= 'a', c <= 'z'), c == '-'))
		b[i] = c
	}
	return string(b)
}

func hasDash(s string) bool {
	in := false
	for i := 0; i < len(s); i++ {
		in = zzverif.Or(in, s[i] == '-')
	}
	return in
}

// VerifC28ListInstalled: PluginManager.ListInstalledPlugins over a plugin directory with one
// repository ("core") holding P plugins "octosql-plugin-<name>" (names: 1..L bytes over letters and
// '-', distinct, in directory order) with 0..V installed versions each (distinct entries of
// verifVersions): every plugin is reported under exactly <name>, in repository "core", with its
// versions in descending semver precedence. MISSING=1: the plugin directory does not exist.
func VerifC28ListInstalled() {
	P, L, V := zzverif.Param("P"), zzverif.Param("L"), zzverif.Param("V")
	missing := zzverif.Param("MISSING") == 1
	names := make([]string, P)
	dirs := make([]string, P)
	versions := make([][]int, P)
	for i := range names {
		names[i] = ndPluginName(fmt.Sprintf("p%d", i), L)
		dirs[i] = "octosql-plugin-" + names[i]
		if i > 0 {
			zzverif.Assume(zzverif.StrLess(dirs[i-1], dirs[i])) // os.ReadDir sorts by file name
		}
		nv := zzverif.Choice(fmt.Sprintf("p%d.versions", i), V+1)
		for k := 0; k < nv; k++ {
			idx := zzverif.Choice(fmt.Sprintf("p%d.v%d", i, k), len(verifVersions))
			if k > 0 {
				zzverif.Assume(versions[i][k-1] < idx)
			}
			versions[i] = append(versions[i], idx)
		}
	}

	root := "/vplug"
	if !zzverif.Symbolic() {
		// native replay: the same tree on disk
		tmp, err := os.MkdirTemp("", "vio2-c28-")
		if err != nil {
			panic(err)
		}
		defer os.RemoveAll(tmp)
		root = filepath.Join(tmp, "plugins")
		if !missing {
			if err := os.MkdirAll(filepath.Join(root, "core"), 0o755); err != nil {
				panic(err)
			}
			for i := range dirs {
				if err := os.MkdirAll(filepath.Join(root, "core", dirs[i]), 0o755); err != nil {
					panic(err)
				}
				for _, idx := range versions[i] {
					if err := os.MkdirAll(filepath.Join(root, "core", dirs[i], verifVersions[idx]), 0o755); err != nil {
						panic(err)
					}
				}
			}
		}
	}
	zzverif.Setenv("OCTOSQL_PLUGIN_DIR", root)
	zzverif.ReadDirFn = func(path string) ([]string, bool, bool) {
		if missing {
			return nil, false, false
		}
		if path == root {
			return []string{"core"}, true, true
		}
		if path == root+"/core" {
			return dirs, true, true
		}
		for i := range dirs {
			if path == root+"/core/"+dirs[i] {
				out := make([]string, len(versions[i]))
				for k, idx := range versions[i] {
					out[k] = verifVersions[idx]
				}
				return out, true, true
			}
		}
		return nil, false, false
	}

	out, err := (&manager.PluginManager{}).ListInstalledPlugins()
	zzverif.Reach("listed")
	zzverif.Assert(err == nil, "no-error")
	if missing {
		zzverif.Assert(len(out) == 0, "missing-directory-means-no-plugins")
		return
	}
	zzverif.Assert(len(out) == P, "one-entry-per-plugin-directory")
	for i := range out {
		zzverif.Assert(out[i].Reference.Repository == "core", "repository")
		zzverif.Assert(len(out[i].Versions) == len(versions[i]), "every-version-listed")
		// expected order: descending precedence
		exp := append([]int(nil), versions[i]...)
		for a := 0; a < len(exp); a++ {
			for b := a + 1; b < len(exp); b++ {
				if verifRank[exp[b]] > verifRank[exp[a]] {
					exp[a], exp[b] = exp[b], exp[a]
				}
			}
		}
		for k := range exp {
			zzverif.Assert(out[i].Versions[k].Number.String() == verifVersions[exp[k]], "versions-descending")
		}
	}
	for i := range out {
		zzverif.Known("C28-name-with-dash-truncated", hasDash(names[i]))
		zzverif.Assert(zzverif.StrEq(out[i].Reference.Name, names[i]), "exact-name")
	}
}
