package vio2

import (
	"context"
	"encoding/json"
	"errors"
	"fmt"
	"net/http"
	"net/http/httptest"
	"os"
	"path/filepath"
	"strings"

	"github.com/Masterminds/semver"

	"github.com/cube2222/octosql/plugins/manager"
	"github.com/cube2222/octosql/plugins/repository"
	"github.com/cube2222/octosql/zzverif"
	"github.com/cube2222/octosql/zzverif/zznet"
)

// installVersions: the manifest catalogue in ASCENDING semver precedence (index = rank).
var installVersions = []string{"0.3.0", "0.3.5", "0.4.0", "0.4.1", "0.5.0-beta.2", "0.5.0-rc.1", "0.5.0", "0.10.0", "1.0.0-rc.1"}

// installConstraints: "" = no constraint (highest non-prerelease), the rest go through
// semver.NewConstraint exactly as Install / the configuration do.
var installConstraints = []string{"", "0.5.0-beta.2", ">=0.4.0-0", "~0.3", "^0.4", ">=0.2.0", "<0.4.0", "0.4.1", ">=1.0.0-0", ">0.5.0"}

// VerifC28Install: (*PluginManager).Install — the REAL name/constraint parsing, repository and
// plugin lookup, repository.GetManifest (its descending sort) and the version selection loop — for
// every manifest of 0..V distinct catalogue versions IN ANY ORDER and every catalogue constraint,
// given inline (name@constraint, INLINE=1) or as argument: the version whose directory Install
// creates is the highest one (semver precedence) that the constraint admits (Masterminds/semver
// Check is the definition of "admits"; without constraint: the highest non-prerelease); when no
// version qualifies Install fails with "version not found" and creates nothing.
// Engine: the HTTP GET and the JSON decoding of the manifest are bridged (the harness hands over
// the Manifest value; natively an httptest server serves its JSON encoding), os.MkdirAll reports
// the path and fails, which ends Install. Natively Install goes on to download a 404 page, fails to
// unarchive it, and the harness looks at which version directory exists.
func VerifC28Install() {
	V := zzverif.Param("V")
	nv := zzverif.Choice("versions", V+1)
	idxs := make([]int, nv)
	for k := range idxs {
		idxs[k] = zzverif.Choice(fmt.Sprintf("v%d", k), len(installVersions))
		for j := 0; j < k; j++ {
			zzverif.Assume(idxs[j] != idxs[k])
		}
	}
	ci := zzverif.Choice("constraint", len(installConstraints))
	inline := zzverif.Param("INLINE") == 1
	cstr := installConstraints[ci]
	if inline && cstr == "" {
		zzverif.Assume(false)
	}

	manifest := repository.Manifest{BinaryDownloadURLPattern: "BASE/archive/{{version}}.tar.gz"}
	for _, idx := range idxs {
		manifest.Versions = append(manifest.Versions, repository.Version{Number: semver.MustParse(installVersions[idx])})
	}

	// expected: highest admitted catalogue rank
	var constraint *semver.Constraints
	if cstr != "" {
		c, err := semver.NewConstraint(cstr)
		if err != nil {
			panic(err)
		}
		constraint = c
	}
	want := -1
	for _, idx := range idxs {
		v := semver.MustParse(installVersions[idx])
		ok := false
		if constraint != nil {
			ok = constraint.Check(v)
		} else {
			ok = v.Prerelease() == ""
		}
		if ok && idx > want {
			want = idx
		}
	}

	root := "/vplug"
	manifestURL := "http://verif.invalid/manifest.json"
	created := ""
	if zzverif.Symbolic() {
		zznet.HTTPGetFn = func(url string) ([]byte, int, error) { return []byte("{}"), 200, nil }
		zzverif.JSONDecodeFn = func(v interface{}) error {
			m, ok := v.(*repository.Manifest)
			if !ok {
				return errors.New("verif: unexpected decode target")
			}
			*m = repository.Manifest{BinaryDownloadURLPattern: manifest.BinaryDownloadURLPattern, Versions: append([]repository.Version(nil), manifest.Versions...)}
			return nil
		}
		zzverif.MkdirAllFn = func(path string) error {
			created = path
			return errors.New("verif: mkdir refused")
		}
	} else {
		tmp, err := os.MkdirTemp("", "vio2-c28i-")
		if err != nil {
			panic(err)
		}
		defer os.RemoveAll(tmp)
		root = filepath.Join(tmp, "plugins")
		body, err := json.Marshal(manifest)
		if err != nil {
			panic(err)
		}
		srv := httptest.NewServer(http.HandlerFunc(func(w http.ResponseWriter, r *http.Request) {
			if r.URL.Path == "/manifest.json" {
				w.Write(body)
				return
			}
			http.NotFound(w, r)
		}))
		defer srv.Close()
		manifestURL = srv.URL + "/manifest.json"
		manifest.BinaryDownloadURLPattern = srv.URL + "/archive/{{version}}.tar.gz"
		body, _ = json.Marshal(manifest)
	}
	zzverif.Setenv("OCTOSQL_PLUGIN_DIR", root)

	pm := &manager.PluginManager{Repositories: []repository.Repository{{
		Name: "Core", Slug: "core",
		Plugins: []repository.Plugin{{Name: "other", ManifestURL: "http://verif.invalid/other.json"}, {Name: "my-db", ManifestURL: manifestURL}},
	}}}
	name := "my-db"
	arg := constraint
	if inline {
		name = "my-db@" + cstr
		arg = nil
	}
	err := pm.Install(context.Background(), name, arg)
	zzverif.Reach("install-returned")

	pluginDir := filepath.Join(root, "core", "octosql-plugin-my-db")
	if !zzverif.Symbolic() {
		entries, rerr := os.ReadDir(pluginDir)
		if rerr == nil {
			for _, e := range entries {
				if created != "" {
					created = "several" // more than one version directory: never expected
				} else {
					created = filepath.Join(pluginDir, e.Name())
				}
			}
		}
	}
	if want == -1 {
		zzverif.Assert(err != nil && strings.Contains(err.Error(), "version not found"), "no-admitted-version-is-reported")
		zzverif.Assert(created == "", "nothing-created-without-a-version")
		return
	}
	zzverif.Assert(created == filepath.Join(pluginDir, installVersions[want]), "installs-highest-admitted-version")
}
