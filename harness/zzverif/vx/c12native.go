package vx

import "regexp"

// nativeRegexpMatch is only called on the native replay path.
func nativeRegexpMatch(pattern, s string) (bool, error) {
	re, err := regexp.Compile(pattern)
	if err != nil {
		return false, err
	}
	return re.MatchString(s), nil
}
