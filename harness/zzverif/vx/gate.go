package vx

import (
	"github.com/cube2222/octosql/execution"
	"github.com/cube2222/octosql/execution/nodes"
	"github.com/cube2222/octosql/zzverif"
)

// Native replay of schedule-dependent counterexamples: under the engine every `select` of a join
// node with both inputs ready is a forked choice named "select". Natively Go picks at random, so
// the two inputs are gated: a controller releases exactly one message (or the end of stream) of
// the side recorded in the replay vector, waits until the join reports it through the `verif`
// hook, and only then releases the next one. Under the engine GateJoinInputs is the identity.

type joinGate struct {
	permits  [2]chan struct{}
	received chan int
}

type gatedSource struct {
	inner execution.Node
	side  int
	g     *joinGate
}

func (s *gatedSource) Run(ctx execution.ExecutionContext, produce execution.ProduceFn, metaSend execution.MetaSendFn) error {
	err := s.inner.Run(ctx, func(pc execution.ProduceContext, rec execution.Record) error {
		<-s.g.permits[s.side]
		return produce(pc, rec)
	}, func(pc execution.ProduceContext, msg execution.MetadataMessage) error {
		<-s.g.permits[s.side]
		return metaSend(pc, msg)
	})
	<-s.g.permits[s.side] // permission to end the stream
	return err
}

// GateJoinInputs returns the two sources to hand to a two-input join node.
func GateJoinInputs(left, right *ScriptSource) (execution.Node, execution.Node) {
	if zzverif.Symbolic() {
		return left, right
	}
	g := &joinGate{received: make(chan int, 1<<16)}
	g.permits[0] = make(chan struct{})
	g.permits[1] = make(chan struct{})
	nodes.VerifJoinMessageReceived = func(side int) {
		select {
		case g.received <- side:
		default:
		}
	}
	remain := [2]int{len(left.Msgs) + 1, len(right.Msgs) + 1}
	go func() {
		for remain[0] > 0 && remain[1] > 0 {
			side := zzverif.Choice("select", 2)
			g.permits[side] <- struct{}{}
			<-g.received
			remain[side]--
		}
		// one input has ended: the join drains the other one sequentially
		close(g.permits[0])
		close(g.permits[1])
	}()
	return &gatedSource{inner: left, side: 0, g: g}, &gatedSource{inner: right, side: 1, g: g}
}
