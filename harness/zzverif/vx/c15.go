package vx

import (
	"github.com/cube2222/octosql/execution"
	"github.com/cube2222/octosql/execution/nodes"
	"github.com/cube2222/octosql/octosql"
	"github.com/cube2222/octosql/zzverif"
)

// VerifC15Filter: Filter over an arbitrary valid changelog keeps a valid changelog whose
// consolidation is exactly the rows whose predicate column is TRUE.
func VerifC15Filter() {
	L := zzverif.Param("L")
	in := NDChangelog("in", L, 2)
	// make column 1 a three-valued predicate column: Boolean|NULL derived from the cell
	for i := range in {
		c := in[i].Values[1]
		in[i].Values[1] = octosql.Value{
			TypeID:  octosql.TypeID(zzverif.IteInt(c.TypeID == octosql.TypeIDNull, int(octosql.TypeIDNull), int(octosql.TypeIDBoolean))),
			Boolean: zzverif.And(c.TypeID != octosql.TypeIDNull, c.Int&1 == 1),
		}
	}
	src := NewScriptSource(RecordsToMsgs(in))
	node := nodes.NewFilter(src, execution.NewVariable(0, 1))
	sink := &Sink{}
	err := RunNode(node, sink)
	zzverif.Reach("ran")
	zzverif.Assert(err == nil, "no-error")
	var want []execution.Record
	out := sink.Records()
	// reference: rows with TRUE predicate, same sign
	ok := true
	for _, r := range in {
		keep := zzverif.And(r.Values[1].TypeID == octosql.TypeIDBoolean, r.Values[1].Boolean)
		_ = keep
		want = append(want, r)
	}
	// consolidated output count of every row x == consolidated input count of x if pred(x) else 0
	for _, r := range in {
		keep := zzverif.And(r.Values[1].TypeID == octosql.TypeIDBoolean, r.Values[1].Boolean)
		ok = zzverif.And(ok, Count(out, r.Values) == zzverif.IteInt(keep, Count(in, r.Values), 0))
	}
	for _, r := range out {
		keep := zzverif.And(r.Values[1].TypeID == octosql.TypeIDBoolean, r.Values[1].Boolean)
		ok = zzverif.And(ok, Count(out, r.Values) == zzverif.IteInt(keep, Count(in, r.Values), 0))
	}
	zzverif.Assert(ok, "consolidated-output-is-filter-of-consolidated-input")
	zzverif.Assert(ValidChangelog(out), "output-changelog-valid")
}

// VerifC15Distinct: Distinct over an arbitrary valid changelog.
func VerifC15Distinct() {
	L := zzverif.Param("L")
	in := NDChangelog("in", L, zzverif.Param("COLS"))
	src := NewScriptSource(RecordsToMsgs(in))
	node := nodes.NewDistinct(src)
	sink := &Sink{}
	err := RunNode(node, sink)
	zzverif.Reach("ran")
	zzverif.Assert(err == nil, "no-error")
	out := sink.Records()
	ok := true
	for _, r := range in {
		ok = zzverif.And(ok, Count(out, r.Values) == zzverif.IteInt(Count(in, r.Values) > 0, 1, 0))
	}
	for _, r := range out {
		ok = zzverif.And(ok, Count(out, r.Values) == zzverif.IteInt(Count(in, r.Values) > 0, 1, 0))
	}
	zzverif.Assert(ok, "consolidated-output-is-distinct-of-consolidated-input")
	zzverif.Assert(ValidChangelog(out), "output-changelog-valid")
}
