package vx

import (
	"time"
	"github.com/cube2222/octosql/functions"
	"github.com/cube2222/octosql/octosql"
	"github.com/cube2222/octosql/zzverif"
)

// LIKE: the regexp engine itself cannot be encoded, so under the engine the property is decided
// on the REGEX SOURCE the real `like` closure hands to regexp.Compile for an arbitrary symbolic
// pattern: tokenised, it must be exactly the specification's token sequence (% = any run of
// characters incl. newline, _ = any one character incl. newline, \x = literal x for x in {%,_,\},
// every other character literal). A counterexample is a concrete pattern; the native replay then
// searches subjects over a small alphabet for a demonstrated disagreement between the real
// function and a reference LIKE matcher — only that is reported.

const (
	ltLit = iota
	ltAnyRun
	ltAnyChar
	ltAnyRunNoNL
	ltAnyCharNoNL
	ltBad
)

type likeTok struct {
	kind int
	c    byte
}

// specTokens: the specification's reading of an ASCII pattern. valid=false for patterns the
// description does not give a meaning to (backslash before an ordinary character, trailing \).
func specTokens(p string) (toks []likeTok, valid bool) {
	for i := 0; i < len(p); i++ {
		c := p[i]
		switch {
		case c == '\\':
			if i+1 >= len(p) {
				return nil, false
			}
			n := p[i+1]
			if n != '%' && n != '_' && n != '\\' {
				return nil, false
			}
			toks = append(toks, likeTok{ltLit, n})
			i++
		case c == '%':
			toks = append(toks, likeTok{kind: ltAnyRun})
		case c == '_':
			toks = append(toks, likeTok{kind: ltAnyChar})
		default:
			toks = append(toks, likeTok{ltLit, c})
		}
	}
	return toks, true
}

func isAlnum(c byte) bool {
	return (c >= '0' && c <= '9') || (c >= 'a' && c <= 'z') || (c >= 'A' && c <= 'Z')
}

func isRegexMeta(c byte) bool {
	switch c {
	case '\\', '.', '+', '*', '?', '(', ')', '|', '[', ']', '{', '}', '^', '$':
		return true
	}
	return false
}

// regexTokens tokenises an anchored regex source "[(?s)]^ … $" of the shape the like closure builds.
func regexTokens(src string) (toks []likeTok, ok bool) {
	i := 0
	dotall := false
	if len(src) >= 4 && src[0] == '(' && src[1] == '?' && src[2] == 's' && src[3] == ')' {
		dotall = true
		i = 4
	}
	if i >= len(src) || src[i] != '^' {
		return nil, false
	}
	i++
	if len(src) == i || src[len(src)-1] != '$' {
		return nil, false
	}
	end := len(src) - 1
	for i < end {
		c := src[i]
		switch {
		case c == '\\':
			if i+1 >= end {
				return nil, false
			}
			n := src[i+1]
			if isAlnum(n) {
				toks = append(toks, likeTok{kind: ltBad})
			} else {
				toks = append(toks, likeTok{ltLit, n})
			}
			i += 2
		case c == '.':
			if i+1 < end && src[i+1] == '*' {
				if dotall {
					toks = append(toks, likeTok{kind: ltAnyRun})
				} else {
					toks = append(toks, likeTok{kind: ltAnyRunNoNL})
				}
				i += 2
			} else {
				if dotall {
					toks = append(toks, likeTok{kind: ltAnyChar})
				} else {
					toks = append(toks, likeTok{kind: ltAnyCharNoNL})
				}
				i++
			}
		case isRegexMeta(c):
			toks = append(toks, likeTok{kind: ltBad})
			i++
		default:
			toks = append(toks, likeTok{ltLit, c})
			i++
		}
	}
	return toks, true
}

// refLike is the reference matcher over spec tokens (bytes = characters on ASCII input).
func refLike(toks []likeTok, s string) bool {
	if len(toks) == 0 {
		return len(s) == 0
	}
	t := toks[0]
	switch t.kind {
	case ltAnyRun:
		for k := 0; k <= len(s); k++ {
			if refLike(toks[1:], s[k:]) {
				return true
			}
		}
		return false
	case ltAnyChar:
		return len(s) > 0 && refLike(toks[1:], s[1:])
	default:
		return len(s) > 0 && s[0] == t.c && refLike(toks[1:], s[1:])
	}
}

// VerifC12Like — see the comment at the top of this file. Param L: pattern length bound.
func VerifC12Like() {
	p := zzverif.Bytes("p", zzverif.Param("L"))
	for i := 0; i < len(p); i++ {
		zzverif.Assume(p[i] < 0x80) // ASCII patterns; multibyte patterns are outside this harness
	}
	spec, valid := specTokens(p)
	if !valid {
		zzverif.Reach("pattern-without-specified-meaning")
		return
	}
	zzverif.Reach("valid-pattern")
	like := functions.FunctionMap()["like"].Descriptors[0].Function
	if zzverif.Symbolic() {
		_, err := like([]octosql.Value{octosql.NewString(""), octosql.NewString(p)})
		zzverif.Assert(err == nil, "like-accepts-every-pattern-with-a-specified-meaning")
		got, ok := regexTokens(zzverif.LastRegexpSource())
		same := ok && len(got) == len(spec)
		if same {
			eq := true
			for i := range got {
				if got[i].kind != spec[i].kind {
					same = false
					break
				}
				if got[i].kind == ltLit {
					eq = zzverif.And(eq, got[i].c == spec[i].c)
				}
			}
			if same {
				zzverif.Assert(eq, "like-matches-exactly-the-specified-strings")
				return
			}
		}
		zzverif.Assert(false, "like-matches-exactly-the-specified-strings")
		return
	}
	// native replay: demonstrate a behavioural disagreement on some subject
	alphabet := []byte{'a', 'b', '\n', '%', '_', '\\', '*', '.', '|'}
	for i := 0; i < len(p); i++ {
		alphabet = append(alphabet, p[i])
	}
	var subjects []string
	subjects = append(subjects, "")
	for _, a := range alphabet {
		subjects = append(subjects, string([]byte{a}))
		for _, b := range alphabet {
			subjects = append(subjects, string([]byte{a, b}))
			if len(p) >= 3 {
				for _, c := range alphabet {
					subjects = append(subjects, string([]byte{a, b, c}))
				}
			}
		}
	}
	for _, s := range subjects {
		v, err := like([]octosql.Value{octosql.NewString(s), octosql.NewString(p)})
		zzverif.Assert(err == nil, "like-accepts-every-pattern-with-a-specified-meaning")
		zzverif.Assert(v.TypeID == octosql.TypeIDBoolean && v.Boolean == refLike(spec, s), "like-matches-exactly-the-specified-strings")
	}
}

// VerifC12Regex: `~` hands exactly the pattern to the regexp compiler and exactly the subject to
// the matcher; `~*` (CI=1) must agree with Go's case-insensitive matching, i.e. compile
// "(?i)"+pattern (or an equivalent that does not rewrite the pattern text) and match the
// unchanged subject. Natively the real functions are compared with regexp.MatchString on a small
// set of subjects.
func VerifC12Regex() {
	ci := zzverif.Param("CI") == 1
	p := zzverif.Bytes("p", zzverif.Param("L"))
	s := zzverif.Bytes("s", zzverif.Param("LS"))
	for i := 0; i < len(p); i++ {
		zzverif.Assume(p[i] < 0x80)
	}
	for i := 0; i < len(s); i++ {
		zzverif.Assume(s[i] < 0x80)
	}
	name := "~"
	want := p
	if ci {
		name = "~*"
		want = "(?i)" + p
	}
	fn := functions.FunctionMap()[name].Descriptors[0].Function
	if zzverif.ParamOr("WARM", 0) == 1 {
		// the same pattern TEXT goes through LIKE first (same process, as in one query that uses both
		// operators): whatever LIKE compiled and cached for it must not be what ~ then uses
		like := functions.FunctionMap()["like"].Descriptors[0].Function
		_, _ = like([]octosql.Value{octosql.NewString("x"), octosql.NewString(p)})
		if !zzverif.Symbolic() {
			time.Sleep(30 * time.Millisecond) // ristretto applies Set asynchronously
		}
	}
	if zzverif.Symbolic() {
		_, _ = fn([]octosql.Value{octosql.NewString(s), octosql.NewString(p)})
		zzverif.Reach("called")
		src, subj := zzverif.LastRegexpSource(), zzverif.LastRegexpSubject()
		if !ci {
			zzverif.Assert(zzverif.StrEq(src, want), "compiles-the-pattern-as-given")
			zzverif.Assert(zzverif.StrEq(subj, s), "matches-the-subject-as-given")
			return
		}
		// ~*: either the (?i) flag with pattern and subject untouched, or ASCII lower-casing of
		// both — which is only equivalent when the pattern has no escape followed by an upper-case
		// letter (\S, \W, \D, \B, \P… change meaning when lower-cased).
		flagged := zzverif.And(zzverif.StrEq(src, want), zzverif.StrEq(subj, s))
		escapedUpper := false
		for i := 0; i+1 < len(p); i++ {
			c := p[i+1]
			changes := zzverif.Or(zzverif.Or(zzverif.Or(c == 'S', c == 'W'), zzverif.Or(c == 'D', c == 'B')), zzverif.Or(c == 'A', zzverif.Or(c == 'Q', c == 'E')))
			escapedUpper = zzverif.Or(escapedUpper, zzverif.And(p[i] == '\\', changes))
		}
		lowered := zzverif.And(zzverif.StrEq(src, asciiLower(p)), zzverif.And(zzverif.StrEq(subj, asciiLower(s)), !escapedUpper))
		zzverif.Assert(zzverif.Or(flagged, lowered), "compiles-the-pattern-as-given")
		return
	}
	// The engine's counterexample says that for this pattern the implementation does not hand
	// pattern/subject to the regexp library as specified. Demonstrate a behavioural consequence
	// on a small neighbourhood: the pattern itself and, for ~*, single letters whose Unicode case
	// folding differs from lower-casing (s/ſ, k/K (Kelvin sign), i/İ), over subjects that
	// include those characters.
	patterns := []string{p}
	subjects := []string{s, "", "a", "A", " ", "1", "_", "\a", "aA", "A a", p, "x" + p + "x"}
	if ci {
		patterns = append(patterns, "s", "k", "i", "S", "most")
		subjects = append(subjects, "\u017f", "\u212a", "\u0130", "\u0131", "mo\u017ft")
	}
	for _, pat := range patterns {
		refPat := pat
		if ci {
			refPat = "(?i)" + pat
		}
		for _, subj := range subjects {
			ref, refErr := nativeRegexpMatch(refPat, subj)
			if refErr != nil {
				break // invalid pattern: an error either way is fine
			}
			v, err := fn([]octosql.Value{octosql.NewString(subj), octosql.NewString(pat)})
			ok := err == nil && v.TypeID == octosql.TypeIDBoolean && v.Boolean == ref
			zzverif.Assert(ok, "compiles-the-pattern-as-given")
			zzverif.Assert(ok, "matches-the-subject-as-given")
		}
	}
}

func asciiLower(s string) string {
	b := []byte(s)
	for i := range b {
		b[i] = zzverif.IteByte(zzverif.And(b[i] >= 'A', b[i] <= 'Z'), b[i]+32, b[i])
	}
	return string(b)
}
