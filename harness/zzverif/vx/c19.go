package vx

import (
	"fmt"
	"time"

	"github.com/cube2222/octosql/execution"
	"github.com/cube2222/octosql/octosql"
	"github.com/cube2222/octosql/zzverif"
)

// NDWatermarkedScript builds a script of exactly L messages for one join input: each message is
// a record (symbolic Int|NULL key, concrete payload, event time strictly after the source's
// current watermark: w+1 .. w+TCH seconds) or a watermark advancing by 1..WJ seconds (so that one input can leapfrog the other). Watermarks
// are monotone and no record is late, by construction.
func NDWatermarkedScript(name string, L, tch, wj, payloadBase int) []Msg {
	var out []Msg
	w := int64(0)
	for i := 0; i < L; i++ {
		if zzverif.Choice(fmt.Sprintf("%s.m%d.kind", name, i), 2) == 0 {
			t := w + 1 + int64(zzverif.Choice(fmt.Sprintf("%s.m%d.dt", name, i), tch))
			var key octosql.Value
			if zzverif.Param("NULLKEYS") == 0 {
				key = octosql.NewInt(zzverif.Int64(fmt.Sprintf("%s.m%d.key.int", name, i))) // Int keys only
			} else {
				key = NDCell(fmt.Sprintf("%s.m%d.key", name, i))
			}
			out = append(out, Msg{Kind: MsgRecord, Rec: execution.Record{
				Values:    []octosql.Value{key, octosql.NewInt(int64(payloadBase + i))},
				EventTime: time.Unix(t, 0),
			}})
		} else {
			w += 1 + int64(zzverif.Choice(fmt.Sprintf("%s.m%d.dw", name, i), wj))
			out = append(out, Msg{Kind: MsgWatermark, Watermark: time.Unix(w, 0)})
		}
	}
	return out
}

func recordsUpTo(msgs []Msg, w time.Time, all bool) []execution.Record {
	var out []execution.Record
	for _, m := range msgs {
		if m.Kind == MsgRecord && (all || !m.Rec.EventTime.After(w)) {
			out = append(out, m.Rec)
		}
	}
	return out
}

// VerifC19JoinConsistency: for two watermarked inputs and EVERY interleaving of their records,
// watermarks and end-of-stream, whenever the join emits watermark W its consolidated output
// equals the join of all input records with event time <= W, emitted watermarks never decrease,
// and at end of stream the output is the join of the complete inputs.
func VerifC19JoinConsistency() {
	L, tch, wj, kind := zzverif.Param("L"), zzverif.Param("TCH"), zzverif.Param("WJ"), zzverif.Param("KIND")
	left := NDWatermarkedScript("l", L, tch, wj, 0)
	right := NDWatermarkedScript("r", L, tch, wj, 100)
	ls, rs := GateJoinInputs(NewScriptSource(left), NewScriptSource(right))
	node := MakeJoin(kind, ls, rs, 1, 2, 2)
	sink := &Sink{}
	err := RunNode(node, sink)
	zzverif.Reach("ran")
	zzverif.Assert(err == nil, "no-error")
	var outSoFar []execution.Record
	var lastW time.Time
	for _, m := range sink.Out {
		if m.Kind == MsgRecord {
			outSoFar = append(outSoFar, m.Rec)
			continue
		}
		zzverif.Reach("watermark-emitted")
		zzverif.Assert(!m.Watermark.Before(lastW), "watermarks-non-decreasing")
		lastW = m.Watermark
		l, r := recordsUpTo(left, m.Watermark, false), recordsUpTo(right, m.Watermark, false)
		ok := true
		for _, x := range JoinCandidates(recordsUpTo(left, m.Watermark, true), recordsUpTo(right, m.Watermark, true), outSoFar, 2, 2) {
			ok = zzverif.And(ok, Count(outSoFar, x) == RefJoinCount(kind, l, r, 1, 2, 2, x))
		}
		zzverif.Assert(ok, "output-at-watermark-is-join-of-records-up-to-it")
	}
	l, r := recordsUpTo(left, lastW, true), recordsUpTo(right, lastW, true)
	ok := true
	for _, x := range JoinCandidates(l, r, outSoFar, 2, 2) {
		ok = zzverif.And(ok, Count(outSoFar, x) == RefJoinCount(kind, l, r, 1, 2, 2, x))
	}
	zzverif.Assert(ok, "output-at-end-is-join-of-complete-inputs")
	zzverif.Assert(ValidChangelog(outSoFar), "output-changelog-valid")
}
