package vx

import (
	"context"
	"fmt"
	"time"

	"github.com/cube2222/octosql/execution"
	"github.com/cube2222/octosql/octosql"
	"github.com/cube2222/octosql/zzverif"
)

// ---------- scripted source / collecting sink ----------

const (
	MsgRecord = iota
	MsgWatermark
)

type Msg struct {
	Kind      int
	Rec       execution.Record
	Watermark time.Time
}

// ScriptSource replays a fixed script of records and watermarks. If FailAt >= 0 it returns Err
// after FailAt messages have been delivered (FailAt == len(Msgs): fails at the very end).
type ScriptSource struct {
	Msgs   []Msg
	FailAt int
	Err    error
	Runs   int
}

func NewScriptSource(msgs []Msg) *ScriptSource { return &ScriptSource{Msgs: msgs, FailAt: -1} }

func (s *ScriptSource) Run(ctx execution.ExecutionContext, produce execution.ProduceFn, metaSend execution.MetaSendFn) error {
	s.Runs++
	pctx := execution.ProduceFromExecutionContext(ctx)
	for i, m := range s.Msgs {
		if i == s.FailAt {
			return s.Err
		}
		switch m.Kind {
		case MsgRecord:
			vals := make([]octosql.Value, len(m.Rec.Values))
			copy(vals, m.Rec.Values)
			if err := produce(pctx, execution.NewRecord(vals, m.Rec.Retraction, m.Rec.EventTime)); err != nil {
				return err
			}
		case MsgWatermark:
			if err := metaSend(pctx, execution.MetadataMessage{Type: execution.MetadataMessageTypeWatermark, Watermark: m.Watermark}); err != nil {
				return err
			}
		}
	}
	if s.FailAt == len(s.Msgs) {
		return s.Err
	}
	return nil
}

// Sink collects everything a node emits.
type Sink struct {
	Out []Msg
}

func (s *Sink) Produce(ctx execution.ProduceContext, rec execution.Record) error {
	s.Out = append(s.Out, Msg{Kind: MsgRecord, Rec: rec})
	return nil
}

func (s *Sink) Meta(ctx execution.ProduceContext, msg execution.MetadataMessage) error {
	s.Out = append(s.Out, Msg{Kind: MsgWatermark, Watermark: msg.Watermark})
	return nil
}

func (s *Sink) Records() []execution.Record {
	var out []execution.Record
	for _, m := range s.Out {
		if m.Kind == MsgRecord {
			out = append(out, m.Rec)
		}
	}
	return out
}

func RunNode(n execution.Node, sink *Sink) error {
	return n.Run(ExecCtx(), sink.Produce, sink.Meta)
}

func ExecCtx() execution.ExecutionContext {
	return execution.ExecutionContext{Context: context.Background(), VariableContext: nil}
}

// ---------- symbolic rows and changelogs ----------

// NDCell returns Int(symbolic) or NULL (symbolic choice, no fork).
func NDCell(name string) octosql.Value {
	isNull := zzverif.Bool(name + ".null")
	x := zzverif.Int64(name + ".int")
	return octosql.Value{
		TypeID: octosql.TypeID(zzverif.IteInt(isNull, int(octosql.TypeIDNull), int(octosql.TypeIDInt))),
		Int:    zzverif.IteInt64(isNull, 0, x),
	}
}

// NDSmallCell is like NDCell but the integer is restricted to [0, dom) so that duplicates are likely.
func NDSmallCell(name string, dom int) octosql.Value {
	v := NDCell(name)
	zzverif.Assume(zzverif.And(v.Int >= 0, v.Int < int64(dom)))
	return v
}

func NDRow(name string, cols int) []octosql.Value {
	out := make([]octosql.Value, cols)
	for i := range out {
		out[i] = NDCell(fmt.Sprintf("%s.c%d", name, i))
	}
	return out
}

// NDTable returns 0..maxRows rows (symbolic row count via forked choice).
func NDTable(name string, maxRows, cols int) [][]octosql.Value {
	n := zzverif.Choice(name+".rows", maxRows+1)
	out := make([][]octosql.Value, n)
	for i := range out {
		out[i] = NDRow(fmt.Sprintf("%s.r%d", name, i), cols)
	}
	return out
}

// NDChangelog returns a valid changelog of exactly L events over rows of `cols` Int|NULL cells:
// each event is an addition of a fresh symbolic row or the retraction of an earlier addition
// that has not been retracted yet (valid by construction: never retracts an absent row).
func NDChangelog(name string, L, cols int) []execution.Record {
	var out []execution.Record
	var live []int // indices in out of additions not yet retracted
	for i := 0; i < L; i++ {
		k := zzverif.Choice(fmt.Sprintf("%s.e%d", name, i), 1+len(live))
		if k == 0 {
			out = append(out, execution.NewRecord(NDRow(fmt.Sprintf("%s.e%d", name, i), cols), false, time.Time{}))
			live = append(live, len(out)-1)
		} else {
			idx := live[k-1]
			live = append(live[:k-1:k-1], live[k:]...)
			vals := make([]octosql.Value, cols)
			copy(vals, out[idx].Values)
			out = append(out, execution.NewRecord(vals, true, time.Time{}))
		}
	}
	return out
}

func RecordsToMsgs(recs []execution.Record) []Msg {
	out := make([]Msg, len(recs))
	for i, r := range recs {
		out[i] = Msg{Kind: MsgRecord, Rec: r}
	}
	return out
}

// ---------- branch-free comparisons ----------

// CellEq is row identity on Int|NULL|Boolean cells (NULL equals NULL), branch-free.
func CellEq(a, b octosql.Value) bool {
	return zzverif.And(a.TypeID == b.TypeID, zzverif.And(a.Int == b.Int, a.Boolean == b.Boolean))
}

func RowEq(a, b []octosql.Value) bool {
	if len(a) != len(b) {
		return false
	}
	eq := true
	for i := range a {
		eq = zzverif.And(eq, CellEq(a[i], b[i]))
	}
	return eq
}

// Count returns the signed multiplicity of row x in the changelog (additions - retractions).
func Count(recs []execution.Record, x []octosql.Value) int {
	n := 0
	for _, r := range recs {
		d := 1
		if r.Retraction {
			d = -1
		}
		n += zzverif.IteInt(RowEq(r.Values, x), d, 0)
	}
	return n
}

// SameMultiset asserts that two changelogs consolidate to the same multiset of rows.
func SameMultiset(got, want []execution.Record) bool {
	ok := true
	for _, r := range got {
		ok = zzverif.And(ok, Count(got, r.Values) == Count(want, r.Values))
	}
	for _, r := range want {
		ok = zzverif.And(ok, Count(got, r.Values) == Count(want, r.Values))
	}
	return ok
}

// ValidChangelog: no prefix of the changelog has a negative multiplicity for any row.
func ValidChangelog(recs []execution.Record) bool {
	ok := true
	for i, r := range recs {
		if r.Retraction {
			ok = zzverif.And(ok, Count(recs[:i+1], r.Values) >= 0)
		}
	}
	return ok
}
