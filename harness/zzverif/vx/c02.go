package vx

import (
	"github.com/cube2222/octosql/execution"
	"github.com/cube2222/octosql/execution/nodes"
	"github.com/cube2222/octosql/octosql"
	"github.com/cube2222/octosql/zzverif"
)

// refInnerJoinCount: multiplicity of the joined row (l ++ r) in the reference inner equi-join on
// column 0 (an equality never matches NULL keys).
func joinedRow(l, r execution.Record) execution.Record {
	vals := append(append([]octosql.Value{}, l.Values...), r.Values...)
	return execution.Record{Values: vals}
}

// VerifC02StreamJoin: inner stream join of two symbolic tables on column 0, every receive order.
func VerifC02StreamJoin() {
	n := zzverif.Param("N")
	left := NDTable("l", n, 2)
	right := NDTable("r", n, 2)
	var lrecs, rrecs []execution.Record
	for _, row := range left {
		lrecs = append(lrecs, execution.Record{Values: row})
	}
	for _, row := range right {
		rrecs = append(rrecs, execution.Record{Values: row})
	}
	node := nodes.NewStreamJoin(NewScriptSource(RecordsToMsgs(lrecs)), NewScriptSource(RecordsToMsgs(rrecs)),
		[]execution.Expression{execution.NewVariable(0, 0)}, []execution.Expression{execution.NewVariable(0, 0)})
	sink := &Sink{}
	err := RunNode(node, sink)
	zzverif.Reach("ran")
	zzverif.Assert(err == nil, "no-error")
	out := sink.Records()
	// reference: all pairs with equal non-NULL keys
	var want []execution.Record
	for _, l := range lrecs {
		for _, r := range rrecs {
			match := zzverif.And(l.Values[0].TypeID == octosql.TypeIDInt, zzverif.And(r.Values[0].TypeID == octosql.TypeIDInt, l.Values[0].Int == r.Values[0].Int))
			j := joinedRow(l, r)
			_ = match
			want = append(want, j)
		}
	}
	ok := true
	refCount := func(x []octosql.Value) int {
		c := 0
		for _, l := range lrecs {
			for _, r := range rrecs {
				match := zzverif.And(l.Values[0].TypeID == octosql.TypeIDInt, zzverif.And(r.Values[0].TypeID == octosql.TypeIDInt, l.Values[0].Int == r.Values[0].Int))
				c += zzverif.IteInt(zzverif.And(match, RowEq(joinedRow(l, r).Values, x)), 1, 0)
			}
		}
		return c
	}
	for _, w := range want {
		ok = zzverif.And(ok, Count(out, w.Values) == refCount(w.Values))
	}
	for _, o := range out {
		ok = zzverif.And(ok, Count(out, o.Values) == refCount(o.Values))
	}
	zzverif.Assert(ok, "output-is-inner-join")
	zzverif.Assert(ValidChangelog(out), "output-changelog-valid")
}
