package vx

import (
	"github.com/cube2222/octosql/execution"
	"github.com/cube2222/octosql/execution/nodes"
	"github.com/cube2222/octosql/functions"
	"github.com/cube2222/octosql/octosql"
	"github.com/cube2222/octosql/zzverif"
)

// Join kinds for the C02 / C19 harnesses.
const (
	JoinInner = iota
	JoinLeft
	JoinRight
	JoinFull
	JoinLookup
)

func concatRow(l, r []octosql.Value) []octosql.Value {
	return append(append([]octosql.Value{}, l...), r...)
}

func nullRow(n int) []octosql.Value { return make([]octosql.Value, n) }

// KeysMatch: SQL equality on the key columns (never matches NULL), branch-free.
func KeysMatch(l, r []octosql.Value, keyCols int) bool {
	ok := true
	for i := 0; i < keyCols; i++ {
		ok = zzverif.And(ok, zzverif.And(l[i].TypeID == octosql.TypeIDInt, zzverif.And(r[i].TypeID == octosql.TypeIDInt, l[i].Int == r[i].Int)))
	}
	return ok
}

// RefJoinCount is the multiplicity of row x in the reference join of the consolidated inputs
// (left/right given as changelogs; retractions count -1). Outer sides pad every row that has no
// match in the consolidated other side exactly once with NULLs.
func RefJoinCount(kind int, left, right []execution.Record, keyCols, lcols, rcols int, x []octosql.Value) int {
	sign := func(r execution.Record) int {
		if r.Retraction {
			return -1
		}
		return 1
	}
	c := 0
	for _, l := range left {
		for _, r := range right {
			m := zzverif.And(KeysMatch(l.Values, r.Values, keyCols), RowEq(concatRow(l.Values, r.Values), x))
			c += zzverif.IteInt(m, sign(l)*sign(r), 0)
		}
	}
	if kind == JoinLeft || kind == JoinFull {
		for _, l := range left {
			// number of matching right rows in the consolidated right input
			matches := 0
			for _, r := range right {
				matches += zzverif.IteInt(KeysMatch(l.Values, r.Values, keyCols), sign(r), 0)
			}
			m := zzverif.And(matches == 0, RowEq(concatRow(l.Values, nullRow(rcols)), x))
			c += zzverif.IteInt(m, sign(l), 0)
		}
	}
	if kind == JoinRight || kind == JoinFull {
		for _, r := range right {
			matches := 0
			for _, l := range left {
				matches += zzverif.IteInt(KeysMatch(l.Values, r.Values, keyCols), sign(l), 0)
			}
			m := zzverif.And(matches == 0, RowEq(concatRow(nullRow(lcols), r.Values), x))
			c += zzverif.IteInt(m, sign(r), 0)
		}
	}
	return c
}

// JoinCandidates lists every row that can appear in the reference result or in the output.
func JoinCandidates(left, right, out []execution.Record, lcols, rcols int) [][]octosql.Value {
	var cands [][]octosql.Value
	for _, l := range left {
		for _, r := range right {
			cands = append(cands, concatRow(l.Values, r.Values))
		}
		cands = append(cands, concatRow(l.Values, nullRow(rcols)))
	}
	for _, r := range right {
		cands = append(cands, concatRow(nullRow(lcols), r.Values))
	}
	for _, o := range out {
		cands = append(cands, o.Values)
	}
	return cands
}

func keyExprs(keyCols int) []execution.Expression {
	out := make([]execution.Expression, keyCols)
	for i := range out {
		out[i] = execution.NewVariable(0, i)
	}
	return out
}

// MakeJoin builds the real join node of the given kind over two sources.
func MakeJoin(kind int, left, right execution.Node, keyCols, lcols, rcols int) execution.Node {
	switch kind {
	case JoinInner:
		return nodes.NewStreamJoin(left, right, keyExprs(keyCols), keyExprs(keyCols))
	case JoinLeft:
		return nodes.NewOuterJoin(left, right, lcols, rcols, keyExprs(keyCols), keyExprs(keyCols), true, false)
	case JoinRight:
		return nodes.NewOuterJoin(left, right, lcols, rcols, keyExprs(keyCols), keyExprs(keyCols), false, true)
	case JoinFull:
		return nodes.NewOuterJoin(left, right, lcols, rcols, keyExprs(keyCols), keyExprs(keyCols), true, true)
	case JoinLookup:
		// joined side: Filter(right, right.key = left.key) evaluated once per source record, the way
		// the planner materialises a LOOKUP JOIN with the equality pushed into the joined branch
		eq := functions.FunctionMap()["="].Descriptors[0].Function
		var pred execution.Expression
		conj := make([]execution.Expression, keyCols)
		for i := 0; i < keyCols; i++ {
			conj[i] = execution.NewFunctionCall(eq, []execution.Expression{execution.NewVariable(0, i), execution.NewVariable(1, i)}, []int{0, 1})
		}
		if keyCols == 1 {
			pred = conj[0]
		} else {
			pred = execution.NewAnd(conj)
		}
		return nodes.NewLookupJoin(left, nodes.NewFilter(right, pred))
	}
	panic("bad join kind")
}

// VerifC02Join: the join of two symbolic tables (0..N rows each, KEYS key columns Int|NULL plus
// one payload column) equals the relational join, for every receive order of the two inputs
// (every select choice is forked, so "left ends first" and "right ends first" both occur).
// KIND: 0 inner stream join, 1 left, 2 right, 3 full outer join, 4 lookup join.
func VerifC02Join() {
	n, keys, kind := zzverif.Param("N"), zzverif.Param("KEYS"), zzverif.Param("KIND")
	cols := keys + 1
	var lrecs, rrecs []execution.Record
	// Key columns are symbolic Int|NULL; the payload column is concrete: the row index (PAYLOAD=0,
	// rows are pairwise different) or the constant 7 (PAYLOAD=1, rows with equal keys are
	// complete duplicates) — its only role is to tell rows apart or not.
	payload := func(i int) octosql.Value {
		if zzverif.Param("PAYLOAD") == 1 {
			return octosql.NewInt(7)
		}
		return octosql.NewInt(int64(i))
	}
	// LX / RX extra constant columns make the two inputs differ in width
	lx, rx := zzverif.ParamOr("LX", 0), zzverif.ParamOr("RX", 0)
	extra := func(row []octosql.Value, k, base int) []octosql.Value {
		for j := 0; j < k; j++ {
			row = append(row, octosql.NewInt(int64(base+j)))
		}
		return row
	}
	for i, row := range NDTable("l", n, keys) {
		lrecs = append(lrecs, execution.Record{Values: extra(append(row, payload(i)), lx, 100)})
	}
	for i, row := range NDTable("r", n, keys) {
		rrecs = append(rrecs, execution.Record{Values: extra(append(row, payload(10+i)), rx, 200)})
	}
	var ls, rs execution.Node = NewScriptSource(RecordsToMsgs(lrecs)), NewScriptSource(RecordsToMsgs(rrecs))
	if kind != JoinLookup {
		ls, rs = GateJoinInputs(NewScriptSource(RecordsToMsgs(lrecs)), NewScriptSource(RecordsToMsgs(rrecs)))
	}
	lcols, rcols := cols+lx, cols+rx
	node := MakeJoin(kind, ls, rs, keys, lcols, rcols)
	sink := &Sink{}
	err := RunNode(node, sink)
	zzverif.Reach("ran")
	zzverif.Assert(err == nil, "no-error")
	out := sink.Records()
	ok := true
	for _, x := range JoinCandidates(lrecs, rrecs, out, lcols, rcols) {
		ok = zzverif.And(ok, Count(out, x) == RefJoinCount(kind, lrecs, rrecs, keys, lcols, rcols, x))
	}
	zzverif.Assert(ok, "output-is-relational-join")
	zzverif.Assert(ValidChangelog(out), "output-changelog-valid")
}
