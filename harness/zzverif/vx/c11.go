package vx

import (
	"context"
	"fmt"

	"github.com/cube2222/octosql/execution"
	"github.com/cube2222/octosql/octosql"
	"github.com/cube2222/octosql/zzverif"
)

// tri is a three-valued truth value: 0 FALSE, 1 TRUE, 2 NULL (reference encoding).
func triOf(v octosql.Value) int {
	return zzverif.IteInt(v.TypeID == octosql.TypeIDNull, 2, zzverif.IteInt(v.Boolean, 1, 0))
}

func ndTri(name string) octosql.Value {
	isNull := zzverif.Bool(name + ".null")
	b := zzverif.Bool(name + ".b")
	// a NULL carries Boolean=false like octosql.NewNull()
	return octosql.Value{
		TypeID:  octosql.TypeID(zzverif.IteInt(isNull, int(octosql.TypeIDNull), int(octosql.TypeIDBoolean))),
		Boolean: zzverif.And(!isNull, b),
	}
}

func kleeneAnd(a, b int) int {
	return zzverif.IteInt(zzverif.Or(a == 0, b == 0), 0, zzverif.IteInt(zzverif.Or(a == 2, b == 2), 2, 1))
}
func kleeneOr(a, b int) int {
	return zzverif.IteInt(zzverif.Or(a == 1, b == 1), 1, zzverif.IteInt(zzverif.Or(a == 2, b == 2), 2, 0))
}
func kleeneNot(a int) int { return zzverif.IteInt(a == 2, 2, 1-a) }

type triExpr struct {
	ex  execution.Expression
	ref int
}

// ndBoolTree builds an arbitrary AND/OR/NOT tree of the given depth over fresh three-valued
// leaves, together with its Kleene reference value.
func ndBoolTree(name string, depth, maxArgs int) triExpr {
	if depth == 0 {
		v := ndTri(name)
		return triExpr{ex: execution.NewConstant(v), ref: triOf(v)}
	}
	switch zzverif.Choice(name+".op", 4) {
	case 0:
		return ndBoolTree(name+".l", 0, maxArgs)
	case 1: // NOT through the real typechecked function (argument type Boolean | NULL)
		sub := ndBoolTree(name+".n", depth-1, maxArgs)
		expr, ok := Typecheck("not", []octosql.Type{Nullable(octosql.Boolean)})
		zzverif.Assert(ok, "not-typechecks")
		types := []octosql.Type{Nullable(octosql.Boolean)}
		subVal, err := sub.ex.Evaluate(emptyCtx())
		zzverif.Assert(err == nil, "no-error")
		out, err := Eval(expr, types, []octosql.Value{subVal})
		zzverif.Assert(err == nil, "no-error")
		return triExpr{ex: execution.NewConstant(out), ref: kleeneNot(sub.ref)}
	case 2:
		n := 2 + zzverif.Choice(name+".k", maxArgs-1)
		args := make([]execution.Expression, n)
		ref := 1
		for i := range args {
			sub := ndBoolTree(fmt.Sprintf("%s.a%d", name, i), depth-1, maxArgs)
			args[i] = sub.ex
			ref = kleeneAnd(ref, sub.ref)
		}
		return triExpr{ex: execution.NewAnd(args), ref: ref}
	default:
		n := 2 + zzverif.Choice(name+".k", maxArgs-1)
		args := make([]execution.Expression, n)
		ref := 0
		for i := range args {
			sub := ndBoolTree(fmt.Sprintf("%s.o%d", name, i), depth-1, maxArgs)
			args[i] = sub.ex
			ref = kleeneOr(ref, sub.ref)
		}
		return triExpr{ex: execution.NewOr(args), ref: ref}
	}
}

func emptyCtx() execution.ExecutionContext {
	return execution.ExecutionContext{Context: context.Background(), VariableContext: &execution.VariableContext{}}
}

// VerifC11Kleene: AND / OR / NOT trees evaluate to their Kleene value for every assignment of
// TRUE / FALSE / NULL to the leaves.
func VerifC11Kleene() {
	t := ndBoolTree("t", zzverif.Param("DEPTH"), zzverif.Param("K"))
	zzverif.Reach("tree-built")
	v, err := t.ex.Evaluate(emptyCtx())
	zzverif.Assert(err == nil, "no-error")
	zzverif.Assert(zzverif.Or(v.TypeID == octosql.TypeIDNull, v.TypeID == octosql.TypeIDBoolean), "result-is-boolean-or-null")
	zzverif.Assert(triOf(v) == t.ref, "kleene-value")
}
