package vx

import (
	"errors"
	"time"

	"github.com/cube2222/octosql/aggregates"
	"github.com/cube2222/octosql/execution"
	"github.com/cube2222/octosql/execution/nodes"
	"github.com/cube2222/octosql/octosql"
	"github.com/cube2222/octosql/zzverif"
)

var errVerifConsumer = errors.New("verif: the consumer above failed")

// failingSink accepts FailAt records and fails on the next one (what an operator above — a failing
// expression in a Map/Filter over a subquery, a failing output — does to the operator below it).
type failingSink struct {
	FailAt int
	Calls  int
	Failed bool
}

func (s *failingSink) Produce(ctx execution.ProduceContext, rec execution.Record) error {
	s.Calls++
	if s.Calls > s.FailAt {
		s.Failed = true
		return errVerifConsumer
	}
	return nil
}

func (s *failingSink) Meta(ctx execution.ProduceContext, msg execution.MetadataMessage) error { return nil }

// VerifC06ConsumerFails: for every operator kind, if the consumer above it fails on some record
// the operator's Run must return an error too (it must not swallow the failure of what sits above
// it). KIND selects the operator; the source is a healthy symbolic table of ROWS rows; the
// consumer fails on its (k+1)-th record, k forked.
func VerifC06ConsumerFails() {
	zzverif.FixedSchedule(true)
	rows := zzverif.Param("ROWS")
	kind := zzverif.Param("KIND")
	var recs []execution.Record
	for _, row := range NDTable("t", rows, 2) {
		recs = append(recs, execution.Record{Values: row})
	}
	zzverif.Assume(len(recs) > 0)
	src := func() execution.Node { return NewScriptSource(RecordsToMsgs(recs)) }
	v0, v1 := execution.NewVariable(0, 0), execution.NewVariable(0, 1)
	var node execution.Node
	switch kind {
	case 0:
		node = nodes.NewMap(src(), []execution.Expression{v0, v1})
	case 1:
		node = nodes.NewFilter(src(), execution.NewConstant(octosql.NewBoolean(true)))
	case 2:
		node = nodes.NewDistinct(src())
	case 3:
		node = nodes.NewOrderSensitiveTransform(src(), []execution.Expression{v0}, []int{1}, nil, true)
	case 4:
		node = nodes.NewSimpleGroupBy([]func() nodes.Aggregate{aggregates.NewCountPrototype()}, []execution.Expression{v1}, []execution.Expression{v0}, src())
	case 5:
		node = nodes.NewStreamJoin(src(), src(), []execution.Expression{v0}, []execution.Expression{v0})
	case 6:
		node = nodes.NewOuterJoin(src(), src(), 2, 2, []execution.Expression{v0}, []execution.Expression{v0}, true, true)
	case 7:
		node = nodes.NewLookupJoin(src(), src())
	case 8:
		lim := execution.Expression(execution.NewConstant(octosql.NewInt(100)))
		node = nodes.NewLimit(src(), lim)
	case 9:
		node = nodes.NewEventTimeBuffer(src())
	default:
		panic("bad KIND")
	}
	sink := &failingSink{FailAt: zzverif.Choice("fail-after", rows+1)}
	err := node.Run(ExecCtx(), sink.Produce, sink.Meta)
	zzverif.Reach("ran")
	if sink.Failed {
		zzverif.Reach("consumer-failed")
		zzverif.Assert(err != nil, "failure-of-the-consumer-above-is-returned")
	}
	_ = time.Time{}
}
