package vx

import (
	"fmt"
	"errors"
	"time"

	"github.com/cube2222/octosql/aggregates"
	"github.com/cube2222/octosql/execution"
	"github.com/cube2222/octosql/execution/nodes"
	"github.com/cube2222/octosql/octosql"
	"github.com/cube2222/octosql/zzverif"
)

var errVerifConsumer = errors.New("verif: the consumer above failed")
var errInjected = errors.New("verif: the input failed")

// failingSink accepts FailAt records and fails on the next one (what an operator above — a failing
// expression in a Map/Filter over a subquery, a failing output — does to the operator below it).
type failingSink struct {
	FailAt int
	Calls  int
	Failed bool
}

func (s *failingSink) Produce(ctx execution.ProduceContext, rec execution.Record) error {
	s.Calls++
	if s.Calls > s.FailAt {
		s.Failed = true
		return errVerifConsumer
	}
	return nil
}

func (s *failingSink) Meta(ctx execution.ProduceContext, msg execution.MetadataMessage) error { return nil }

// VerifC06ConsumerFails: for every operator kind, if the consumer above it fails on some record
// the operator's Run must return an error too (it must not swallow the failure of what sits above
// it). KIND selects the operator; the source is a healthy symbolic table of ROWS rows; the
// consumer fails on its (k+1)-th record, k forked.
func VerifC06ConsumerFails() {
	zzverif.FixedSchedule(true)
	rows := zzverif.Param("ROWS")
	kind := zzverif.Param("KIND")
	var recs []execution.Record
	for _, row := range NDTable("t", rows, 2) {
		recs = append(recs, execution.Record{Values: row})
	}
	zzverif.Assume(len(recs) > 0)
	src := func() execution.Node { return NewScriptSource(RecordsToMsgs(recs)) }
	v0, v1 := execution.NewVariable(0, 0), execution.NewVariable(0, 1)
	var node execution.Node
	switch kind {
	case 0:
		node = nodes.NewMap(src(), []execution.Expression{v0, v1})
	case 1:
		node = nodes.NewFilter(src(), execution.NewConstant(octosql.NewBoolean(true)))
	case 2:
		node = nodes.NewDistinct(src())
	case 3:
		node = nodes.NewOrderSensitiveTransform(src(), []execution.Expression{v0}, []int{1}, nil, true)
	case 4:
		node = nodes.NewSimpleGroupBy([]func() nodes.Aggregate{aggregates.NewCountPrototype()}, []execution.Expression{v1}, []execution.Expression{v0}, src())
	case 5:
		node = nodes.NewStreamJoin(src(), src(), []execution.Expression{v0}, []execution.Expression{v0})
	case 6:
		node = nodes.NewOuterJoin(src(), src(), 2, 2, []execution.Expression{v0}, []execution.Expression{v0}, true, true)
	case 7:
		node = nodes.NewLookupJoin(src(), src())
	case 8:
		// every limit 1..rows+1: the consumer can fail exactly on the row that reaches the limit
		lim := execution.Expression(execution.NewConstant(octosql.NewInt(int64(1 + zzverif.Choice("limit", rows+1)))))
		node = nodes.NewLimit(src(), lim)
	case 9:
		node = nodes.NewEventTimeBuffer(src())
	default:
		panic("bad KIND")
	}
	sink := &failingSink{FailAt: zzverif.Choice("fail-after", rows+1)}
	err := node.Run(ExecCtx(), sink.Produce, sink.Meta)
	zzverif.Reach("ran")
	if sink.Failed {
		zzverif.Reach("consumer-failed")
		zzverif.Assert(err != nil, "failure-of-the-consumer-above-is-returned")
	}
	_ = time.Time{}
}

// VerifC06JoinFullBuffer (C06): one input of a StreamJoin (KIND 0) / OuterJoin (KIND 1) delivers
// exactly N records and then fails; the other input has OTHER symbolic rows. N is chosen around the
// capacity of the join's input channels (10 000 in stream_join.go / outer_join.go): under the
// engine's scheduler the producer goroutine runs until its channel is full before the join loop
// takes the first message, so with N = capacity the failure arrives when the buffer is exactly
// full. The join must return an error. SIDE 0: the left input fails, 1: the right one.
func VerifC06JoinFullBuffer() {
	zzverif.FixedSchedule(true) // the subject is the full buffer, not the receive order (C02/C19)
	n, kind, side := zzverif.Param("N"), zzverif.Param("KIND"), zzverif.Param("SIDE")
	msgs := make([]Msg, n)
	for i := range msgs {
		msgs[i] = Msg{Kind: MsgRecord, Rec: execution.Record{Values: []octosql.Value{octosql.NewInt(0), octosql.NewInt(int64(i))}}}
	}
	failing := NewScriptSource(msgs)
	failing.FailAt = n
	failing.Err = errInjected
	var other []execution.Record
	// the other input: 0..OTHER rows [key 0 or 1 (forked), symbolic Int|NULL]
	for i, cnt := 0, zzverif.Choice("o.rows", zzverif.Param("OTHER")+1); i < cnt; i++ {
		key := octosql.NewInt(int64(zzverif.Choice(fmt.Sprintf("o.r%d.key", i), 2)))
		other = append(other, execution.Record{Values: []octosql.Value{key, NDCell(fmt.Sprintf("o.r%d.c", i))}})
	}
	healthy := NewScriptSource(RecordsToMsgs(other))
	var failingNode execution.Node = failing
	if !zzverif.Symbolic() {
		// Native replay: reproduce the engine's schedule (the producer fills its channel before the
		// join loop takes anything from it). The failing input starts only after the join loop has
		// received the first message (or the end) of the OTHER input and is parked in the verif
		// hook; the hook lets the loop continue shortly after the failing input's Run has returned.
		parked, done := make(chan struct{}), make(chan struct{})
		first := true
		nodes.VerifJoinMessageReceived = func(s int) {
			if first && s != side {
				first = false
				close(parked)
				<-done
				time.Sleep(200 * time.Millisecond)
			}
		}
		defer func() { nodes.VerifJoinMessageReceived = nil }()
		failingNode = &heldSource{inner: failing, start: parked, done: done}
	}
	var left, right execution.Node = failingNode, healthy
	if side == 1 {
		left, right = healthy, failingNode
	}
	v0 := execution.NewVariable(0, 0)
	var node execution.Node
	if kind == 0 {
		node = nodes.NewStreamJoin(left, right, []execution.Expression{v0}, []execution.Expression{v0})
	} else {
		node = nodes.NewOuterJoin(left, right, 2, 2, []execution.Expression{v0}, []execution.Expression{v0}, true, true)
	}
	sink := &Sink{}
	err := RunNode(node, sink)
	zzverif.Reach("ran")
	zzverif.Assert(err != nil, "input-failure-with-full-buffer-is-returned")
}

// heldSource starts its inner source when start is closed and closes done when it has returned.
type heldSource struct {
	inner       execution.Node
	start, done chan struct{}
}

func (h *heldSource) Run(ctx execution.ExecutionContext, produce execution.ProduceFn, metaSend execution.MetaSendFn) error {
	<-h.start
	defer close(h.done)
	return h.inner.Run(ctx, produce, metaSend)
}
