// Package vx holds cross-package harness helpers of the /verif machinery (injected by overlay).
package vx

import (
	"context"
	"fmt"

	"github.com/cube2222/octosql/execution"
	"github.com/cube2222/octosql/functions"
	"github.com/cube2222/octosql/logical"
	"github.com/cube2222/octosql/octosql"
	"github.com/cube2222/octosql/physical"
	"github.com/cube2222/octosql/zzverif"
)

// ValueOfType returns an arbitrary value that conforms to t (containers with 0..maxElems
// elements, strings of 0..strLen bytes).
func ValueOfType(name string, t octosql.Type, maxElems, strLen int) octosql.Value {
	switch t.TypeID {
	case octosql.TypeIDNull:
		return octosql.NewNull()
	case octosql.TypeIDInt:
		return octosql.VerifNDScalar(name, octosql.VKInt, strLen)
	case octosql.TypeIDFloat:
		return octosql.VerifNDScalar(name, octosql.VKFloat, strLen)
	case octosql.TypeIDBoolean:
		return octosql.VerifNDScalar(name, octosql.VKBoolean, strLen)
	case octosql.TypeIDString:
		return octosql.VerifNDScalar(name, octosql.VKString, strLen)
	case octosql.TypeIDTime:
		return octosql.VerifNDScalar(name, octosql.VKTime, strLen)
	case octosql.TypeIDDuration:
		return octosql.VerifNDScalar(name, octosql.VKDuration, strLen)
	case octosql.TypeIDList:
		if t.List.Element == nil {
			return octosql.NewList([]octosql.Value{})
		}
		n := zzverif.Choice(name+".n", maxElems+1)
		out := make([]octosql.Value, n)
		for i := range out {
			out[i] = ValueOfType(fmt.Sprintf("%s.%d", name, i), *t.List.Element, maxElems, strLen)
		}
		return octosql.NewList(out)
	case octosql.TypeIDStruct:
		out := make([]octosql.Value, len(t.Struct.Fields))
		for i := range out {
			out[i] = ValueOfType(fmt.Sprintf("%s.%d", name, i), t.Struct.Fields[i].Type, maxElems, strLen)
		}
		return octosql.NewStruct(out)
	case octosql.TypeIDTuple:
		out := make([]octosql.Value, len(t.Tuple.Elements))
		for i := range out {
			out[i] = ValueOfType(fmt.Sprintf("%s.%d", name, i), t.Tuple.Elements[i], maxElems, strLen)
		}
		return octosql.NewTuple(out)
	case octosql.TypeIDUnion:
		k := zzverif.Choice(name+".alt", len(t.Union.Alternatives))
		return ValueOfType(name, t.Union.Alternatives[k], maxElems, strLen)
	case octosql.TypeIDAny:
		return octosql.VerifNDValue(name, 0, maxElems, strLen)
	}
	panic("ValueOfType: bad type")
}

func argName(i int) string { return fmt.Sprintf("a%d", i) }

// Typecheck runs the real logical typechecker on name(a0, a1, ...) where argument i has static
// type types[i]. ok=false when the typechecker rejects the call (it panics by design).
func Typecheck(name string, types []octosql.Type) (expr physical.Expression, ok bool) {
	defer func() {
		if r := recover(); r != nil {
			ok = false
		}
	}()
	fields := make([]physical.SchemaField, len(types))
	mapping := map[string]string{}
	args := make([]logical.Expression, len(types))
	for i := range types {
		fields[i] = physical.SchemaField{Name: argName(i), Type: types[i]}
		mapping[argName(i)] = argName(i)
		args[i] = logical.NewVariable(argName(i))
	}
	env := physical.Environment{
		Functions:       functions.FunctionMap(),
		VariableContext: &physical.VariableContext{Fields: fields},
	}
	logicalEnv := logical.Environment{
		UniqueVariableNames: &logical.VariableMapping{Mapping: mapping},
		UniqueNameGenerator: map[string]int{},
	}
	expr = logical.NewFunctionExpression(name, args).Typecheck(context.Background(), env, logicalEnv)
	return expr, true
}

// Eval materialises a typechecked expression over variables a0.. and evaluates it on values.
func Eval(expr physical.Expression, types []octosql.Type, values []octosql.Value) (octosql.Value, error) {
	fields := make([]physical.SchemaField, len(types))
	for i := range types {
		fields[i] = physical.SchemaField{Name: argName(i), Type: types[i]}
	}
	env := physical.Environment{
		Functions:       functions.FunctionMap(),
		VariableContext: &physical.VariableContext{Fields: fields},
	}
	ex, err := expr.Materialize(context.Background(), env)
	if err != nil {
		return octosql.ZeroValue, err
	}
	return ex.Evaluate(execution.ExecutionContext{
		Context:         context.Background(),
		VariableContext: &execution.VariableContext{Values: values},
	})
}

// Nullable returns t | NULL.
func Nullable(t octosql.Type) octosql.Type { return octosql.TypeSum(t, octosql.Null) }
