package table_valued_functions

import (
	"errors"
	"fmt"
	"time"

	"github.com/cube2222/octosql/execution"
	"github.com/cube2222/octosql/octosql"
	"github.com/cube2222/octosql/zzverif"
	"github.com/cube2222/octosql/zzverif/vx"
)

var verifResolutions = []time.Duration{time.Nanosecond, time.Millisecond, time.Second, time.Minute}

// ndUnixTime returns time.Unix(sec, nsec) for symbolic sec in [0, 2^32) and nsec in [0, 1e9),
// together with its UnixNano as computed by the harness.
func ndUnixTime(name string) (time.Time, int64) {
	sec := zzverif.Int64(name + ".sec")
	nsec := zzverif.Int64(name + ".nsec")
	zzverif.Assume(zzverif.And(sec >= 0, sec < 1<<32))
	zzverif.Assume(zzverif.And(nsec >= 0, nsec < 1000000000))
	return time.Unix(sec, nsec), sec*1000000000 + nsec
}

// VerifC20MaxDiffWatermark: for N records with arbitrary times (in/out of order, duplicates),
// symbolic max_diff and a resolution from the catalogue, the generator emits a watermark exactly
// when the time rounded down to the resolution exceeds the largest rounded time so far, with value
// rounded - max_diff (hence strictly increasing); a record passes iff its time is after the
// current watermark, unchanged except EventTime := time field.
func VerifC20MaxDiffWatermark() {
	n := zzverif.Param("N")
	res := verifResolutions[zzverif.Param("RES")]
	maxDiff := zzverif.Int64("max_diff")
	zzverif.Assume(zzverif.And(maxDiff >= 0, maxDiff <= int64(time.Hour)))
	var msgs []vx.Msg
	nanos := make([]int64, n)
	payload := make([]octosql.Value, n)
	for i := 0; i < n; i++ {
		t, ns := ndUnixTime(fmt.Sprintf("t%d", i))
		if i == 0 && zzverif.ParamOr("CONC0", 0) == 1 {
			// the first record's time is concrete (middle of the range): a second record with an
			// arbitrary time then costs the solver no more than N=1 does
			t = time.Unix(1<<31, 500)
			ns = t.UnixNano()
		}
		nanos[i] = ns
		payload[i] = octosql.NewInt(zzverif.Int64(fmt.Sprintf("p%d", i)))
		msgs = append(msgs, vx.Msg{Kind: vx.MsgRecord, Rec: execution.Record{Values: []octosql.Value{octosql.NewTime(t), payload[i]}}})
	}
	if zzverif.ParamOr("SRCWM", 0) == 1 {
		// the source emits a watermark of its own (arbitrary instant) at an arbitrary position: the
		// generator replaces the source's watermarks by its own, so nothing of it may come out
		at := zzverif.Choice("srcwm.pos", n+1)
		wm, _ := ndUnixTime("srcwm")
		withWM := append([]vx.Msg{}, msgs[:at]...)
		withWM = append(withWM, vx.Msg{Kind: vx.MsgWatermark, Watermark: wm})
		msgs = append(withWM, msgs[at:]...)
	}
	var src execution.Node = vx.NewScriptSource(msgs)
	twice := zzverif.ParamOr("TWICE", 0) == 1
	if twice {
		// the SAME materialised node is run twice (as LookupJoin does with its joined side): first
		// over one record with a CONCRETE time in the middle of the range (a second symbolic time
		// makes the queries as hard as N=2), then over the script; the second run must behave like
		// a first one
		warm := time.Unix(1<<31, 0)
		src = &verifSeqSource{scripts: [][]vx.Msg{{{Kind: vx.MsgRecord, Rec: execution.Record{Values: []octosql.Value{octosql.NewTime(warm), octosql.NewInt(0)}}}}, msgs}}
	}
	node := &maxDifferenceWatermarkGenerator{
		source:         src,
		maxDifference:  execution.NewConstant(octosql.NewDuration(time.Duration(maxDiff))),
		resolution:     execution.NewConstant(octosql.NewDuration(res)),
		timeFieldIndex: 0,
	}
	if twice {
		zzverif.Assert(vx.RunNode(node, &vx.Sink{}) == nil, "warm-up-run-no-error")
	}
	sink := &vx.Sink{}
	err := vx.RunNode(node, sink)
	zzverif.Reach("ran")
	zzverif.Assert(err == nil, "no-error")
	// reference, on plain int64 nanoseconds
	pos := 0
	curWM := int64(0)
	haveWM := false
	maxRounded := int64(0)
	haveMax := false
	for i := 0; i < n; i++ {
		pass := zzverif.Or(!haveWM, nanos[i] > curWM)
		if pass { // forks: both cases are explored
			zzverif.Assert(pos < len(sink.Out) && sink.Out[pos].Kind == vx.MsgRecord, "record-passes-when-after-watermark")
			rec := sink.Out[pos].Rec
			pos++
			zzverif.Assert(rec.EventTime.UnixNano() == nanos[i], "event-time-set-to-time-field")
			zzverif.Assert(zzverif.And(rec.Values[0].Time.UnixNano() == nanos[i], zzverif.And(rec.Values[1].Int == payload[i].Int, !rec.Retraction)), "record-otherwise-unchanged")
		}
		rounded := nanos[i] / int64(res) * int64(res)
		if zzverif.Or(!haveMax, rounded > maxRounded) {
			maxRounded, haveMax = rounded, true
			curWM, haveWM = rounded-maxDiff, true
			zzverif.Assert(pos < len(sink.Out) && sink.Out[pos].Kind == vx.MsgWatermark, "watermark-emitted-on-new-maximum")
			zzverif.Assert(sink.Out[pos].Watermark.UnixNano() == curWM, "watermark-is-rounded-max-minus-max_diff")
			pos++
		}
	}
	zzverif.Assert(pos == len(sink.Out), "nothing-else-emitted")
}

var verifWindowLengths = []time.Duration{time.Millisecond, 250 * time.Millisecond, time.Second, time.Minute, time.Hour}

// VerifC21Tumble: window_start <= t < window_end, window_end - window_start = length,
// window_start - offset is a multiple of the length (lengths dividing 24h, for which alignment to
// Go's zero time and to the Unix epoch coincide), other fields and watermarks pass unchanged.
func VerifC21Tumble() {
	length := verifWindowLengths[zzverif.Param("LEN")]
	// offset: a concrete fraction of the window length (0, 1/4, 1/2, 3/4), chosen by forking
	offset := int64(length) / 4 * int64(zzverif.Choice("offset", 4))
	t, ns := ndUnixTime("t")
	p := zzverif.Int64("p")
	wm, wmns := ndUnixTime("wm")
	msgs := []vx.Msg{
		{Kind: vx.MsgRecord, Rec: execution.Record{Values: []octosql.Value{octosql.NewTime(t), octosql.NewInt(p)}, EventTime: t}},
		{Kind: vx.MsgWatermark, Watermark: wm},
	}
	node := &tumble{source: vx.NewScriptSource(msgs), timeFieldIndex: 0,
		windowLength: execution.NewConstant(octosql.NewDuration(length)), offset: execution.NewConstant(octosql.NewDuration(time.Duration(offset)))}
	sink := &vx.Sink{}
	err := vx.RunNode(node, sink)
	zzverif.Reach("ran")
	zzverif.Assert(err == nil, "no-error")
	zzverif.Assert(len(sink.Out) == 2 && sink.Out[0].Kind == vx.MsgRecord && sink.Out[1].Kind == vx.MsgWatermark, "one-record-one-watermark")
	rec := sink.Out[0].Rec
	zzverif.Assert(len(rec.Values) == 4, "two-fields-appended")
	start, end := rec.Values[2].Time.UnixNano(), rec.Values[3].Time.UnixNano()
	zzverif.Assert(zzverif.And(start <= ns, ns < end), "time-inside-window")
	zzverif.Assert(end-start == int64(length), "window-has-the-configured-length")
	// alignment, stated on the (seconds, nanoseconds) components so that the solver does not have
	// to reason about x*1e9 mod 1e9: for lengths that are multiples of 1 s the sub-second part of
	// window_start equals that of the offset and the seconds are a multiple of the length after
	// removing the offset; for lengths dividing 1 s only the sub-second part matters.
	ws := rec.Values[2].Time
	wsSec, wsNsec := ws.Unix(), int64(ws.Nanosecond())
	if zzverif.Param("ALIGN") == 0 {
		// alignment not asserted for this instance (solver cannot decide it; outside the claim)
	} else if length >= time.Second {
		zzverif.Assert(zzverif.And(wsNsec == offset%1000000000, (wsSec-offset/1000000000)%int64(length/time.Second) == 0), "window-start-aligned-to-offset")
	} else {
		zzverif.Assert((wsNsec-offset)%int64(length) == 0, "window-start-aligned-to-offset")
	}
	zzverif.Assert(zzverif.And(rec.Values[0].Time.UnixNano() == ns, zzverif.And(rec.Values[1].Int == p, !rec.Retraction)), "other-fields-unchanged")
	zzverif.Assert(sink.Out[1].Watermark.UnixNano() == wmns, "watermark-unchanged")
}

// VerifC21Range: range(start, end) emits each integer of [start, end) once, ascending
// (end - start <= R; also end <= start).
func VerifC21Range() {
	r := int64(zzverif.Param("R"))
	start, end := zzverif.Int64("start"), zzverif.Int64("end")
	zzverif.Assume(zzverif.And(start > -(1<<62), start < 1<<62))
	zzverif.Assume(zzverif.And(end-start <= r, end-start >= -r))
	node := &rangeNode{start: execution.NewConstant(octosql.NewInt(start)), end: execution.NewConstant(octosql.NewInt(end))}
	sink := &vx.Sink{}
	err := vx.RunNode(node, sink)
	zzverif.Reach("ran")
	zzverif.Assert(err == nil, "no-error")
	want := end - start
	if want < 0 {
		want = 0
	}
	zzverif.Assert(int64(len(sink.Out)) == want, "emits-end-minus-start-records")
	ok := true
	for i, m := range sink.Out {
		ok = zzverif.And(ok, zzverif.And(m.Kind == vx.MsgRecord, zzverif.And(len(m.Rec.Values) == 1, zzverif.And(m.Rec.Values[0].TypeID == octosql.TypeIDInt, zzverif.And(m.Rec.Values[0].Int == start+int64(i), !m.Rec.Retraction)))))
	}
	zzverif.Assert(ok, "each-integer-once-ascending")
}

// verifSeqSource plays its k-th script on its k-th Run.
type verifSeqSource struct {
	scripts [][]vx.Msg
	run     int
}

func (s *verifSeqSource) Run(ctx execution.ExecutionContext, produce execution.ProduceFn, metaSend execution.MetaSendFn) error {
	k := s.run
	s.run++
	if k >= len(s.scripts) {
		return nil
	}
	return vx.NewScriptSource(s.scripts[k]).Run(ctx, produce, metaSend)
}

// VerifC21RangeRerun: the SAME range node run twice with bounds that depend on the record in
// scope (start = 0, end = the outer record's column, as in `a LOOKUP JOIN range(start=>0, end=>a.i)`):
// each run emits the integers of ITS OWN interval.
func VerifC21RangeRerun() {
	r := int64(zzverif.Param("R"))
	node := &rangeNode{start: execution.NewConstant(octosql.NewInt(0)), end: execution.NewVariable(0, 0)}
	for k := 0; k < 2; k++ {
		end := zzverif.Int64(fmt.Sprintf("end%d", k))
		zzverif.Assume(zzverif.And(end >= 0, end <= r))
		sink := &vx.Sink{}
		ctx := vx.ExecCtx().WithRecord(execution.Record{Values: []octosql.Value{octosql.NewInt(end)}})
		err := node.Run(ctx, sink.Produce, sink.Meta)
		zzverif.Assert(err == nil, "no-error")
		zzverif.Assert(int64(len(sink.Out)) == end, "each-run-emits-its-own-interval")
	}
	zzverif.Reach("ran-twice")
}

type verifRoundsSource struct {
	rounds [][]execution.Record
	run    int
}

var errVerifStop = errors.New("verif: stop polling")

func (s *verifRoundsSource) Run(ctx execution.ExecutionContext, produce execution.ProduceFn, metaSend execution.MetaSendFn) error {
	r := s.run
	s.run++
	if r >= len(s.rounds) {
		return errVerifStop
	}
	for _, rec := range s.rounds[r] {
		vals := make([]octosql.Value, len(rec.Values))
		copy(vals, rec.Values)
		if err := produce(execution.ProduceFromExecutionContext(ctx), execution.NewRecord(vals, false, time.Time{})); err != nil {
			return err
		}
	}
	return nil
}

// VerifC21Poll: each poll round retracts exactly the previous snapshot (with the previous poll
// time), emits the current one stamped with the current time and then one watermark at that time.
// The source changes between rounds and fails in round K+1, which ends the loop.
func VerifC21Poll() {
	k, rows := zzverif.Param("K"), zzverif.Param("ROWS")
	src := &verifRoundsSource{}
	for r := 0; r < k; r++ {
		var recs []execution.Record
		for _, row := range vx.NDTable(fmt.Sprintf("round%d", r), rows, 1) {
			recs = append(recs, execution.Record{Values: row})
		}
		src.rounds = append(src.rounds, recs)
	}
	node := &poll{source: src, interval: execution.NewConstant(octosql.NewDuration(time.Second))}
	sink := &vx.Sink{}
	err := vx.RunNode(node, sink)
	zzverif.Reach("ran")
	zzverif.Assert(err != nil, "source-error-ends-the-loop-and-is-returned")
	pos := 0
	var prevNow time.Time
	ok := true
	for r := 0; r <= k; r++ {
		// retraction of the previous snapshot
		if r > 0 {
			for _, rec := range src.rounds[r-1] {
				if pos >= len(sink.Out) {
					ok = false
					break
				}
				m := sink.Out[pos]
				pos++
				ok = zzverif.And(ok, zzverif.And(m.Kind == vx.MsgRecord, zzverif.And(m.Rec.Retraction, zzverif.And(len(m.Rec.Values) == 2,
					zzverif.And(m.Rec.Values[0].Time.Equal(prevNow), zzverif.And(vx.CellEq(m.Rec.Values[1], rec.Values[0]), m.Rec.EventTime.Equal(prevNow)))))))
			}
		}
		if r == k {
			break
		}
		var now time.Time
		for i, rec := range src.rounds[r] {
			if pos >= len(sink.Out) {
				ok = false
				break
			}
			m := sink.Out[pos]
			pos++
			if i == 0 {
				now = m.Rec.EventTime
			}
			ok = zzverif.And(ok, zzverif.And(m.Kind == vx.MsgRecord, zzverif.And(!m.Rec.Retraction, zzverif.And(len(m.Rec.Values) == 2,
				zzverif.And(m.Rec.Values[0].Time.Equal(now), zzverif.And(vx.CellEq(m.Rec.Values[1], rec.Values[0]), m.Rec.EventTime.Equal(now)))))))
		}
		if pos >= len(sink.Out) {
			ok = false
			break
		}
		m := sink.Out[pos]
		pos++
		if len(src.rounds[r]) == 0 {
			now = m.Watermark
		}
		ok = zzverif.And(ok, zzverif.And(m.Kind == vx.MsgWatermark, m.Watermark.Equal(now)))
		prevNow = now
	}
	zzverif.Assert(ok, "rounds-retract-previous-emit-current-then-watermark")
	zzverif.Assert(pos == len(sink.Out), "nothing-else-emitted")
}
