package gosx

import (
	"fmt"
	"os"
	"sort"
	"strings"
	"sync"
	"sync/atomic"
	"time"

	"golang.org/x/tools/go/ssa"

	"verif/engine/solver"
	"verif/engine/term"
)

// WorkItem is a decision prefix to replay, with a model (by variable name) known to satisfy it.
type WorkItem struct {
	Origin string
	Prefix []int32
	Hs     []uint64 // structural hash of the condition / choice decided at each position
	Model  map[string]uint64
}

type Violation struct {
	Harness   string            `json:"harness"`
	Pkg       string            `json:"pkg"`
	Tag       string            `json:"tag"`
	Known     string            `json:"known,omitempty"`
	ND        map[string]uint64 `json:"nd"`
	Params    map[string]int    `json:"params"`
	Decisions int               `json:"decisions"`
	Detail    string            `json:"detail,omitempty"`
}

type Config struct {
	Workers       int
	SolverTimeout int // ms
	MaxSteps      int64
	MaxDecisions  int
	MaxPaths      int64
	WallBudget    time.Duration
	MaxViolPerTag int
	Seed          int64
	Trace         bool
	CrossCheckPct int
	Witnesses     int
}

type SiteStat struct {
	Reached int64 `json:"reached"`
	Proved  int64 `json:"proved"`
	Failed  int64 `json:"failed"`
	Inherited int64 `json:"inherited_from_ancestor_path"`
}

type PathSample struct {
	Outcome   string            `json:"outcome"`
	Decisions int               `json:"decisions"`
	PC        []string          `json:"path_condition"`
	Model     map[string]uint64 `json:"model,omitempty"`
}

// Result aggregates one harness exploration.
type Result struct {
	Harness       string
	Paths         int64
	Pruned        int64
	Decisions     int64
	SymbolicPaths int64
	Outcomes      map[string]int64
	Inconclusive  map[string]int64
	Sites         map[string]*SiteStat
	Violations    []*Violation
	Samples       []PathSample
	Solver        solver.Stats
	Steps         int64
	Exhaustive    bool
	Wall          time.Duration
	CrossChecked  int64
	CrossDisagree int64
	MaxPathDecisions int
	Witnesses     []map[string]uint64
}

type Explorer struct {
	P       *Program
	Cfg     Config
	Fn      *ssa.Function
	Params  map[string]int
	Harness string

	mu       sync.Mutex
	cond     *sync.Cond
	stack    []*WorkItem
	active   int
	stopped  bool
	res      *Result
	violTags map[string]int
	knownHit map[string]bool
	start    time.Time
	paths    atomic.Int64
}

type worker struct {
	ex    *Explorer
	id    int
	ctx   *term.Ctx
	sol   *solver.Solver
	nPath int
}

// Path is the per-path exploration state.
type Path struct {
	ex        *Explorer
	w         *worker
	prefix    []int32
	prefixHs  []uint64
	pos       int
	decisions []int32
	decHs     []uint64
	rep       map[*term.T]*term.T
	origin    string
	pc        []*term.T
	model     map[*term.T]uint64
	memo      map[*term.T]*term.T
	hasModel  bool
	pendingModel map[string]uint64
	nlt       map[[3]int]bool
	strLess   map[*term.T][2][]*term.T
	nStrLess  [][2][]*term.T
	vars      []*term.T
	choices   map[string]uint64
	regions   map[string]*term.T
	regionIDs []string
	inInit    int
	live      sync.WaitGroup
	exitAck   chan struct{}
	symbolic  bool
	unknownFeas bool
}

func NewExplorer(p *Program, fn *ssa.Function, params map[string]int, cfg Config) *Explorer {
	ex := &Explorer{P: p, Cfg: cfg, Fn: fn, Params: params, Harness: fn.Name()}
	ex.cond = sync.NewCond(&ex.mu)
	ex.violTags = map[string]int{}
	ex.knownHit = map[string]bool{}
	ex.res = &Result{Harness: fn.Name(), Outcomes: map[string]int64{}, Inconclusive: map[string]int64{}, Sites: map[string]*SiteStat{}}
	return ex
}

func (ex *Explorer) push(it *WorkItem) {
	ex.mu.Lock()
	ex.stack = append(ex.stack, it)
	ex.mu.Unlock()
	ex.cond.Signal()
}

func (ex *Explorer) pop() *WorkItem {
	ex.mu.Lock()
	defer ex.mu.Unlock()
	for {
		if ex.stopped {
			return nil
		}
		if n := len(ex.stack); n > 0 {
			it := ex.stack[n-1]
			ex.stack = ex.stack[:n-1]
			ex.active++
			return it
		}
		if ex.active == 0 {
			ex.cond.Broadcast()
			return nil
		}
		ex.cond.Wait()
	}
}

func (ex *Explorer) donePath() {
	ex.mu.Lock()
	ex.active--
	if ex.active == 0 && len(ex.stack) == 0 {
		ex.cond.Broadcast()
	}
	ex.mu.Unlock()
}

func (ex *Explorer) Run() *Result {
	ex.start = time.Now()
	ex.push(&WorkItem{})
	var wg sync.WaitGroup
	workers := make([]*worker, ex.Cfg.Workers)
	for i := 0; i < ex.Cfg.Workers; i++ {
		w := &worker{ex: ex, id: i}
		workers[i] = w
		wg.Add(1)
		go func() {
			defer wg.Done()
			w.loop()
		}()
	}
	wg.Wait()
	r := ex.res
	r.Wall = time.Since(ex.start)
	ex.mu.Lock()
	leftover := len(ex.stack)
	ex.mu.Unlock()
	inc := int64(0)
	for _, n := range r.Inconclusive {
		inc += n
	}
	r.Exhaustive = leftover == 0 && inc == 0 && !ex.stopped
	if leftover > 0 || ex.stopped {
		r.Inconclusive["budget: exploration stopped with work left"] += int64(leftover) + 1
	}
	return r
}

func (w *worker) reset() {
	if w.sol != nil {
		st := w.sol.Stats
		w.ex.mergeSolverStats(st)
		w.sol.Close()
	}
	w.ctx = term.NewCtx()
	w.sol = solver.New(w.ctx, w.ex.Cfg.SolverTimeout)
	w.nPath = 0
}

func (ex *Explorer) mergeSolverStats(st solver.Stats) {
	ex.mu.Lock()
	defer ex.mu.Unlock()
	s := &ex.res.Solver
	s.Queries += st.Queries
	s.Sat += st.Sat
	s.Unsat += st.Unsat
	s.Unknown += st.Unknown
	s.Errors += st.Errors
	s.Restarts += st.Restarts
	s.Time += st.Time
	if s.ByBackend == nil {
		s.ByBackend = map[string]int{}
	}
	for k, v := range st.ByBackend {
		s.ByBackend[k] += v
	}
}

func (w *worker) loop() {
	w.reset()
	defer func() {
		w.ex.mergeSolverStats(w.sol.Stats)
		w.sol.Close()
	}()
	for {
		it := w.ex.pop()
		if it == nil {
			return
		}
		if w.nPath >= 1500 || len(w.ctx.All) > 400000 {
			w.reset()
		}
		w.nPath++
		w.runPath(it)
		w.ex.donePath()
		n := w.ex.paths.Add(1)
		if (w.ex.Cfg.MaxPaths > 0 && n >= w.ex.Cfg.MaxPaths) || (w.ex.Cfg.WallBudget > 0 && time.Since(w.ex.start) > w.ex.Cfg.WallBudget) {
			w.ex.mu.Lock()
			w.ex.stopped = true
			w.ex.mu.Unlock()
			w.ex.cond.Broadcast()
		}
	}
}

func (w *worker) runPath(it *WorkItem) {
	ex := w.ex
	x := &Path{ex: ex, w: w, origin: it.Origin, prefix: it.Prefix, prefixHs: it.Hs, rep: map[*term.T]*term.T{}, choices: map[string]uint64{}, regions: map[string]*term.T{}, exitAck: make(chan struct{}, 128)}
	m := &Machine{P: ex.P, C: w.ctx, X: x, globals: map[*ssa.Global]*Value{}, initDone: map[*ssa.Package]bool{},
		maxSteps: ex.Cfg.MaxSteps, ndCount: map[string]int{}, Params: ex.Params, natives: map[string]interface{}{}, trace: ex.Cfg.Trace}
	g0 := &goroutine{id: 0, wake: make(chan struct{}, 1), started: true}
	m.gs = []*goroutine{g0}
	m.cur = g0
	if it.Model != nil {
		x.model = map[*term.T]uint64{}
		x.pendingModel = it.Model
		x.hasModel = true
	} else if len(it.Prefix) == 0 {
		x.model = map[*term.T]uint64{}
		x.hasModel = true
	}
	x.memo = map[*term.T]*term.T{}
	w.ctx.Rep = x.rep
	w.ctx.Ranges = map[*term.T][2]int64{}
	defer func() { w.ctx.Rep = nil; w.ctx.Ranges = nil }()
	outcome := "ok"
	detail := ""
	func() {
		defer func() {
			r := recover()
			if cp, ok := r.(crashPanic); ok {
				r = cp.inner
			}
			switch r := r.(type) {
			case nil:
			case pathEnd:
				outcome = "pruned"
				detail = r.reason
			case abortPanic:
				outcome = "inconclusive"
				detail = r.reason
				if strings.HasPrefix(r.reason, "deadlock:") {
					// every goroutine of the code under test is blocked for good: the call never
					// returns. Reported as a violation (tag "hang") and, like every violation,
					// only believed once the native replay hangs too.
					outcome = "hang"
				}
			case targetPanic:
				outcome = "panic"
				detail = m.panicString(r.v)
			case killedPanic:
				outcome = "inconclusive"
				detail = "killed"
			default:
				outcome = "inconclusive"
				detail = fmt.Sprintf("engine error: %v", r)
				if ex.Cfg.Trace {
					panic(r)
				}
			}
		}()
		m.ensureInit(ex.Fn.Pkg)
		m.callSSA(nil, ex.Fn, nil, nil)
	}()
	if outcome == "panic" || outcome == "hang" {
		// An unrecovered panic (a call that never returns) is a failed implicit assertion.
		func() {
			defer func() {
				if r := recover(); r != nil {
					if ab, ok := r.(abortPanic); ok {
						outcome, detail = "inconclusive", ab.reason
					}
				}
			}()
			x.assertCore(m, m.C.False, outcome, detail)
		}()
	}
	m.teardown()
	ex.record(x, m, outcome, detail)
}

func (m *Machine) panicString(v Value) string {
	if iv, ok := v.(Iface); ok {
		if s, ok := iv.V.(Str); ok && s.B == nil {
			return s.S
		}
		if iv.T != nil {
			if n, ok := iv.V.(*Native); ok {
				if e, ok := n.Obj.(*fmtError); ok {
					return e.msg
				}
			}
			return "panic value of type " + iv.T.String()
		}
	}
	if s, ok := v.(Str); ok && s.B == nil {
		return s.S
	}
	return fmt.Sprintf("%T", v)
}

func (ex *Explorer) record(x *Path, m *Machine, outcome, detail string) {
	ex.mu.Lock()
	defer ex.mu.Unlock()
	r := ex.res
	r.Steps += m.steps
	if outcome == "pruned" {
		r.Pruned++
		return
	}
	r.Paths++
	r.Decisions += int64(len(x.decisions))
	if len(x.decisions) > r.MaxPathDecisions {
		r.MaxPathDecisions = len(x.decisions)
	}
	if len(x.pc) > 0 {
		r.SymbolicPaths++
	}
	r.Outcomes[outcome]++
	if outcome == "inconclusive" {
		r.Inconclusive[detail]++
	}
	if x.unknownFeas {
		r.Inconclusive["solver returned unknown for a feasibility query (path kept)"] += 0
	}
	if outcome == "ok" && x.hasModel && len(x.pc) > 0 && ex.Cfg.Witnesses > 0 && r.Paths&(r.Paths-1) == 0 {
		w := x.namedModel()
		if len(r.Witnesses) < ex.Cfg.Witnesses {
			r.Witnesses = append(r.Witnesses, w)
		} else {
			r.Witnesses[int(r.Paths)%len(r.Witnesses)] = w
		}
	}
	if len(r.Samples) < 6 && (len(x.pc) > 0 || len(r.Samples) == 0) {
		s := PathSample{Outcome: outcome, Decisions: len(x.decisions)}
		for i, c := range x.pc {
			if i >= 6 {
				s.PC = append(s.PC, "…")
				break
			}
			s.PC = append(s.PC, term.String(c, 4))
		}
		if x.hasModel {
			s.Model = x.namedModel()
		}
		r.Samples = append(r.Samples, s)
	}
}

func (x *Path) namedModel() map[string]uint64 {
	out := map[string]uint64{}
	for _, v := range x.vars {
		out[v.Name] = x.model[v]
	}
	for k, v := range x.choices {
		out[k] = v
	}
	return out
}

// ---------- decisions ----------

// learn records facts implied by a path-condition literal as rewrite rules (term.Ctx.Rep):
// a Boolean literal becomes the constant it is known to be, an equality a=b maps the
// structurally larger side to the smaller one. Representatives are chosen by a
// construction-order-independent order so that re-execution on another worker folds the same
// conditions.
func (x *Path) learn(m *Machine, c *term.T, val bool) {
	if c.IsConst() {
		return
	}
	C := m.C
	if c.Op == term.OpNot {
		x.learn(m, c.Args[0], !val)
		return
	}
	x.rep[c] = C.Bool(val)
	// bounds against constants
	if (c.Op == term.OpSlt || c.Op == term.OpSle) && (c.Args[0].IsConst() != c.Args[1].IsConst()) {
		const minI, maxI = -1 << 63, 1<<63 - 1
		a, b := c.Args[0], c.Args[1]
		strict := c.Op == term.OpSlt
		if b.IsConst() { // a < k / a <= k
			k := b.Int()
			if val {
				if strict && k > minI {
					C.NoteRange(a, minI, k-1)
				} else if !strict {
					C.NoteRange(a, minI, k)
				}
			} else {
				if strict {
					C.NoteRange(a, k, maxI)
				} else if k < maxI {
					C.NoteRange(a, k+1, maxI)
				}
			}
		} else { // k < b / k <= b
			k := a.Int()
			if val {
				if strict && k < maxI {
					C.NoteRange(b, k+1, maxI)
				} else if !strict {
					C.NoteRange(b, k, maxI)
				}
			} else {
				if strict {
					C.NoteRange(b, minI, k)
				} else if k > minI {
					C.NoteRange(b, minI, k-1)
				}
			}
		}
	}
	switch {
	case c.Op == term.OpAnd && val:
		x.learn(m, c.Args[0], true)
		x.learn(m, c.Args[1], true)
	case c.Op == term.OpOr && !val:
		x.learn(m, c.Args[0], false)
		x.learn(m, c.Args[1], false)
	case c.Op == term.OpEq && val && c.Args[0].W > 0:
		a, b := C.Canon(c.Args[0]), C.Canon(c.Args[1])
		if a == b {
			return
		}
		if term.Less(b, a) {
			a, b = b, a
		}
		// a is the representative
		if b.IsConst() {
			return // two different constants: infeasible path, nothing to learn
		}
		x.rep[b] = a
	}
}

// addPC appends a literal to the path condition and saturates it with implied equalities:
// ¬(a<b) ∧ ¬(b<a) ⇒ a=b (bit-vector orders are total). Solvers do not derive this before
// bit-blasting multiplications that depend on a and b, so the engine states it.
var debugInvariant = os.Getenv("VCHECK_INVARIANT") != ""

func (x *Path) checkInvariant(m *Machine, where string) {
	if !debugInvariant || !x.hasModel || x.pos < len(x.prefix) {
		return
	}
	memo := map[*term.T]*term.T{}
	for i, c := range x.pc {
		if v, ok := m.C.Eval(c, x.model, memo); ok && v == 0 {
			fmt.Fprintf(os.Stderr, "INVARIANT BROKEN at %s: literal %d/%d %s; pos=%d prefix=%d pending=%v\n", where, i, len(x.pc), term.String(c, 5), x.pos, len(x.prefix), x.pendingModel != nil)
			fmt.Fprintf(os.Stderr, "  model=%v\n  pending=%v\n  decisions=%v origin=%s\n", x.namedModel(), x.pendingModel, x.decisions, x.origin)
			debugInvariant = false
			return
		}
	}
}

func (x *Path) addPC(m *Machine, c *term.T) {
	defer x.checkInvariant(m, "addPC")
	x.pc = append(x.pc, c)
	x.learn(m, c, true)
	if c.Op == term.OpNot {
		in := c.Args[0]
		if pair, ok := x.strLess[in]; ok {
			// ¬(a<b) recorded; with ¬(b<a) the strings are equal (same length) byte for byte
			for _, q := range x.nStrLess {
				if sameTerms(q[0], pair[1]) && sameTerms(q[1], pair[0]) && len(pair[0]) == len(pair[1]) {
					for i := range pair[0] {
						e := m.C.Eq(pair[0][i], pair[1][i])
						if !e.IsConst() {
							x.pc = append(x.pc, e)
							x.learn(m, e, true)
						}
					}
				}
			}
			x.nStrLess = append(x.nStrLess, pair)
		}
		if in.Op == term.OpSlt || in.Op == term.OpUlt {
			if x.nlt == nil {
				x.nlt = map[[3]int]bool{}
			}
			a, b := in.Args[0], in.Args[1]
			x.nlt[[3]int{int(in.Op), a.ID, b.ID}] = true
			if x.nlt[[3]int{int(in.Op), b.ID, a.ID}] {
				e := m.C.Eq(a, b)
				x.pc = append(x.pc, e)
				x.learn(m, e, true)
			}
		}
	}
}

func (x *Path) lit(m *Machine, c *term.T, side bool) *term.T {
	if side {
		return c
	}
	return m.C.Not(c)
}

func (x *Path) eval(m *Machine, c *term.T) (bool, bool) {
	if !x.hasModel {
		return false, false
	}
	x.loadPending(m)
	v, ok := m.C.Eval(c, x.model, x.memo)
	return v != 0, ok
}

// loadPending: by-name models are loaded variable by variable in ND(); nothing to do here.
func (x *Path) loadPending(m *Machine) {}

func (x *Path) setModel(m *Machine, mod map[*term.T]uint64) {
	x.model = mod
	x.memo = map[*term.T]*term.T{}
	x.hasModel = true
	x.pendingModel = nil
}

func (x *Path) check(m *Machine, extra ...*term.T) solver.Result {
	as := make([]*term.T, 0, len(x.pc)+len(extra))
	as = append(as, x.pc...)
	as = append(as, extra...)
	r := x.w.sol.Check(as)
	if pct := x.ex.Cfg.CrossCheckPct; pct > 0 && r != solver.Unknown && (x.w.sol.Stats.Queries%100) < pct {
		agree, _ := x.w.sol.CrossCheck(as, r)
		atomic.AddInt64(&x.ex.res.CrossChecked, 1)
		if !agree {
			atomic.AddInt64(&x.ex.res.CrossDisagree, 1)
			return solver.Unknown
		}
	}
	return r
}

// getModel fetches the model of the last sat answer and re-validates it inside the engine
// against the path condition (extra = the literals of the query beyond the path condition).
func (x *Path) getModel(m *Machine, extra ...*term.T) (map[*term.T]uint64, bool) {
	mod, ok := x.w.sol.Model(x.vars)
	if !ok {
		return nil, false
	}
	memo := map[*term.T]*term.T{}
	for _, lits := range [][]*term.T{x.pc, extra} {
		for _, c := range lits {
			if v, ok := m.C.Eval(c, mod, memo); ok && v == 0 {
				x.ex.noteInconclusive("solver model failed in-engine validation (discarded)")
				return nil, false
			}
		}
	}
	return mod, true
}

func (x *Path) namedOf(mod map[*term.T]uint64) map[string]uint64 {
	out := make(map[string]uint64, len(mod))
	for v, val := range mod {
		out[v.Name] = val
	}
	return out
}

func (x *Path) newItem(d int32, h uint64, model map[string]uint64) *WorkItem {
	p := make([]int32, len(x.decisions)+1)
	copy(p, x.decisions)
	p[len(x.decisions)] = d
	hs := make([]uint64, len(x.decHs)+1)
	copy(hs, x.decHs)
	hs[len(x.decHs)] = h
	return &WorkItem{Prefix: p, Hs: hs, Model: model}
}

func b2i(b bool) int32 {
	if b {
		return 1
	}
	return 0
}

// Decide resolves a branch on a symbolic condition.
func (m *Machine) Decide(c *term.T) bool {
	if c.IsConst() {
		return c.Val != 0
	}
	x := m.X
	if x.inInit > 0 {
		m.abort("symbolic branch inside package initialisation")
	}
	if x.pos < len(x.prefix) {
		d := x.prefix[x.pos] != 0
		if x.prefixHs[x.pos] != c.H {
			m.abort("replay divergence: re-execution reached a different branch condition")
		}
		x.pos++
		x.decisions = append(x.decisions, b2i(d))
		x.decHs = append(x.decHs, c.H)
		x.addPC(m, x.lit(m, c, d))
		return d
	}
	if len(x.decisions) >= x.ex.Cfg.MaxDecisions {
		m.abort("decision budget exceeded")
	}
	x.pos++
	take := false
	if side, ok := x.eval(m, c); ok {
		// the current model witnesses `side`; ask the solver about the other one
		other := !side
		switch x.check(m, x.lit(m, c, other)) {
		case solver.Sat:
			if mod, ok := x.getModel(m, x.lit(m, c, other)); ok {
				it := x.newItem(b2i(other), c.H, x.namedOf(mod))
				it.Origin = "decide-with-model"
				x.ex.push(it)
			} else {
				x.ex.push(x.newItem(b2i(other), c.H, nil))
			}
		case solver.Unknown:
			x.ex.push(x.newItem(b2i(other), c.H, nil))
			x.noteUnknown()
		}
		take = side
	} else {
		rT := x.check(m, c)
		var modT map[*term.T]uint64
		if rT == solver.Sat {
			modT, _ = x.getModel(m, c)
		}
		rF := x.check(m, m.C.Not(c))
		var modF map[*term.T]uint64
		if rF == solver.Sat {
			modF, _ = x.getModel(m, m.C.Not(c))
		}
		if rT == solver.Unknown || rF == solver.Unknown {
			x.noteUnknown()
		}
		switch {
		case rT != solver.Unsat && rF != solver.Unsat:
			var nm map[string]uint64
			if modF != nil {
				nm = x.namedOf(modF)
			}
			it := x.newItem(0, c.H, nm)
			it.Origin = "decide-no-model"
			x.ex.push(it)
			take = true
			if modT != nil {
				x.setModel(m, modT)
			} else {
				x.hasModel = false
			}
		case rT != solver.Unsat:
			take = true
			if modT != nil {
				x.setModel(m, modT)
			}
		case rF != solver.Unsat:
			take = false
			if modF != nil {
				x.setModel(m, modF)
			}
		default:
			panic(pathEnd{"infeasible path condition"})
		}
	}
	x.decisions = append(x.decisions, b2i(take))
	x.decHs = append(x.decHs, c.H)
	x.addPC(m, x.lit(m, c, take))
	return take
}

func (x *Path) noteUnknown() {
	x.unknownFeas = true
	x.ex.mu.Lock()
	x.ex.res.Inconclusive["solver unknown on a feasibility query"]++
	x.ex.mu.Unlock()
}

// Choose enumerates a non-solver choice (ndChoice, select readiness) by forking.
func (m *Machine) Choose(name string, n int) int {
	x := m.X
	if n <= 1 {
		return 0
	}
	occ := m.ndCount["choice:"+name]
	m.ndCount["choice:"+name] = occ + 1
	key := fmt.Sprintf("%s#%d", name, occ)
	var v int32
	nameH := uint64(len(name)) + 7
	for i := 0; i < len(name); i++ {
		nameH = nameH*1099511628211 ^ uint64(name[i])
	}
	nameH ^= uint64(n) << 48
	if x.pos < len(x.prefix) {
		v = x.prefix[x.pos]
		if x.prefixHs[x.pos] != nameH {
			m.abort("replay divergence: re-execution reached a different choice point")
		}
		x.pos++
	} else {
		if len(x.decisions) >= x.ex.Cfg.MaxDecisions {
			m.abort("decision budget exceeded")
		}
		x.pos++
		var named map[string]uint64
		if x.hasModel {
			x.loadPending(m)
			named = x.namedOf(x.model)
		}
		for k := n - 1; k >= 1; k-- {
			it := x.newItem(int32(k), nameH, named)
			it.Origin = "choose"
			x.ex.push(it)
		}
		v = 0
	}
	x.decisions = append(x.decisions, v)
	x.decHs = append(x.decHs, nameH)
	x.choices[key] = uint64(v)
	return int(v)
}

// ND creates (or re-creates, deterministically) a fresh symbolic variable.
func (m *Machine) ND(name string, w int) *term.T {
	name = strings.Map(func(r rune) rune {
		if r == '|' || r == '\\' || r == ' ' {
			return '_'
		}
		return r
	}, name)
	occ := m.ndCount[name]
	m.ndCount[name] = occ + 1
	v := m.C.Var(fmt.Sprintf("%s#%d", name, occ), w)
	m.X.vars = append(m.X.vars, v)
	m.X.symbolic = true
	if m.X.pendingModel != nil {
		if val, ok := m.X.pendingModel[v.Name]; ok {
			m.X.model[v] = val
		}
	}
	return v
}

// Assume adds c to the path condition; the path ends when c is infeasible.
func (m *Machine) Assume(c *term.T) {
	x := m.X
	if c.IsConst() {
		if c.Val == 0 {
			panic(pathEnd{"assumption false"})
		}
		return
	}
	if x.pos < len(x.prefix) {
		// Replaying a prefix: this assumption was already part of the ancestor's path condition
		// (whose feasibility was established when the fork was created).
		x.addPC(m, c)
		return
	}
	if v, ok := x.eval(m, c); ok && v {
		x.addPC(m, c)
		return
	}
	if debugInvariant && x.pos < len(x.prefix) && x.hasModel {
		v, ok := x.eval(m, c)
		fmt.Fprintf(os.Stderr, "ASSUME-IN-REPLAY not satisfied: v=%v ok=%v cond=%s pos=%d/%d model=%v pending=%v\n", v, ok, term.String(c, 4), x.pos, len(x.prefix), x.namedModel(), x.pendingModel)
	}
	switch x.check(m, c) {
	case solver.Unsat:
		panic(pathEnd{"assumption infeasible"})
	case solver.Sat:
		if mod, ok := x.getModel(m, c); ok {
			x.addPC(m, c)
			x.setModel(m, mod)
			return
		}
		x.addPC(m, c)
		x.hasModel = false
	default:
		x.addPC(m, c)
		x.hasModel = false
		x.noteUnknown()
	}
}

func (ex *Explorer) site(tag string) *SiteStat {
	s := ex.res.Sites[tag]
	if s == nil {
		s = &SiteStat{}
		ex.res.Sites[tag] = s
	}
	return s
}

func (m *Machine) Reach(tag string) {
	ex := m.X.ex
	ex.mu.Lock()
	ex.site("reach:" + tag).Reached++
	ex.mu.Unlock()
}

func (m *Machine) Known(id string, in *term.T) {
	x := m.X
	if old, ok := x.regions[id]; ok {
		x.regions[id] = m.C.Or(old, in)
	} else {
		x.regions[id] = in
		x.regionIDs = append(x.regionIDs, id)
		sort.Strings(x.regionIDs)
	}
}

// Assert checks c on the current path: any model of PC ∧ ¬c outside the known-finding regions is
// a new violation; inside a region it is reported as that known finding. Afterwards c is assumed.
func (m *Machine) Assert(c *term.T, tag string) {
	m.X.assertCore(m, c, tag, "")
	m.Assume(c)
}

func (x *Path) assertCore(m *Machine, c *term.T, tag, detail string) {
	ex := x.ex
	C := m.C
	ex.mu.Lock()
	st := ex.site("assert:" + tag)
	st.Reached++
	ex.mu.Unlock()
	if x.pos < len(x.prefix) {
		// Replaying a prefix: the ancestor path checked this assertion under the same path condition.
		ex.mu.Lock()
		st.Inherited++
		ex.mu.Unlock()
		return
	}
	notc := C.Not(c)
	if notc.IsConst() && notc.Val == 0 {
		ex.mu.Lock()
		st.Proved++
		ex.mu.Unlock()
		return
	}
	anyRegion := C.False
	for _, id := range x.regionIDs {
		anyRegion = C.Or(anyRegion, x.regions[id])
	}
	failed := false
	// A: new violation?
	condA := C.And(notc, C.Not(anyRegion))
	if !(condA.IsConst() && condA.Val == 0) {
		var cex map[string]uint64
		found := false
		if v, ok := x.eval(m, condA); ok && v {
			found = true
			x.loadPending(m)
			cex = x.namedModel()
		} else {
			switch x.check(m, condA) {
			case solver.Sat:
				found = true
				if mod, ok := x.getModel(m, condA); ok {
					cex = x.namedOf(mod)
					for k, v := range x.choices {
						cex[k] = v
					}
				} else {
					found = false
					ex.noteInconclusive("model extraction failed for a sat assertion query")
				}
			case solver.Unknown:
				ex.noteInconclusive("solver unknown on assertion " + tag)
				if os.Getenv("VCHECK_DEBUG") != "" {
					fmt.Fprintf(os.Stderr, "UNKNOWN assertion %s choices=%v\n", tag, x.choices)
					for _, l := range x.pc {
						fmt.Fprintf(os.Stderr, "   pc: %s\n", term.String(l, 8))
					}
					fmt.Fprintf(os.Stderr, "   goal: %s\n", term.String(condA, 12))
				}
			}
		}
		if found {
			failed = true
			ex.addViolation(x, m, tag, "", cex, detail)
		}
	}
	// B: known findings still present?
	for _, id := range x.regionIDs {
		reg := x.regions[id]
		condB := C.And(notc, reg)
		if condB.IsConst() && condB.Val == 0 {
			continue
		}
		ex.mu.Lock()
		enough := ex.violTags[tag+"|"+id] >= ex.Cfg.MaxViolPerTag
		ex.mu.Unlock()
		if enough {
			continue
		}
		if x.check(m, condB) == solver.Sat {
			if mod, ok := x.getModel(m, condB); ok {
				cex := x.namedOf(mod)
				for k, v := range x.choices {
					cex[k] = v
				}
				ex.addViolation(x, m, tag, id, cex, detail)
			}
		}
	}
	ex.mu.Lock()
	if failed {
		st.Failed++
	} else {
		st.Proved++
	}
	ex.mu.Unlock()
}

func (ex *Explorer) noteInconclusive(why string) {
	ex.mu.Lock()
	ex.res.Inconclusive[why]++
	ex.mu.Unlock()
}

func (ex *Explorer) addViolation(x *Path, m *Machine, tag, known string, nd map[string]uint64, detail string) {
	// re-validate the model against the path condition inside the engine
	{
		mod := map[*term.T]uint64{}
		for _, v := range x.vars {
			mod[v] = nd[v.Name]
		}
		memo := map[*term.T]*term.T{}
		for i, c := range x.pc {
			if v, ok := m.C.Eval(c, mod, memo); ok && v == 0 {
				detail += fmt.Sprintf(" [engine: model violates path-condition literal %d: %s]", i, term.String(c, 6))
				break
			}
		}
	}
	ex.mu.Lock()
	defer ex.mu.Unlock()
	key := tag + "|" + known
	if ex.violTags[key] >= ex.Cfg.MaxViolPerTag {
		ex.violTags[key]++
		return
	}
	ex.violTags[key]++
	pkg := ""
	if ex.Fn.Pkg != nil {
		pkg = ex.Fn.Pkg.Pkg.Path()
	}
	ex.res.Violations = append(ex.res.Violations, &Violation{Harness: ex.Harness, Pkg: pkg, Tag: tag, Known: known, ND: nd,
		Params: ex.Params, Decisions: len(x.decisions), Detail: detail})
}

func sameTerms(a, b []*term.T) bool {
	if len(a) != len(b) {
		return false
	}
	for i := range a {
		if a[i] != b[i] {
			return false
		}
	}
	return true
}
