package gosx

import (
	"fmt"
	"os"
	"go/constant"
	"go/token"
	"go/types"
	"strings"
	"sync"

	"golang.org/x/tools/go/ssa"

	"verif/engine/term"
)

// Program is the immutable, shared part: SSA, sizes, intrinsic table and caches.
type Program struct {
	Prog       *ssa.Program
	Sizes      types.Sizes
	RepoModule string

	mu         sync.Mutex
	intrCache  map[*ssa.Function]Intrinsic
	intrKnown  map[*ssa.Function]bool
	FuncsSeen  sync.Map // *ssa.Function -> true (functions actually executed)
	rtErrStr   types.Type
	implCache  sync.Map
	InterpDeny func(pkgPath string) bool
}

type targetPanic struct{ v Value }
type abortPanic struct{ reason string }
type killedPanic struct{}
type pathEnd struct{ reason string }

type deferred struct {
	fn   Value
	args []Value
}

type frame struct {
	m         *Machine
	g         *goroutine
	caller    *frame
	fn        *ssa.Function
	block     *ssa.BasicBlock
	prev      *ssa.BasicBlock
	env       map[ssa.Value]Value
	defers    []*deferred
	result    Value
	panicking bool
	panicVal  interface{}
	depth     int
	curInstr  ssa.Instruction
}

// Machine is the per-path interpreter state.
type Machine struct {
	P        *Program
	C        *term.Ctx
	X        *Path
	globals  map[*ssa.Global]*Value
	initDone map[*ssa.Package]bool
	steps    int64
	maxSteps int64
	gs       []*goroutine
	cur      *goroutine
	dead     bool
	crash    interface{}
	ndCount  map[string]int
	Params   map[string]int
	natives  map[string]interface{}
	trace    bool
	curFrame *frame
	fixedSchedule bool
}

func (m *Machine) abort(reason string) {
	panic(abortPanic{reason})
}

// throw raises a Go runtime panic in the target program.
func (m *Machine) throw(msg string) {
	msg = strings.TrimPrefix(msg, "runtime error: ")
	if debugThrow {
		msg += " @ " + m.stackString()
	}
	var v Value
	if m.P.rtErrStr != nil {
		v = Iface{T: m.P.rtErrStr, V: Str{S: msg}}
	} else {
		v = Iface{T: types.Typ[types.String], V: Str{S: "runtime error: " + msg}}
	}
	panic(targetPanic{v})
}

func (m *Machine) constValue(c *ssa.Const) Value {
	t := c.Type()
	if c.Value == nil {
		return m.zero(t)
	}
	if b, ok := t.Underlying().(*types.Basic); ok {
		switch {
		case b.Info()&types.IsBoolean != 0:
			return m.C.Bool(constant.BoolVal(c.Value))
		case b.Info()&types.IsString != 0:
			return Str{S: constant.StringVal(c.Value)}
		case b.Info()&types.IsInteger != 0:
			w, _, _ := widthOfBasic(b)
			if v, ok := constant.Int64Val(c.Value); ok {
				return m.C.Const(w, uint64(v))
			}
			if v, ok := constant.Uint64Val(c.Value); ok {
				return m.C.Const(w, v)
			}
			// float constant converted to int
			if v, ok := constant.Int64Val(constant.ToInt(c.Value)); ok {
				return m.C.Const(w, uint64(v))
			}
		case b.Info()&types.IsFloat != 0:
			f, _ := constant.Float64Val(c.Value)
			if b.Kind() == types.Float32 {
				return m.C.Const(32, uint64(f32bits(float32(f))))
			}
			return m.C.Const(64, f64bits(f))
		}
	}
	if _, ok := t.Underlying().(*types.Interface); ok {
		return Iface{}
	}
	m.abort(fmt.Sprintf("constValue: unsupported constant %v : %s", c.Value, t))
	return nil
}

func (fr *frame) get(v ssa.Value) Value {
	switch v := v.(type) {
	case nil:
		return nil
	case *ssa.Const:
		return fr.m.constValue(v)
	case *ssa.Function:
		return v
	case *ssa.Builtin:
		return v
	case *ssa.Global:
		return fr.m.global(v)
	}
	if r, ok := fr.env[v]; ok {
		return r
	}
	fr.m.abort(fmt.Sprintf("get: no value for %T %s in %s", v, v.Name(), fr.fn))
	return nil
}

// global returns the address of a package-level variable, running the package initialiser
// first (lazily, once per path).
func (m *Machine) global(g *ssa.Global) *Value {
	if p, ok := m.globals[g]; ok {
		return p
	}
	pkg := g.Pkg
	m.ensureInit(pkg)
	if p, ok := m.globals[g]; ok {
		return p
	}
	cell := new(Value)
	*cell = m.zero(deref(g.Type()))
	m.nonNilDeniedGlobal(g, cell)
	m.globals[g] = cell
	return cell
}

// nonNilDeniedGlobal: package-level variables of denied packages are never initialised (their
// initialisers do not run). A few of them are compared with nil or passed on as "a working
// object" by the code under test; they get an opaque non-nil value (any use of it still ends the
// path as unsupported).
func (m *Machine) nonNilDeniedGlobal(g *ssa.Global, cell *Value) {
	if g.Pkg == nil || g.Pkg.Pkg == nil {
		return
	}
	if g.Pkg.Pkg.Path() == "crypto/rand" && g.Name() == "Reader" {
		*cell = Iface{T: g.Type(), V: &Native{Obj: "crypto/rand.Reader"}}
	}
}

func deref(t types.Type) types.Type {
	if p, ok := t.Underlying().(*types.Pointer); ok {
		return p.Elem()
	}
	panic("deref of non-pointer " + t.String())
}

func (m *Machine) ensureInit(pkg *ssa.Package) {
	if pkg == nil || m.initDone[pkg] {
		return
	}
	m.initDone[pkg] = true
	for _, mem := range pkg.Members {
		if g, ok := mem.(*ssa.Global); ok {
			if _, ok := m.globals[g]; !ok {
				cell := new(Value)
				*cell = m.zero(deref(g.Type()))
				m.nonNilDeniedGlobal(g, cell)
				m.globals[g] = cell
			}
		}
	}
	path := pkg.Pkg.Path()
	if m.P.InterpDeny != nil && m.P.InterpDeny(path) {
		return
	}
	if initFn := pkg.Func("init"); initFn != nil && len(initFn.Blocks) > 0 {
		saved := m.X.inInit
		m.X.inInit++
		m.callSSA(nil, initFn, nil, nil)
		m.X.inInit = saved
	}
}

func (m *Machine) call(caller *frame, fn Value, args []Value) Value {
	switch fn := fn.(type) {
	case *ssa.Function:
		if fn == nil {
			m.throw("invalid memory address or nil pointer dereference (call of nil func)")
		}
		return m.callSSA(caller, fn, args, nil)
	case *Closure:
		if fn == nil {
			m.throw("invalid memory address or nil pointer dereference (call of nil func)")
		}
		return m.callSSA(caller, fn.Fn, args, fn.Env)
	case *ssa.Builtin:
		return m.callBuiltin(caller, fn, args)
	case *Native:
		if f, ok := fn.Obj.(func(m *Machine, caller *frame, args []Value) Value); ok {
			return f(m, caller, args)
		}
	}
	m.abort(fmt.Sprintf("call of %T", fn))
	return nil
}

var debugThrow = os.Getenv("VCHECK_DEBUG") != ""

func (m *Machine) stackString() string {
	var sb strings.Builder
	n := 0
	for fr := m.curFrame; fr != nil && n < 8; fr = fr.caller {
		pos := ""
		if fr.curInstr != nil {
			pos = m.pos(fr.curInstr.Pos())
		}
		fmt.Fprintf(&sb, "%s (%s) <- ", fr.fn.String(), pos)
		n++
	}
	return sb.String()
}

const maxDepth = 400

// allowFuncs lists trivially interpretable functions of otherwise denied packages.
var allowFuncs = map[string]bool{
	"(*fmt.wrapError).Error": true, "(*fmt.wrapError).Unwrap": true, "(*fmt.wrapErrors).Error": true, "(*fmt.wrapErrors).Unwrap": true,
	"(runtime.errorString).Error": true, "context.Background": true, "context.TODO": true,
	"(context.backgroundCtx).String": true, "(context.emptyCtx).Done": true, "(context.emptyCtx).Err": true,
	"(context.emptyCtx).Deadline": true, "(context.emptyCtx).Value": true,
	"(context.backgroundCtx).Done": true, "(context.backgroundCtx).Err": true, "(context.backgroundCtx).Deadline": true, "(context.backgroundCtx).Value": true,
	"(*runtime.TypeAssertionError).Error": true,
}

func (m *Machine) callSSA(caller *frame, fn *ssa.Function, args []Value, env []Value) Value {
	if in := m.P.intrinsicFor(fn); in != nil {
		return in(m, caller, fn, args)
	}
	return m.runBody(caller, fn, args, env)
}

func (m *Machine) zeroResults(fn *ssa.Function) Value {
	res := fn.Signature.Results()
	switch res.Len() {
	case 0:
		return nil
	case 1:
		return m.zero(res.At(0).Type())
	}
	t := make(Tuple, res.Len())
	for i := range t {
		t[i] = m.zero(res.At(i).Type())
	}
	return t
}

// runBody interprets the SSA body of fn (no intrinsic lookup).
func (m *Machine) runBody(caller *frame, fn *ssa.Function, args []Value, env []Value) Value {
	if fn.Blocks == nil {
		if m.X.inInit > 0 {
			return m.zeroResults(fn)
		}
		m.abort("unsupported: no body for " + fn.String())
	}
	if caller != nil && fn.Pkg != nil && fn.Name() == "init" && fn.Parent() == nil && fn.Signature.Recv() == nil && fn.Synthetic != "" {
		// A package initialiser called from another initialiser: stay lazy. That package is
		// initialised on the first access to one of its globals (ensureInit).
		return nil
	}
	if m.P.InterpDeny != nil {
		if p := fn.Package(); p != nil && m.P.InterpDeny(p.Pkg.Path()) && !allowFuncs[fn.String()] {
			if m.X.inInit > 0 {
				// Inside a package initialiser, calls into the runtime/OS layer (godebug settings,
				// monotonic clock base, …) yield zero values: such globals are not used by the code
				// the harnesses execute, and anything that later depends on them is stubbed explicitly.
				return m.zeroResults(fn)
			}
			m.abort("unsupported: call into denied package: " + fn.String())
		}
	}
	if fn.TypeParams().Len() > 0 && len(fn.TypeArgs()) == 0 {
		m.abort("generic function not instantiated: " + fn.String())
	}
	if _, seen := m.P.FuncsSeen.Load(fn); !seen {
		m.P.FuncsSeen.Store(fn, true)
	}
	fr := &frame{m: m, caller: caller, fn: fn, env: make(map[ssa.Value]Value, 16)}
	if caller != nil {
		fr.depth = caller.depth + 1
		fr.g = caller.g
	} else {
		fr.g = m.cur
	}
	if fr.depth > maxDepth {
		m.abort("call depth exceeded in " + fn.String())
	}
	for _, l := range fn.Locals {
		cell := new(Value)
		*cell = m.zero(deref(l.Type()))
		fr.env[l] = cell
	}
	for i, p := range fn.Params {
		fr.env[p] = args[i]
	}
	for i, fv := range fn.FreeVars {
		fr.env[fv] = env[i]
	}
	fr.block = fn.Blocks[0]
	for fr.block != nil {
		m.runFrame(fr)
	}
	return fr.result
}

func (m *Machine) runFrame(fr *frame) {
	defer func() {
		if fr.block == nil {
			return
		}
		r := recover()
		if r == nil {
			return
		}
		tp, ok := r.(targetPanic)
		if !ok {
			panic(r) // engine abort / kill / path end: not visible to the target program
		}
		fr.panicking = true
		fr.panicVal = tp
		fr.runDefers()
		// recovered
		fr.block = fr.fn.Recover
		if fr.block == nil {
			// function without named results: returns zero values
			fr.result = m.zero(fr.fn.Signature.Results())
			if fr.fn.Signature.Results().Len() == 0 {
				fr.result = nil
			}
		}
	}()
	for {
		blk := fr.block
		instrs := blk.Instrs
		// phis (parallel assignment)
		i := 0
		if _, ok := instrs[0].(*ssa.Phi); ok {
			predIdx := -1
			for k, p := range blk.Preds {
				if p == fr.prev {
					predIdx = k
					break
				}
			}
			var tmp [8]Value
			vals := tmp[:0]
			for ; i < len(instrs); i++ {
				phi, ok := instrs[i].(*ssa.Phi)
				if !ok {
					break
				}
				vals = append(vals, fr.get(phi.Edges[predIdx]))
			}
			for k := 0; k < i; k++ {
				fr.env[instrs[k].(*ssa.Phi)] = vals[k]
			}
		}
		jumped := false
		for ; i < len(instrs); i++ {
			m.steps++
			if m.steps > m.maxSteps {
				m.abort("instruction budget exceeded")
			}
			switch m.visit(fr, instrs[i]) {
			case kReturn:
				return
			case kJump:
				jumped = true
			}
			if jumped {
				break
			}
		}
	}
}

func (fr *frame) runDefers() {
	m := fr.m
	for len(fr.defers) > 0 {
		d := fr.defers[len(fr.defers)-1]
		fr.defers = fr.defers[:len(fr.defers)-1]
		func() {
			ok := false
			defer func() {
				if ok {
					return
				}
				r := recover()
				if tp, isT := r.(targetPanic); isT {
					fr.panicking = true
					fr.panicVal = tp
					return
				}
				panic(r)
			}()
			m.call(fr, d.fn, d.args)
			ok = true
		}()
	}
	if fr.panicking {
		panic(fr.panicVal)
	}
}

type cont int

const (
	kNext cont = iota
	kReturn
	kJump
)

func (m *Machine) prepareCall(fr *frame, c *ssa.CallCommon) (Value, []Value) {
	v := fr.get(c.Value)
	var fn Value
	var args []Value
	if c.Method == nil {
		fn = v
	} else {
		recv, ok := v.(Iface)
		if !ok || recv.T == nil {
			if m.X.inInit > 0 {
				// Inside a package initialiser a nil interface usually is the zero result of a call
				// into the runtime/reflect layer (see runBody): keep yielding zero values.
				res := c.Signature().Results()
				return &Native{Kind: "zero-results", Obj: func(m *Machine, caller *frame, args []Value) Value {
					switch res.Len() {
					case 0:
						return nil
					case 1:
						return m.zero(res.At(0).Type())
					}
					t := make(Tuple, res.Len())
					for i := range t {
						t[i] = m.zero(res.At(i).Type())
					}
					return t
				}}, nil
			}
			m.throw("invalid memory address or nil pointer dereference (method call on nil interface)")
		}
		if nat, ok := recv.V.(*Native); ok {
			if f := m.nativeMethod(nat, recv.T, c.Method); f != nil {
				fn = f
				args = append(args, recv.V)
				for _, a := range c.Args {
					args = append(args, fr.get(a))
				}
				return fn, args
			}
		}
		f := m.P.Prog.LookupMethod(recv.T, c.Method.Pkg(), c.Method.Name())
		if f == nil {
			m.abort(fmt.Sprintf("method %s not found on %s", c.Method.Name(), recv.T))
		}
		fn = f
		args = append(args, recv.V)
	}
	for _, a := range c.Args {
		args = append(args, fr.get(a))
	}
	return fn, args
}

func (m *Machine) visit(fr *frame, instr ssa.Instruction) cont {
	fr.curInstr = instr
	m.curFrame = fr
	switch instr := instr.(type) {
	case *ssa.DebugRef:
	case *ssa.UnOp:
		fr.env[instr] = m.unop(fr, instr, fr.get(instr.X))
	case *ssa.BinOp:
		fr.env[instr] = m.binop(instr.Op, instr.X.Type(), fr.get(instr.X), fr.get(instr.Y), instr.Y.Type())
	case *ssa.Call:
		fn, args := m.prepareCall(fr, &instr.Call)
		fr.env[instr] = m.call(fr, fn, args)
	case *ssa.ChangeInterface:
		fr.env[instr] = fr.get(instr.X)
	case *ssa.ChangeType:
		fr.env[instr] = fr.get(instr.X)
	case *ssa.Convert:
		fr.env[instr] = m.conv(instr.Type(), instr.X.Type(), fr.get(instr.X))
	case *ssa.MultiConvert:
		fr.env[instr] = m.conv(instr.Type(), instr.X.Type(), fr.get(instr.X))
	case *ssa.SliceToArrayPointer:
		m.abort("unsupported: SliceToArrayPointer")
	case *ssa.MakeInterface:
		fr.env[instr] = Iface{T: instr.X.Type(), V: fr.get(instr.X)}
	case *ssa.Extract:
		fr.env[instr] = fr.get(instr.Tuple).(Tuple)[instr.Index]
	case *ssa.Slice:
		fr.env[instr] = m.sliceOp(instr, fr.get(instr.X), fr.get(instr.Low), fr.get(instr.High), fr.get(instr.Max))
	case *ssa.Return:
		switch len(instr.Results) {
		case 0:
			fr.result = nil
		case 1:
			fr.result = fr.get(instr.Results[0])
		default:
			res := make(Tuple, len(instr.Results))
			for i, r := range instr.Results {
				res[i] = fr.get(r)
			}
			fr.result = res
		}
		fr.block = nil
		return kReturn
	case *ssa.RunDefers:
		fr.runDefers()
	case *ssa.Panic:
		panic(targetPanic{fr.get(instr.X)})
	case *ssa.Send:
		m.chanSend(fr.get(instr.Chan).(*ChanObj), fr.get(instr.X))
	case *ssa.Store:
		addr, _ := fr.get(instr.Addr).(*Value)
		if addr == nil {
			m.throw("invalid memory address or nil pointer dereference")
		}
		storeInto(addr, fr.get(instr.Val))
	case *ssa.If:
		c := fr.get(instr.Cond).(*term.T)
		var b bool
		if c.IsConst() {
			b = c.Val != 0
		} else {
			b = m.Decide(c)
		}
		succ := 1
		if b {
			succ = 0
		}
		fr.prev, fr.block = fr.block, fr.block.Succs[succ]
		return kJump
	case *ssa.Jump:
		fr.prev, fr.block = fr.block, fr.block.Succs[0]
		return kJump
	case *ssa.Defer:
		fn, args := m.prepareCall(fr, &instr.Call)
		fr.defers = append(fr.defers, &deferred{fn: fn, args: args})
	case *ssa.Go:
		fn, args := m.prepareCall(fr, &instr.Call)
		m.spawn(fn, args)
	case *ssa.MakeChan:
		n := m.concInt(fr.get(instr.Size).(*term.T), 1<<20)
		fr.env[instr] = &ChanObj{cap: n, elemT: instr.Type().Underlying().(*types.Chan).Elem()}
	case *ssa.Alloc:
		cell := new(Value)
		*cell = m.zero(deref(instr.Type()))
		if instr.Heap {
			fr.env[instr] = cell
		} else {
			// locals are pre-allocated; re-zero on each execution
			if p, ok := fr.env[instr].(*Value); ok {
				*p = *cell
			} else {
				fr.env[instr] = cell
			}
		}
	case *ssa.MakeSlice:
		ln := m.concLen(fr.get(instr.Len).(*term.T))
		cp := m.concLen(fr.get(instr.Cap).(*term.T))
		if ln < 0 || cp < ln {
			m.throw("makeslice: len out of range")
		}
		if cp > 1<<22 {
			m.abort("makeslice too large")
		}
		tElt := instr.Type().Underlying().(*types.Slice).Elem()
		a := make([]Value, cp)
		for i := range a {
			a[i] = m.zero(tElt)
		}
		fr.env[instr] = Slice{A: a[:ln]}
	case *ssa.MakeMap:
		fr.env[instr] = m.newMap(instr.Type().Underlying().(*types.Map).Key())
	case *ssa.Range:
		fr.env[instr] = m.rangeIter(fr.get(instr.X), instr.X.Type())
	case *ssa.Next:
		fr.env[instr] = fr.get(instr.Iter).(*Native).Obj.(iterator).next(m)
	case *ssa.FieldAddr:
		p, _ := fr.get(instr.X).(*Value)
		if p == nil {
			m.throw("invalid memory address or nil pointer dereference")
		}
		fr.env[instr] = &(*p).(Struct)[instr.Field]
	case *ssa.Field:
		fr.env[instr] = fr.get(instr.X).(Struct)[instr.Field]
	case *ssa.IndexAddr:
		x := fr.get(instr.X)
		idx := fr.get(instr.Index).(*term.T)
		switch x := x.(type) {
		case Slice:
			i := m.concIndex(idx, len(x.A), isSigned(instr.Index.Type()))
			fr.env[instr] = &x.A[i]
		case *Value:
			if x == nil {
				m.throw("invalid memory address or nil pointer dereference")
			}
			arr := (*x).(Array)
			i := m.concIndex(idx, len(arr), isSigned(instr.Index.Type()))
			fr.env[instr] = &arr[i]
		default:
			m.abort(fmt.Sprintf("IndexAddr on %T", x))
		}
	case *ssa.Index:
		x := fr.get(instr.X)
		idx := fr.get(instr.Index).(*term.T)
		switch x := x.(type) {
		case Array:
			i := m.concIndex(idx, len(x), isSigned(instr.Index.Type()))
			fr.env[instr] = x[i]
		case Str:
			fr.env[instr] = m.strIndex(x, idx, isSigned(instr.Index.Type()))
		default:
			m.abort(fmt.Sprintf("Index on %T", x))
		}
	case *ssa.Lookup:
		fr.env[instr] = m.lookup(instr, fr.get(instr.X), fr.get(instr.Index))
	case *ssa.MapUpdate:
		mp, _ := fr.get(instr.Map).(*MapObj)
		m.mapSet(mp, fr.get(instr.Key), fr.get(instr.Value))
	case *ssa.TypeAssert:
		fr.env[instr] = m.typeAssert(instr, fr.get(instr.X))
	case *ssa.MakeClosure:
		b := make([]Value, len(instr.Bindings))
		for i, x := range instr.Bindings {
			b[i] = fr.get(x)
		}
		fr.env[instr] = &Closure{Fn: instr.Fn.(*ssa.Function), Env: b}
	case *ssa.Select:
		fr.env[instr] = m.selectOp(fr, instr)
	default:
		m.abort(fmt.Sprintf("unsupported instruction %T", instr))
	}
	return kNext
}

func isSigned(t types.Type) bool {
	if b, ok := t.Underlying().(*types.Basic); ok {
		return b.Info()&types.IsUnsigned == 0
	}
	return true
}

// concInt concretises a scalar that must be concrete for the engine (sizes, counts) by forking
// over 0..max.
func (m *Machine) concInt(t *term.T, max int) int {
	if t.IsConst() {
		return int(t.Int())
	}
	limit := max
	if limit > 64 {
		limit = 64
	}
	for k := 0; k <= limit; k++ {
		if m.Decide(m.C.Eq(t, m.C.Const(t.W, uint64(k)))) {
			return k
		}
	}
	if m.Decide(m.C.Slt(t, m.C.Const(t.W, 0))) {
		return -1
	}
	m.abort("symbolic size beyond concretisation range")
	return 0
}

func (m *Machine) concLen(t *term.T) int { return m.concInt(t, 64) }

// concIndex concretises an index into an object of length n, raising the Go runtime panic when
// the index can be out of range.
func (m *Machine) concIndex(t *term.T, n int, signed bool) int {
	if t.IsConst() {
		var i int64
		if signed {
			i = t.Int()
		} else {
			i = int64(t.Val)
			if t.Val > 1<<62 {
				i = -1
			}
		}
		if i < 0 || i >= int64(n) {
			m.throw(fmt.Sprintf("index out of range [%d] with length %d", i, n))
		}
		return int(i)
	}
	if n > 256 {
		m.abort("symbolic index into object of length > 256")
	}
	for k := 0; k < n; k++ {
		if m.Decide(m.C.Eq(t, m.C.Const(t.W, uint64(k)))) {
			return k
		}
	}
	m.throw(fmt.Sprintf("index out of range [symbolic] with length %d", n))
	return 0
}

func (m *Machine) strIndex(s Str, idx *term.T, signed bool) Value {
	i := m.concIndex(idx, s.Len(), signed)
	if s.B != nil {
		return s.B[i]
	}
	return m.C.Const(8, uint64(s.S[i]))
}

func (m *Machine) lookup(instr *ssa.Lookup, x, k Value) Value {
	switch x := x.(type) {
	case *MapObj:
		e := m.mapFind(x, k)
		var v Value
		if e != nil {
			v = copyVal(e.v)
		} else {
			v = m.zero(instr.X.Type().Underlying().(*types.Map).Elem())
		}
		if instr.CommaOk {
			return Tuple{v, m.C.Bool(e != nil)}
		}
		return v
	case Str:
		return m.strIndex(x, k.(*term.T), isSigned(instr.Index.Type()))
	}
	m.abort(fmt.Sprintf("lookup on %T", x))
	return nil
}

func (m *Machine) implements(t types.Type, it *types.Interface) bool {
	type key struct {
		t  types.Type
		it *types.Interface
	}
	k := key{t, it}
	if v, ok := m.P.implCache.Load(k); ok {
		return v.(bool)
	}
	m.P.mu.Lock()
	r := types.Implements(t, it)
	m.P.mu.Unlock()
	m.P.implCache.Store(k, r)
	return r
}

func (m *Machine) typeAssert(instr *ssa.TypeAssert, xv Value) Value {
	x, _ := xv.(Iface)
	ok := false
	var v Value
	if it, isI := instr.AssertedType.Underlying().(*types.Interface); isI {
		if x.T != nil && m.implements(x.T, it) {
			ok = true
			v = x
		} else {
			v = Iface{}
		}
	} else {
		if x.T != nil && types.Identical(x.T, instr.AssertedType) {
			ok = true
			v = x.V
		} else {
			v = m.zero(instr.AssertedType)
		}
	}
	if instr.CommaOk {
		return Tuple{v, m.C.Bool(ok)}
	}
	if !ok {
		have := "nil"
		if x.T != nil {
			have = x.T.String()
		}
		m.throw(fmt.Sprintf("interface conversion: interface is %s, not %s", have, instr.AssertedType))
	}
	return v
}

func (m *Machine) sliceOp(instr *ssa.Slice, x, lo, hi, max Value) Value {
	var ln, cp int
	switch x := x.(type) {
	case Str:
		ln, cp = x.Len(), x.Len()
	case Slice:
		ln, cp = len(x.A), cap(x.A)
	case *Value:
		if x == nil {
			m.throw("invalid memory address or nil pointer dereference")
		}
		ln = len((*x).(Array))
		cp = ln
	default:
		m.abort(fmt.Sprintf("slice of %T", x))
	}
	l, h, mx := 0, ln, cp
	// Evaluate bounds; symbolic bounds fork over the feasible range.
	bound := func(v Value, limit int) (int, bool) {
		t := v.(*term.T)
		if t.IsConst() {
			i := t.Int()
			if i < 0 || i > int64(limit) {
				return int(i), false
			}
			return int(i), true
		}
		for k := 0; k <= limit && k <= 256; k++ {
			if m.Decide(m.C.Eq(t, m.C.Const(t.W, uint64(k)))) {
				return k, true
			}
		}
		return -1, false
	}
	okAll := true
	if max != nil {
		var ok bool
		mx, ok = bound(max, cp)
		okAll = okAll && ok
	}
	if hi != nil && okAll {
		var ok bool
		limit := mx
		if _, isStr := x.(Str); isStr {
			limit = ln
		}
		h, ok = bound(hi, limit)
		okAll = okAll && ok
	}
	if lo != nil && okAll {
		var ok bool
		l, ok = bound(lo, h)
		okAll = okAll && ok
	}
	if !okAll || l > h || h > mx {
		m.throw(fmt.Sprintf("slice bounds out of range [%d:%d:%d] with capacity %d", l, h, mx, cp))
	}
	switch x := x.(type) {
	case Str:
		return m.strSlice(x, l, h)
	case Slice:
		if x.A == nil {
			return Slice{}
		}
		return Slice{A: x.A[l:h:mx]}
	case *Value:
		arr := (*x).(Array)
		return Slice{A: []Value(arr)[l:h:mx]}
	}
	return nil
}

func (m *Machine) pos(p token.Pos) string {
	if !p.IsValid() {
		return "?"
	}
	return m.P.Prog.Fset.Position(p).String()
}

func f64bits(f float64) uint64 { return mathFloat64bits(f) }
