package gosx

import (
	"go/types"

	"golang.org/x/tools/go/ssa"
)

// Cooperative deterministic scheduler: exactly one goroutine runs (baton passing); a goroutine
// runs until it blocks, yields or exits; the next one is chosen round-robin. Choice points
// (a select with more than one ready case) are forked through Machine.Choose.

type goroutine struct {
	id      int
	wake    chan struct{}
	started bool
	done    bool
	ready   func() bool // non-nil while blocked / yielded
}

type ChanObj struct {
	buf    []Value
	cap    int
	closed bool
	elemT  types.Type
	sendq  []*pendingSend // unbuffered rendezvous
}

type pendingSend struct {
	v     Value
	taken bool
}

// crashPanic carries a fatal condition raised in one goroutine through the frames of the main
// goroutine without being visible to the target program's recover().
type crashPanic struct{ inner interface{} }

func (m *Machine) pickNext(g *goroutine) *goroutine {
	n := len(m.gs)
	for k := 1; k <= n; k++ {
		c := m.gs[(g.id+k)%n]
		if c.done {
			continue
		}
		if c.ready == nil || c.ready() {
			return c
		}
	}
	return nil
}

// transfer hands the baton from g to next and sleeps until g is woken again.
func (m *Machine) transfer(g, next *goroutine) {
	if next != g {
		next.wake <- struct{}{}
		<-g.wake
	}
	m.cur = g
	if m.dead {
		g.ready = nil
		if g.id == 0 {
			panic(crashPanic{m.crash})
		}
		panic(killedPanic{})
	}
}

func (m *Machine) deadlock(g *goroutine) {
	m.dead = true
	if m.crash == nil {
		m.crash = abortPanic{"deadlock: all goroutines are blocked"}
	}
	if g.id == 0 {
		g.ready = nil
		panic(crashPanic{m.crash})
	}
	m.gs[0].wake <- struct{}{}
	panic(killedPanic{})
}

// block suspends the current goroutine until ready() holds.
func (m *Machine) block(ready func() bool) {
	g := m.cur
	for !ready() {
		g.ready = ready
		next := m.pickNext(g)
		if next == nil {
			m.deadlock(g)
		}
		m.transfer(g, next)
	}
	g.ready = nil
}

// yield gives every other runnable goroutine one turn.
func (m *Machine) yield() {
	g := m.cur
	if len(m.gs) <= 1 {
		return
	}
	g.ready = func() bool { return true }
	next := m.pickNext(g)
	if next != nil && next != g {
		m.transfer(g, next)
	}
	g.ready = nil
}

func (m *Machine) spawn(fn Value, args []Value) {
	g := &goroutine{id: len(m.gs), wake: make(chan struct{}, 1)}
	m.gs = append(m.gs, g)
	if len(m.gs) > 64 {
		m.abort("too many goroutines")
	}
	m.X.live.Add(1)
	go func() {
		defer m.X.live.Done()
		<-g.wake
		if m.dead {
			g.done = true
			return
		}
		g.started = true
		m.cur = g
		defer func() {
			r := recover()
			g.done = true
			if _, killed := r.(killedPanic); killed {
				return
			}
			if r != nil {
				// target panic or engine abort in a non-main goroutine: crash the path
				if m.crash == nil {
					m.crash = r
				}
				if !m.dead {
					m.dead = true
					m.gs[0].wake <- struct{}{}
				}
				return
			}
			if m.dead {
				return
			}
			next := m.pickNext(g)
			if next == nil {
				m.dead = true
				if m.crash == nil {
					m.crash = abortPanic{"deadlock: all goroutines are blocked"}
				}
				m.gs[0].wake <- struct{}{}
				return
			}
			next.wake <- struct{}{}
		}()
		m.call(nil, fn, args)
	}()
}

// teardown ends all goroutines that are still parked (called by the path runner at the end).
func (m *Machine) teardown() {
	m.dead = true
	for _, g := range m.gs[1:] {
		if !g.done {
			select {
			case g.wake <- struct{}{}:
			default:
			}
		}
	}
	m.X.live.Wait()
}

func (m *Machine) chanSend(c *ChanObj, v Value) {
	if c == nil {
		m.block(func() bool { return false })
	}
	if c.closed {
		m.throw("send on closed channel")
	}
	if c.cap > 0 {
		m.block(func() bool { return len(c.buf) < c.cap || c.closed })
		if c.closed {
			m.throw("send on closed channel")
		}
		c.buf = append(c.buf, v)
		return
	}
	ps := &pendingSend{v: v}
	c.sendq = append(c.sendq, ps)
	m.block(func() bool { return ps.taken || c.closed })
	if !ps.taken {
		m.throw("send on closed channel")
	}
}

func (c *ChanObj) recvReady() bool {
	return c != nil && (len(c.buf) > 0 || len(c.sendq) > 0 || c.closed)
}

func (m *Machine) takeFrom(c *ChanObj) (Value, bool) {
	if len(c.buf) > 0 {
		v := c.buf[0]
		c.buf = c.buf[1:]
		return v, true
	}
	if len(c.sendq) > 0 {
		ps := c.sendq[0]
		c.sendq = c.sendq[1:]
		ps.taken = true
		return ps.v, true
	}
	return m.zero(c.elemT), false
}

func (m *Machine) chanRecv(c *ChanObj) (Value, bool) {
	if c == nil {
		m.block(func() bool { return false })
	}
	m.block(c.recvReady)
	return m.takeFrom(c)
}

func (m *Machine) chanClose(c *ChanObj) {
	if c == nil {
		m.throw("close of nil channel")
	}
	if c.closed {
		m.throw("close of closed channel")
	}
	c.closed = true
}

func (m *Machine) selectOp(fr *frame, instr *ssa.Select) Value {
	type st struct {
		ch   *ChanObj
		send Value
		recv bool
	}
	states := make([]st, len(instr.States))
	for i, s := range instr.States {
		ch, _ := fr.get(s.Chan).(*ChanObj)
		states[i] = st{ch: ch, recv: s.Dir == types.RecvOnly}
		if s.Send != nil {
			states[i].send = fr.get(s.Send)
		}
	}
	readyIdx := func() []int {
		var r []int
		for i, s := range states {
			if s.ch == nil {
				continue
			}
			if s.recv {
				if s.ch.recvReady() {
					r = append(r, i)
				}
			} else if s.ch.closed || (s.ch.cap > 0 && len(s.ch.buf) < s.ch.cap) {
				r = append(r, i)
			}
		}
		return r
	}
	// Let the other goroutines run first so that every producer has progressed as far as it
	// can; then every merge order of ready inputs is reachable by forking on the choice.
	rd0 := readyIdx()
	m.yield()
	rd := readyIdx()
	if !instr.Blocking && len(rd0) == 0 && len(rd) > 0 && (!m.fixedSchedule || m.Params["NBFORK"] == 1) {
		// A non-blocking select that found nothing ready when it was reached, while something
		// became ready once the other goroutines had run: both outcomes are real schedules (taking
		// the default branch has no effect on any channel, so "default, then the others run" and
		// "the others run, then default" reach the same state).
		if m.Choose("select.default", 2) == 1 {
			return m.selectResult(instr, -1, nil, false)
		}
	}
	if len(rd) == 0 {
		if !instr.Blocking {
			return m.selectResult(instr, -1, nil, false)
		}
		m.block(func() bool { return len(readyIdx()) > 0 })
		rd = readyIdx()
	}
	chosen := rd[0]
	if len(rd) > 1 && !m.fixedSchedule {
		chosen = rd[m.Choose("select", len(rd))]
	}
	s := states[chosen]
	if s.recv {
		v, ok := m.takeFrom(s.ch)
		return m.selectResult(instr, chosen, v, ok)
	}
	if s.ch.closed {
		m.throw("send on closed channel")
	}
	s.ch.buf = append(s.ch.buf, s.send)
	return m.selectResult(instr, chosen, nil, false)
}

func (m *Machine) selectResult(instr *ssa.Select, chosen int, recv Value, recvOk bool) Value {
	r := Tuple{m.C.Const(64, uint64(int64(chosen))), m.C.Bool(recvOk)}
	for i, s := range instr.States {
		if s.Dir == types.RecvOnly {
			if i == chosen && recvOk {
				r = append(r, recv)
			} else {
				r = append(r, m.zero(s.Chan.Type().Underlying().(*types.Chan).Elem()))
			}
		}
	}
	return r
}
