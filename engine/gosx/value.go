// Package gosx is a forking symbolic executor for Go SSA: concrete control structure and heap,
// symbolic scalars (SMT terms), exploration by deterministic re-execution with decision prefixes.
package gosx

import (
	"fmt"
	"go/types"
	"strings"

	"golang.org/x/tools/go/ssa"

	"verif/engine/term"
)

// Value is one of:
//
//	*term.T   bool / integer / float scalar (constant or symbolic)
//	Str       string with concrete length
//	Struct, Array, Tuple
//	Slice
//	*Value    pointer (nil pointer = (*Value)(nil))
//	Iface
//	*MapObj, *ChanObj
//	*ssa.Function, *ssa.Builtin, *Closure   function values ((*Closure)(nil) = nil func)
//	*Native   opaque engine-side object (intrinsic state)
type Value interface{}

type Str struct {
	S string    // concrete content when B == nil
	B []*term.T // symbolic bytes (BV8), len(B) is the string length
}

type Struct []Value
type Array []Value
type Tuple []Value

type Slice struct {
	A []Value // len/cap are the Go slice's len/cap; nil = nil slice
}

type Iface struct {
	T types.Type
	V Value
}

type Closure struct {
	Fn  *ssa.Function
	Env []Value
}

// Native wraps engine-side state used by intrinsics (e.g. error objects made by fmt.Errorf).
type Native struct {
	Kind string
	Obj  interface{}
}

type mapEntry struct {
	k, v    Value
	deleted bool
}

type MapObj struct {
	entries  []*mapEntry
	idx      map[string]*mapEntry // concrete keys
	symbolic int                  // number of live entries with symbolic keys
	n        int                  // live entries
	keyT     types.Type
}

func (s Str) Len() int {
	if s.B != nil {
		return len(s.B)
	}
	return len(s.S)
}

func (s Str) IsConc() bool { return s.B == nil }

// concStr tries to collapse symbolic bytes that are all constants.
func normStr(b []*term.T) Str {
	for _, t := range b {
		if !t.IsConst() {
			return Str{B: b}
		}
	}
	bs := make([]byte, len(b))
	for i, t := range b {
		bs[i] = byte(t.Val)
	}
	return Str{S: string(bs)}
}

func (m *Machine) strBytes(s Str) []*term.T {
	if s.B != nil {
		return s.B
	}
	out := make([]*term.T, len(s.S))
	for i := 0; i < len(s.S); i++ {
		out[i] = m.C.Const(8, uint64(s.S[i]))
	}
	return out
}

func widthOfBasic(b *types.Basic) (w int, signed bool, float bool) {
	switch b.Kind() {
	case types.Bool, types.UntypedBool:
		return 0, false, false
	case types.Int8:
		return 8, true, false
	case types.Int16:
		return 16, true, false
	case types.Int32, types.UntypedRune:
		return 32, true, false
	case types.Int, types.Int64, types.UntypedInt:
		return 64, true, false
	case types.Uint8:
		return 8, false, false
	case types.Uint16:
		return 16, false, false
	case types.Uint32:
		return 32, false, false
	case types.Uint, types.Uint64, types.Uintptr:
		return 64, false, false
	case types.Float64, types.UntypedFloat:
		return 64, true, true
	case types.Float32:
		return 32, true, true
	}
	return -1, false, false
}

func (m *Machine) zero(t types.Type) Value {
	switch t := t.Underlying().(type) {
	case *types.Basic:
		if t.Kind() == types.String || t.Kind() == types.UntypedString {
			return Str{}
		}
		if t.Kind() == types.UnsafePointer {
			return (*Value)(nil)
		}
		if t.Kind() == types.UntypedNil {
			return nil
		}
		w, _, _ := widthOfBasic(t)
		if w < 0 {
			m.abort("unsupported basic type " + t.String())
		}
		return m.C.Const(w, 0)
	case *types.Pointer:
		return (*Value)(nil)
	case *types.Slice:
		return Slice{}
	case *types.Map:
		return (*MapObj)(nil)
	case *types.Chan:
		return (*ChanObj)(nil)
	case *types.Signature:
		return (*Closure)(nil)
	case *types.Interface:
		return Iface{}
	case *types.Struct:
		s := make(Struct, t.NumFields())
		for i := range s {
			s[i] = m.zero(t.Field(i).Type())
		}
		return s
	case *types.Array:
		a := make(Array, t.Len())
		for i := range a {
			a[i] = m.zero(t.Elem())
		}
		return a
	case *types.Tuple:
		if t.Len() == 1 {
			return m.zero(t.At(0).Type())
		}
		tu := make(Tuple, t.Len())
		for i := range tu {
			tu[i] = m.zero(t.At(i).Type())
		}
		return tu
	}
	m.abort(fmt.Sprintf("zero: unsupported type %s", t))
	return nil
}

// copyVal makes an independent copy of aggregate values (value semantics on load).
func copyVal(v Value) Value {
	switch v := v.(type) {
	case Struct:
		n := make(Struct, len(v))
		for i, f := range v {
			n[i] = copyVal(f)
		}
		return n
	case Array:
		n := make(Array, len(v))
		for i, f := range v {
			n[i] = copyVal(f)
		}
		return n
	}
	return v
}

// storeInto writes v into the cell in place so that interior pointers stay valid.
func storeInto(addr *Value, v Value) {
	switch v := v.(type) {
	case Struct:
		if dst, ok := (*addr).(Struct); ok && len(dst) == len(v) {
			for i := range v {
				storeInto(&dst[i], v[i])
			}
			return
		}
		*addr = copyVal(v)
	case Array:
		if dst, ok := (*addr).(Array); ok && len(dst) == len(v) {
			for i := range v {
				storeInto(&dst[i], v[i])
			}
			return
		}
		*addr = copyVal(v)
	default:
		*addr = v
	}
}

// eq builds the Boolean term for a == b (Go comparison semantics for comparable types).
func (m *Machine) eq(a, b Value) *term.T {
	switch a := a.(type) {
	case *term.T:
		bb := b.(*term.T)
		return m.C.Eq(a, bb)
	case Str:
		return m.strEq(a, b.(Str))
	case Struct:
		bs := b.(Struct)
		r := m.C.True
		for i := range a {
			r = m.C.And(r, m.eq(a[i], bs[i]))
		}
		return r
	case Array:
		bs := b.(Array)
		r := m.C.True
		for i := range a {
			r = m.C.And(r, m.eq(a[i], bs[i]))
		}
		return r
	case *Value:
		bp, _ := b.(*Value)
		return m.C.Bool(a == bp)
	case Iface:
		bi, ok := b.(Iface)
		if !ok {
			// comparing interface with nil constant
			return m.C.Bool(a.T == nil && b == nil)
		}
		if a.T == nil || bi.T == nil {
			return m.C.Bool(a.T == nil && bi.T == nil)
		}
		if !types.Identical(a.T, bi.T) {
			return m.C.False
		}
		if !types.Comparable(a.T) {
			m.throw("runtime error: comparing uncomparable type " + a.T.String())
		}
		return m.eq(a.V, bi.V)
	case *MapObj:
		bm, _ := b.(*MapObj)
		return m.C.Bool(a == bm)
	case *ChanObj:
		bc, _ := b.(*ChanObj)
		return m.C.Bool(a == bc)
	case Slice:
		bs, _ := b.(Slice)
		return m.C.Bool(a.A == nil && bs.A == nil)
	case *Closure:
		if a == nil {
			return m.C.Bool(isNilFunc(b))
		}
		return m.C.Bool(false)
	case *ssa.Function, *ssa.Builtin:
		return m.C.False // only comparable with nil
	case *Native:
		bn, _ := b.(*Native)
		return m.C.Bool(a == bn)
	case nil:
		switch b := b.(type) {
		case nil:
			return m.C.True
		case Iface:
			return m.C.Bool(b.T == nil)
		case *Value:
			return m.C.Bool(b == nil)
		}
	}
	m.abort(fmt.Sprintf("eq: unsupported operands %T %T", a, b))
	return nil
}

func isNilFunc(v Value) bool {
	c, ok := v.(*Closure)
	return ok && c == nil
}

func (m *Machine) strEq(a, b Str) *term.T {
	if a.Len() != b.Len() {
		return m.C.False
	}
	if a.B == nil && b.B == nil {
		return m.C.Bool(a.S == b.S)
	}
	ab, bb := m.strBytes(a), m.strBytes(b)
	r := m.C.True
	for i := range ab {
		r = m.C.And(r, m.C.Eq(ab[i], bb[i]))
	}
	return r
}

// strLess builds a < b (bytewise lexicographic).
func (m *Machine) strLess(a, b Str) *term.T {
	if a.B == nil && b.B == nil {
		return m.C.Bool(a.S < b.S)
	}
	ab, bb := m.strBytes(a), m.strBytes(b)
	n := len(ab)
	if len(bb) < n {
		n = len(bb)
	}
	// result if all first n bytes equal:
	r := m.C.Bool(len(ab) < len(bb))
	for i := n - 1; i >= 0; i-- {
		r = m.C.Ite(m.C.Ult(ab[i], bb[i]), m.C.True, m.C.Ite(m.C.Eq(ab[i], bb[i]), r, m.C.False))
	}
	if !r.IsConst() {
		if m.X.strLess == nil {
			m.X.strLess = map[*term.T][2][]*term.T{}
		}
		m.X.strLess[r] = [2][]*term.T{ab, bb}
	}
	return r
}

func (m *Machine) strConcat(a, b Str) Str {
	if a.B == nil && b.B == nil {
		return Str{S: a.S + b.S}
	}
	if a.Len() == 0 {
		return b
	}
	if b.Len() == 0 {
		return a
	}
	out := append(append([]*term.T(nil), m.strBytes(a)...), m.strBytes(b)...)
	return Str{B: out}
}

func (m *Machine) strSlice(s Str, lo, hi int) Str {
	if s.B == nil {
		return Str{S: s.S[lo:hi]}
	}
	return normStr(s.B[lo:hi:hi])
}

// keyString encodes a fully concrete comparable value for map indexing; ok=false when any
// part is symbolic.
func keyString(v Value, sb *strings.Builder) bool {
	switch v := v.(type) {
	case *term.T:
		if !v.IsConst() {
			return false
		}
		fmt.Fprintf(sb, "i%d:%x;", v.W, v.Val)
	case Str:
		if v.B != nil {
			return false
		}
		fmt.Fprintf(sb, "s%d:%s;", len(v.S), v.S)
	case Struct:
		sb.WriteString("{")
		for _, f := range v {
			if !keyString(f, sb) {
				return false
			}
		}
		sb.WriteString("}")
	case Array:
		sb.WriteString("[")
		for _, f := range v {
			if !keyString(f, sb) {
				return false
			}
		}
		sb.WriteString("]")
	case *Value:
		fmt.Fprintf(sb, "p%p;", v)
	case Iface:
		if v.T == nil {
			sb.WriteString("nil;")
			return true
		}
		sb.WriteString("I" + v.T.String() + ":")
		return keyString(v.V, sb)
	case *MapObj:
		fmt.Fprintf(sb, "m%p;", v)
	case *ChanObj:
		fmt.Fprintf(sb, "c%p;", v)
	case *Native:
		fmt.Fprintf(sb, "n%p;", v)
	case *ssa.Function:
		fmt.Fprintf(sb, "f%p;", v)
	case *Closure:
		fmt.Fprintf(sb, "f%p;", v)
	default:
		return false
	}
	return true
}

func (m *Machine) newMap(keyT types.Type) *MapObj {
	return &MapObj{idx: map[string]*mapEntry{}, keyT: keyT}
}

func (m *Machine) mapFind(mp *MapObj, k Value) *mapEntry {
	if mp == nil {
		return nil
	}
	var sb strings.Builder
	conc := keyString(k, &sb)
	if conc {
		if e, ok := mp.idx[sb.String()]; ok && !e.deleted {
			return e
		}
		if mp.symbolic == 0 {
			return nil
		}
	}
	for _, e := range mp.entries {
		if e.deleted {
			continue
		}
		c := m.eq(k, e.k)
		if c.IsConst() {
			if c.Val != 0 {
				return e
			}
			continue
		}
		if m.Decide(c) {
			return e
		}
	}
	return nil
}

func (m *Machine) mapSet(mp *MapObj, k, v Value) {
	if mp == nil {
		m.throw("assignment to entry in nil map")
	}
	if e := m.mapFind(mp, k); e != nil {
		e.v = v
		return
	}
	e := &mapEntry{k: k, v: v}
	mp.entries = append(mp.entries, e)
	mp.n++
	var sb strings.Builder
	if keyString(k, &sb) {
		mp.idx[sb.String()] = e
	} else {
		mp.symbolic++
	}
}

func (m *Machine) mapDelete(mp *MapObj, k Value) {
	if mp == nil {
		return
	}
	if e := m.mapFind(mp, k); e != nil {
		e.deleted = true
		mp.n--
		var sb strings.Builder
		if keyString(e.k, &sb) {
			delete(mp.idx, sb.String())
		} else {
			mp.symbolic--
		}
	}
}

// typeName for diagnostics
func valKind(v Value) string { return fmt.Sprintf("%T", v) }
