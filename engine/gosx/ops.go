package gosx

import (
	"fmt"
	"go/token"
	"go/types"
	"math"
	"unicode/utf8"

	"golang.org/x/tools/go/ssa"

	"verif/engine/term"
)

func mathFloat64bits(f float64) uint64 { return math.Float64bits(f) }
func f32bits(f float32) uint32         { return math.Float32bits(f) }

func basicOf(t types.Type) *types.Basic {
	b, _ := t.Underlying().(*types.Basic)
	return b
}

func (m *Machine) unop(fr *frame, instr *ssa.UnOp, x Value) Value {
	switch instr.Op {
	case token.MUL: // load
		p, _ := x.(*Value)
		if p == nil {
			m.throw("invalid memory address or nil pointer dereference")
		}
		return copyVal(*p)
	case token.ARROW:
		v, ok := m.chanRecv(x.(*ChanObj))
		if instr.CommaOk {
			return Tuple{v, m.C.Bool(ok)}
		}
		return v
	case token.NOT:
		return m.C.Not(x.(*term.T))
	case token.SUB:
		t := x.(*term.T)
		if b := basicOf(instr.X.Type()); b != nil && b.Info()&types.IsFloat != 0 {
			if t.W == 32 {
				return m.f32un(t, func(f float32) float32 { return -f })
			}
			return m.C.FNeg(t)
		}
		return m.C.Neg(t)
	case token.XOR:
		return m.C.BNot(x.(*term.T))
	}
	m.abort("unsupported unop " + instr.Op.String())
	return nil
}

func (m *Machine) f32un(t *term.T, f func(float32) float32) *term.T {
	if !t.IsConst() {
		m.abort("unsupported: symbolic float32")
	}
	return m.C.Const(32, uint64(math.Float32bits(f(math.Float32frombits(uint32(t.Val))))))
}

func (m *Machine) f32bin(op token.Token, a, b *term.T) Value {
	if !a.IsConst() || !b.IsConst() {
		m.abort("unsupported: symbolic float32")
	}
	x, y := math.Float32frombits(uint32(a.Val)), math.Float32frombits(uint32(b.Val))
	c := func(f float32) Value { return m.C.Const(32, uint64(math.Float32bits(f))) }
	switch op {
	case token.ADD:
		return c(x + y)
	case token.SUB:
		return c(x - y)
	case token.MUL:
		return c(x * y)
	case token.QUO:
		return c(x / y)
	case token.EQL:
		return m.C.Bool(x == y)
	case token.NEQ:
		return m.C.Bool(x != y)
	case token.LSS:
		return m.C.Bool(x < y)
	case token.LEQ:
		return m.C.Bool(x <= y)
	case token.GTR:
		return m.C.Bool(x > y)
	case token.GEQ:
		return m.C.Bool(x >= y)
	}
	m.abort("unsupported float32 op")
	return nil
}

func (m *Machine) binop(op token.Token, t types.Type, x, y Value, yt types.Type) Value {
	C := m.C
	switch xv := x.(type) {
	case Str:
		ys := y.(Str)
		switch op {
		case token.ADD:
			return m.strConcat(xv, ys)
		case token.EQL:
			return m.strEq(xv, ys)
		case token.NEQ:
			return C.Not(m.strEq(xv, ys))
		case token.LSS:
			return m.strLess(xv, ys)
		case token.GTR:
			return m.strLess(ys, xv)
		case token.LEQ:
			return C.Not(m.strLess(ys, xv))
		case token.GEQ:
			return C.Not(m.strLess(xv, ys))
		}
	case *term.T:
		yv, ok := y.(*term.T)
		if !ok {
			break
		}
		b := basicOf(t)
		if b == nil {
			break
		}
		info := b.Info()
		switch {
		case info&types.IsBoolean != 0:
			switch op {
			case token.EQL:
				return C.Eq(xv, yv)
			case token.NEQ:
				return C.Not(C.Eq(xv, yv))
			case token.AND:
				return C.And(xv, yv)
			case token.OR:
				return C.Or(xv, yv)
			}
		case info&types.IsFloat != 0:
			if xv.W == 32 {
				return m.f32bin(op, xv, yv)
			}
			switch op {
			case token.ADD:
				return C.FAdd(xv, yv)
			case token.SUB:
				return C.FSub(xv, yv)
			case token.MUL:
				return C.FMul(xv, yv)
			case token.QUO:
				return C.FDiv(xv, yv)
			case token.EQL:
				return C.FEq(xv, yv)
			case token.NEQ:
				return C.Not(C.FEq(xv, yv))
			case token.LSS:
				return C.FLt(xv, yv)
			case token.LEQ:
				return C.FLe(xv, yv)
			case token.GTR:
				return C.FLt(yv, xv)
			case token.GEQ:
				return C.FLe(yv, xv)
			}
		case info&types.IsInteger != 0:
			signed := info&types.IsUnsigned == 0
			switch op {
			case token.ADD:
				return C.Add(xv, yv)
			case token.SUB:
				return C.Sub(xv, yv)
			case token.MUL:
				return C.Mul(xv, yv)
			case token.QUO, token.REM:
				z := C.Eq(yv, C.Const(yv.W, 0))
				if z.IsConst() {
					if z.Val != 0 {
						m.throw("integer divide by zero")
					}
				} else if m.Decide(z) {
					m.throw("integer divide by zero")
				}
				if op == token.QUO {
					if signed {
						return C.SDiv(xv, yv)
					}
					return C.UDiv(xv, yv)
				}
				if signed {
					return C.SRem(xv, yv)
				}
				return C.URem(xv, yv)
			case token.AND:
				return C.BAnd(xv, yv)
			case token.OR:
				return C.BOr(xv, yv)
			case token.XOR:
				return C.BXor(xv, yv)
			case token.AND_NOT:
				return C.BAnd(xv, C.BNot(yv))
			case token.SHL, token.SHR:
				return m.shift(op, xv, yv, signed, isSigned(yt))
			case token.EQL:
				return C.Eq(xv, yv)
			case token.NEQ:
				return C.Not(C.Eq(xv, yv))
			case token.LSS:
				if signed {
					return C.Slt(xv, yv)
				}
				return C.Ult(xv, yv)
			case token.LEQ:
				if signed {
					return C.Sle(xv, yv)
				}
				return C.Ule(xv, yv)
			case token.GTR:
				if signed {
					return C.Slt(yv, xv)
				}
				return C.Ult(yv, xv)
			case token.GEQ:
				if signed {
					return C.Sle(yv, xv)
				}
				return C.Ule(yv, xv)
			}
		}
	}
	switch op {
	case token.EQL:
		return m.eq(x, y)
	case token.NEQ:
		return C.Not(m.eq(x, y))
	}
	m.abort(fmt.Sprintf("unsupported binop %s on %T (%s)", op, x, t))
	return nil
}

func (m *Machine) shift(op token.Token, x, y *term.T, xSigned, ySigned bool) Value {
	C := m.C
	if ySigned {
		neg := C.Slt(y, C.Const(y.W, 0))
		if neg.IsConst() {
			if neg.Val != 0 {
				m.throw("negative shift amount")
			}
		} else if m.Decide(neg) {
			m.throw("negative shift amount")
		}
	}
	w := x.W
	// bring the count to width w, saturating
	var cnt *term.T
	var over *term.T = C.False
	if y.W > w {
		over = C.Not(C.Ult(y, C.Const(y.W, uint64(w))))
		cnt = C.Extract(y, w-1, 0)
	} else {
		cnt = C.ZExt(y, w)
	}
	var r, sat *term.T
	switch {
	case op == token.SHL:
		r, sat = C.Shl(x, cnt), C.Const(w, 0)
	case xSigned:
		r = C.AShr(x, cnt)
		sat = C.AShr(x, C.Const(w, uint64(w-1)))
	default:
		r, sat = C.LShr(x, cnt), C.Const(w, 0)
	}
	return C.Ite(over, sat, r)
}

func (m *Machine) conv(dst, src types.Type, x Value) Value {
	C := m.C
	ud, us := dst.Underlying(), src.Underlying()
	switch ud := ud.(type) {
	case *types.Basic:
		switch {
		case ud.Kind() == types.UnsafePointer:
			return x
		case ud.Info()&types.IsString != 0:
			switch us := us.(type) {
			case *types.Basic:
				if us.Info()&types.IsString != 0 {
					return x
				}
				if us.Info()&types.IsInteger != 0 {
					// string(rune)
					t := x.(*term.T)
					r := m.concRune(t, isSigned(src))
					return Str{S: string(rune(r))}
				}
			case *types.Slice:
				sl := x.(Slice)
				eb := basicOf(us.Elem())
				if eb != nil && eb.Kind() == types.Uint8 {
					bs := make([]*term.T, len(sl.A))
					for i, v := range sl.A {
						bs[i] = v.(*term.T)
					}
					return normStr(bs)
				}
				if eb != nil && eb.Kind() == types.Int32 {
					var out []*term.T
					for _, v := range sl.A {
						out = append(out, m.encodeRune(v.(*term.T))...)
					}
					return normStr(out)
				}
			}
		case ud.Info()&types.IsNumeric != 0 || ud.Info()&types.IsBoolean != 0:
			sb, ok := us.(*types.Basic)
			if !ok {
				if _, isPtr := us.(*types.Pointer); isPtr {
					m.abort("unsupported: pointer to integer conversion")
				}
				break
			}
			if sb.Kind() == types.UnsafePointer {
				m.abort("unsupported: unsafe.Pointer to uintptr")
			}
			t := x.(*term.T)
			dw, _, dFloat := widthOfBasic(ud)
			sw, sSigned, sFloat := widthOfBasic(sb)
			_ = sw
			dSigned := ud.Info()&types.IsUnsigned == 0
			switch {
			case !sFloat && !dFloat:
				if sSigned && sb.Info()&types.IsUnsigned == 0 {
					return C.SExt(t, dw)
				}
				return C.ZExt(t, dw)
			case sFloat && dFloat:
				if t.W == dw {
					return t
				}
				if !t.IsConst() {
					m.abort("unsupported: symbolic float32 conversion")
				}
				if dw == 32 {
					return C.Const(32, uint64(math.Float32bits(float32(math.Float64frombits(t.Val)))))
				}
				return C.Const(64, math.Float64bits(float64(math.Float32frombits(uint32(t.Val)))))
			case !sFloat && dFloat:
				var r *term.T
				if sb.Info()&types.IsUnsigned == 0 {
					r = C.SIToF(t)
				} else {
					r = C.UIToF(t)
				}
				if dw == 32 {
					if !r.IsConst() {
						m.abort("unsupported: symbolic float32 conversion")
					}
					return C.Const(32, uint64(math.Float32bits(float32(math.Float64frombits(r.Val)))))
				}
				return r
			case sFloat && !dFloat:
				if t.W == 32 {
					if !t.IsConst() {
						m.abort("unsupported: symbolic float32 conversion")
					}
					t = C.Const(64, math.Float64bits(float64(math.Float32frombits(uint32(t.Val)))))
				}
				if dSigned || dw < 64 {
					return C.FToSI(t, dw)
				}
				return C.FToUI(t, dw)
			}
		}
	case *types.Slice:
		if sb, ok := us.(*types.Basic); ok && sb.Info()&types.IsString != 0 {
			s := x.(Str)
			eb := basicOf(ud.Elem())
			if eb != nil && eb.Kind() == types.Uint8 {
				bs := m.strBytes(s)
				a := make([]Value, len(bs))
				for i, b := range bs {
					a[i] = b
				}
				return Slice{A: a}
			}
			if eb != nil && eb.Kind() == types.Int32 {
				var a []Value
				it := &strIter{s: s}
				for {
					r, _, ok := it.decode(m)
					if !ok {
						break
					}
					a = append(a, r)
				}
				if a == nil {
					a = []Value{}
				}
				return Slice{A: a}
			}
		}
		if _, ok := us.(*types.Slice); ok {
			return x
		}
	case *types.Pointer:
		return x
	default:
		_ = ud
	}
	if types.Identical(ud, us) {
		return x
	}
	m.abort(fmt.Sprintf("unsupported conversion %s -> %s", src, dst))
	return nil
}

// concRune concretises a rune for string(rune) conversions.
func (m *Machine) concRune(t *term.T, signed bool) rune {
	if t.IsConst() {
		v := t.Int()
		if !signed {
			v = int64(t.Val)
		}
		if v < 0 || v > utf8.MaxRune {
			return utf8.RuneError
		}
		return rune(v)
	}
	m.abort("unsupported: string(symbolic rune)")
	return 0
}

// encodeRune UTF-8 encodes a (possibly symbolic) rune, forking on the length class.
func (m *Machine) encodeRune(r *term.T) []*term.T {
	C := m.C
	if r.IsConst() {
		var buf [4]byte
		v := rune(int32(r.Val))
		n := utf8.EncodeRune(buf[:], v)
		out := make([]*term.T, n)
		for i := 0; i < n; i++ {
			out[i] = C.Const(8, uint64(buf[i]))
		}
		return out
	}
	k := func(v uint64) *term.T { return C.Const(32, v) }
	b := func(t *term.T) *term.T { return C.Extract(t, 7, 0) }
	invalid := C.Or(C.Ult(k(0x10FFFF), r), C.And(C.Ule(k(0xD800), r), C.Ule(r, k(0xDFFF))))
	if m.Decide(invalid) {
		return []*term.T{C.Const(8, 0xEF), C.Const(8, 0xBF), C.Const(8, 0xBD)}
	}
	if m.Decide(C.Ult(r, k(0x80))) {
		return []*term.T{b(r)}
	}
	if m.Decide(C.Ult(r, k(0x800))) {
		return []*term.T{
			b(C.BOr(k(0xC0), C.LShr(r, k(6)))),
			b(C.BOr(k(0x80), C.BAnd(r, k(0x3F)))),
		}
	}
	if m.Decide(C.Ult(r, k(0x10000))) {
		return []*term.T{
			b(C.BOr(k(0xE0), C.LShr(r, k(12)))),
			b(C.BOr(k(0x80), C.BAnd(C.LShr(r, k(6)), k(0x3F)))),
			b(C.BOr(k(0x80), C.BAnd(r, k(0x3F)))),
		}
	}
	return []*term.T{
		b(C.BOr(k(0xF0), C.LShr(r, k(18)))),
		b(C.BOr(k(0x80), C.BAnd(C.LShr(r, k(12)), k(0x3F)))),
		b(C.BOr(k(0x80), C.BAnd(C.LShr(r, k(6)), k(0x3F)))),
		b(C.BOr(k(0x80), C.BAnd(r, k(0x3F)))),
	}
}

// ---------- iteration ----------

type iterator interface {
	next(m *Machine) Value
}

type mapIter struct {
	mp *MapObj
	i  int
	kz Value
	vz Value
}

func (it *mapIter) next(m *Machine) Value {
	if it.mp != nil {
		for it.i < len(it.mp.entries) {
			e := it.mp.entries[it.i]
			it.i++
			if !e.deleted {
				return Tuple{m.C.True, e.k, copyVal(e.v)}
			}
		}
	}
	return Tuple{m.C.False, it.kz, it.vz}
}

type strIter struct {
	s   Str
	pos int
}

// decode returns the next rune (BV32), its width and ok=false at the end. Symbolic bytes fork
// over the UTF-8 lead-byte classes exactly as the Go runtime decodes.
func (it *strIter) decode(m *Machine) (*term.T, int, bool) {
	C := m.C
	n := it.s.Len()
	if it.pos >= n {
		return nil, 0, false
	}
	if it.s.B == nil {
		r, w := utf8.DecodeRuneInString(it.s.S[it.pos:])
		it.pos += w
		return C.Const(32, uint64(uint32(r))), w, true
	}
	bs := it.s.B
	allConst := true
	end := it.pos + 4
	if end > n {
		end = n
	}
	for _, b := range bs[it.pos:end] {
		if !b.IsConst() {
			allConst = false
		}
	}
	if allConst {
		buf := make([]byte, end-it.pos)
		for i := range buf {
			buf[i] = byte(bs[it.pos+i].Val)
		}
		r, w := utf8.DecodeRune(buf)
		it.pos += w
		return C.Const(32, uint64(uint32(r))), w, true
	}
	k8 := func(v uint64) *term.T { return C.Const(8, v) }
	z := func(t *term.T) *term.T { return C.ZExt(t, 32) }
	k32 := func(v uint64) *term.T { return C.Const(32, v) }
	rerr := C.Const(32, uint64(utf8.RuneError))
	b0 := bs[it.pos]
	bad := func() (*term.T, int, bool) { it.pos++; return rerr, 1, true }
	if m.Decide(C.Ult(b0, k8(0x80))) {
		it.pos++
		return z(b0), 1, true
	}
	inRange := func(b *term.T, lo, hi uint64) *term.T { return C.And(C.Ule(k8(lo), b), C.Ule(b, k8(hi))) }
	cont := func(b *term.T) *term.T { return inRange(b, 0x80, 0xBF) }
	avail := n - it.pos
	// 2-byte
	if m.Decide(inRange(b0, 0xC2, 0xDF)) {
		if avail < 2 || !m.Decide(cont(bs[it.pos+1])) {
			return bad()
		}
		b1 := bs[it.pos+1]
		it.pos += 2
		return C.BOr(C.Shl(C.BAnd(z(b0), k32(0x1F)), k32(6)), C.BAnd(z(b1), k32(0x3F))), 2, true
	}
	// 3-byte
	if m.Decide(inRange(b0, 0xE0, 0xEF)) {
		if avail < 3 {
			return bad()
		}
		b1, b2 := bs[it.pos+1], bs[it.pos+2]
		lo := C.Ite(C.Eq(b0, k8(0xE0)), k8(0xA0), k8(0x80))
		hi := C.Ite(C.Eq(b0, k8(0xED)), k8(0x9F), k8(0xBF))
		ok := C.And(C.And(C.Ule(lo, b1), C.Ule(b1, hi)), cont(b2))
		if !m.Decide(ok) {
			return bad()
		}
		it.pos += 3
		r := C.BOr(C.BOr(C.Shl(C.BAnd(z(b0), k32(0x0F)), k32(12)), C.Shl(C.BAnd(z(b1), k32(0x3F)), k32(6))), C.BAnd(z(b2), k32(0x3F)))
		return r, 3, true
	}
	// 4-byte
	if m.Decide(inRange(b0, 0xF0, 0xF4)) {
		if avail < 4 {
			return bad()
		}
		b1, b2, b3 := bs[it.pos+1], bs[it.pos+2], bs[it.pos+3]
		lo := C.Ite(C.Eq(b0, k8(0xF0)), k8(0x90), k8(0x80))
		hi := C.Ite(C.Eq(b0, k8(0xF4)), k8(0x8F), k8(0xBF))
		ok := C.And(C.And(C.And(C.Ule(lo, b1), C.Ule(b1, hi)), cont(b2)), cont(b3))
		if !m.Decide(ok) {
			return bad()
		}
		it.pos += 4
		r := C.BOr(C.BOr(C.BOr(C.Shl(C.BAnd(z(b0), k32(0x07)), k32(18)), C.Shl(C.BAnd(z(b1), k32(0x3F)), k32(12))),
			C.Shl(C.BAnd(z(b2), k32(0x3F)), k32(6))), C.BAnd(z(b3), k32(0x3F)))
		return r, 4, true
	}
	return bad()
}

func (it *strIter) next(m *Machine) Value {
	start := it.pos
	r, _, ok := it.decode(m)
	if !ok {
		return Tuple{m.C.False, m.C.Const(64, 0), m.C.Const(32, 0)}
	}
	return Tuple{m.C.True, m.C.Const(64, uint64(start)), r}
}

func (m *Machine) rangeIter(x Value, t types.Type) Value {
	switch x := x.(type) {
	case *MapObj:
		mt := t.Underlying().(*types.Map)
		return &Native{Kind: "iter", Obj: iterator(&mapIter{mp: x, kz: m.zero(mt.Key()), vz: m.zero(mt.Elem())})}
	case Str:
		return &Native{Kind: "iter", Obj: iterator(&strIter{s: x})}
	}
	m.abort(fmt.Sprintf("range over %T", x))
	return nil
}

// ---------- builtins ----------

var sizeClasses = []int{0, 8, 16, 24, 32, 48, 64, 80, 96, 112, 128, 144, 160, 176, 192, 208, 224, 240, 256, 288, 320, 352, 384, 416, 448, 480, 512, 576, 640, 704, 768, 896, 1024, 1152, 1280, 1408, 1536, 1792, 2048, 2304, 2688, 3072, 3200, 3456, 4096, 4864, 5376, 6144, 6528, 6784, 6912, 8192, 9472, 9728, 10240, 10880, 12288, 13568, 14336, 16384, 18432, 19072, 20480, 21760, 24576, 27264, 28672, 32768}

func roundupsize(size int, noscan bool) int {
	reqSize := size
	if !noscan && size > 512 {
		reqSize += 8
	}
	if reqSize <= 32768-8 || (noscan && reqSize <= 32768) {
		for _, c := range sizeClasses {
			if c >= reqSize {
				return c - (reqSize - size)
			}
		}
	}
	// large: round up to page size
	const page = 8192
	return (reqSize + page - 1) / page * page
}

func hasPointers(t types.Type) bool {
	switch t := t.Underlying().(type) {
	case *types.Basic:
		return t.Kind() == types.String || t.Kind() == types.UnsafePointer
	case *types.Struct:
		for i := 0; i < t.NumFields(); i++ {
			if hasPointers(t.Field(i).Type()) {
				return true
			}
		}
		return false
	case *types.Array:
		return hasPointers(t.Elem())
	}
	return true
}

// growCap mirrors runtime.growslice (Go 1.22/1.23) so that append aliasing is exact.
func (m *Machine) growCap(oldCap, newLen int, elem types.Type) int {
	newcap := oldCap
	doublecap := newcap + newcap
	if newLen > doublecap {
		newcap = newLen
	} else if oldCap < 256 {
		newcap = doublecap
	} else {
		for {
			newcap += (newcap + 3*256) >> 2
			if newcap >= newLen {
				break
			}
		}
	}
	es := int(m.P.Sizes.Sizeof(elem))
	if es == 0 {
		return newcap
	}
	mem := roundupsize(newcap*es, !hasPointers(elem))
	return mem / es
}

func (m *Machine) callBuiltin(caller *frame, fn *ssa.Builtin, args []Value) Value {
	C := m.C
	switch fn.Name() {
	case "append":
		sl := args[0].(Slice)
		var add []Value
		switch a := args[1].(type) {
		case Slice:
			add = a.A
		case Str:
			for _, b := range m.strBytes(a) {
				add = append(add, b)
			}
		default:
			m.abort("append: bad arg")
		}
		if len(add) == 0 {
			return sl
		}
		n := len(sl.A)
		if n+len(add) <= cap(sl.A) {
			out := sl.A[:n+len(add)]
			for i, v := range add {
				out[n+i] = copyVal(v)
			}
			return Slice{A: out}
		}
		var elem types.Type
		if st, ok := fn.Type().(*types.Signature); ok && st.Params().Len() > 0 {
			elem = st.Params().At(0).Type().Underlying().(*types.Slice).Elem()
		}
		nc := n + len(add)
		if elem != nil {
			nc = m.growCap(cap(sl.A), n+len(add), elem)
		}
		out := make([]Value, n+len(add), nc)
		for i, v := range sl.A {
			out[i] = copyVal(v)
		}
		for i, v := range add {
			out[n+i] = copyVal(v)
		}
		if elem != nil {
			ext := out[:nc]
			for i := n + len(add); i < nc; i++ {
				ext[i] = m.zero(elem)
			}
		}
		return Slice{A: out}
	case "copy":
		dst := args[0].(Slice)
		var src []Value
		switch a := args[1].(type) {
		case Slice:
			src = a.A
		case Str:
			for _, b := range m.strBytes(a) {
				src = append(src, b)
			}
		}
		n := len(dst.A)
		if len(src) < n {
			n = len(src)
		}
		tmp := make([]Value, n)
		for i := 0; i < n; i++ {
			tmp[i] = copyVal(src[i])
		}
		for i := 0; i < n; i++ {
			storeInto(&dst.A[i], tmp[i])
		}
		return C.Const(64, uint64(n))
	case "len":
		switch x := args[0].(type) {
		case Str:
			return C.Const(64, uint64(x.Len()))
		case Slice:
			return C.Const(64, uint64(len(x.A)))
		case Array:
			return C.Const(64, uint64(len(x)))
		case *MapObj:
			if x == nil {
				return C.Const(64, 0)
			}
			return C.Const(64, uint64(x.n))
		case *ChanObj:
			if x == nil {
				return C.Const(64, 0)
			}
			return C.Const(64, uint64(len(x.buf)))
		case *Value:
			return C.Const(64, uint64(len((*x).(Array))))
		}
	case "cap":
		switch x := args[0].(type) {
		case Slice:
			return C.Const(64, uint64(cap(x.A)))
		case Array:
			return C.Const(64, uint64(len(x)))
		case *ChanObj:
			if x == nil {
				return C.Const(64, 0)
			}
			return C.Const(64, uint64(x.cap))
		case *Value:
			return C.Const(64, uint64(len((*x).(Array))))
		}
	case "delete":
		mp, _ := args[0].(*MapObj)
		m.mapDelete(mp, args[1])
		return nil
	case "clear":
		switch x := args[0].(type) {
		case *MapObj:
			if x != nil {
				for _, e := range x.entries {
					e.deleted = true
				}
				x.n, x.symbolic = 0, 0
				x.idx = map[string]*mapEntry{}
			}
		default:
			m.abort("clear on non-map unsupported")
		}
		return nil
	case "close":
		m.chanClose(args[0].(*ChanObj))
		return nil
	case "print", "println":
		return nil
	case "panic":
		panic(targetPanic{args[0]})
	case "recover":
		return m.doRecover(caller)
	case "min", "max":
		isMin := fn.Name() == "min"
		var pt types.Type
		if st, ok := fn.Type().(*types.Signature); ok && st.Params().Len() > 0 {
			pt = st.Params().At(0).Type()
		}
		acc := args[0]
		for _, b := range args[1:] {
			var lt *term.T
			if isMin {
				lt = m.binop(token.LSS, pt, b, acc, pt).(*term.T)
			} else {
				lt = m.binop(token.GTR, pt, b, acc, pt).(*term.T)
			}
			switch x := acc.(type) {
			case *term.T:
				acc = C.Ite(lt, b.(*term.T), x)
			default:
				if m.Decide(lt) {
					acc = b
				}
			}
		}
		return acc
	case "ssa:wrapnilchk":
		if p, ok := args[0].(*Value); ok && p == nil {
			m.throw("value method called using nil pointer")
		}
		return args[0]
	}
	m.abort("unsupported builtin " + fn.Name())
	return nil
}

func (m *Machine) doRecover(caller *frame) Value {
	if caller != nil && !caller.panicking && caller.caller != nil && caller.caller.panicking {
		caller.caller.panicking = false
		p := caller.caller.panicVal
		caller.caller.panicVal = nil
		if tp, ok := p.(targetPanic); ok {
			if iv, ok := tp.v.(Iface); ok {
				return iv
			}
			return Iface{T: types.Typ[types.String], V: tp.v}
		}
	}
	return Iface{}
}
