package gosx

import (
	"fmt"
	"regexp"
	"go/types"
	"math"
	"strconv"
	"strings"

	"golang.org/x/tools/go/ssa"

	"verif/engine/term"
)

// Intrinsic replaces the body of a function.
type Intrinsic func(m *Machine, caller *frame, fn *ssa.Function, args []Value) Value

type fmtError struct{ msg string }

const vpkg = "github.com/cube2222/octosql/zzverif."

func funcKey(fn *ssa.Function) string {
	if o := fn.Origin(); o != nil {
		return o.String()
	}
	return fn.String()
}

func (p *Program) intrinsicFor(fn *ssa.Function) Intrinsic {
	p.mu.Lock()
	defer p.mu.Unlock()
	if p.intrKnown == nil {
		p.intrKnown = map[*ssa.Function]bool{}
		p.intrCache = map[*ssa.Function]Intrinsic{}
	}
	if p.intrKnown[fn] {
		return p.intrCache[fn]
	}
	p.intrKnown[fn] = true
	in := intrinsics[funcKey(fn)]
	if in == nil && fn.Blocks == nil && fn.Pkg != nil {
		// bodyless function of a known-harmless kind?
		if strings.HasPrefix(funcKey(fn), "runtime.") || strings.HasPrefix(funcKey(fn), "internal/") {
			in = nil
		}
	}
	p.intrCache[fn] = in
	return in
}

func (m *Machine) nativeMethod(n *Native, t types.Type, meth *types.Func) Value { return nil }

func tT(v Value) *term.T { return v.(*term.T) }

func (m *Machine) concStr(v Value, what string) string {
	s := v.(Str)
	if s.B != nil {
		ns := normStr(s.B)
		if ns.B != nil {
			m.abort("unsupported: symbolic string in " + what)
		}
		return ns.S
	}
	return s.S
}

func (m *Machine) mkBool(b bool) *term.T { return m.C.Bool(b) }
func (m *Machine) mkInt(i int64) *term.T { return m.C.Const(64, uint64(i)) }

var intrinsics map[string]Intrinsic

func init() {
	intrinsics = map[string]Intrinsic{
		// ---- harness primitives ----
		vpkg + "Int64":   func(m *Machine, _ *frame, _ *ssa.Function, a []Value) Value { return m.ND(m.concStr(a[0], "nd name"), 64) },
		vpkg + "Int":     func(m *Machine, _ *frame, _ *ssa.Function, a []Value) Value { return m.ND(m.concStr(a[0], "nd name"), 64) },
		vpkg + "Uint64":  func(m *Machine, _ *frame, _ *ssa.Function, a []Value) Value { return m.ND(m.concStr(a[0], "nd name"), 64) },
		vpkg + "Int32":   func(m *Machine, _ *frame, _ *ssa.Function, a []Value) Value { return m.ND(m.concStr(a[0], "nd name"), 32) },
		vpkg + "Byte":    func(m *Machine, _ *frame, _ *ssa.Function, a []Value) Value { return m.ND(m.concStr(a[0], "nd name"), 8) },
		vpkg + "Bool":    func(m *Machine, _ *frame, _ *ssa.Function, a []Value) Value { return m.ND(m.concStr(a[0], "nd name"), 0) },
		vpkg + "Float64": func(m *Machine, _ *frame, _ *ssa.Function, a []Value) Value { return m.ND(m.concStr(a[0], "nd name"), 64) },
		vpkg + "Choice": func(m *Machine, _ *frame, _ *ssa.Function, a []Value) Value {
			n := m.concInt(tT(a[1]), 1<<20)
			return m.mkInt(int64(m.Choose(m.concStr(a[0], "choice name"), n)))
		},
		vpkg + "Assume": func(m *Machine, _ *frame, _ *ssa.Function, a []Value) Value { m.Assume(tT(a[0])); return nil },
		vpkg + "Assert": func(m *Machine, _ *frame, _ *ssa.Function, a []Value) Value {
			m.Assert(tT(a[0]), m.concStr(a[1], "assert tag"))
			return nil
		},
		vpkg + "Reach": func(m *Machine, _ *frame, _ *ssa.Function, a []Value) Value { m.Reach(m.concStr(a[0], "reach tag")); return nil },
		vpkg + "Known": func(m *Machine, _ *frame, _ *ssa.Function, a []Value) Value {
			m.Known(m.concStr(a[0], "known id"), tT(a[1]))
			return nil
		},
		vpkg + "Param": func(m *Machine, _ *frame, _ *ssa.Function, a []Value) Value {
			name := m.concStr(a[0], "param name")
			v, ok := m.Params[name]
			if !ok {
				m.abort("missing harness parameter " + name)
			}
			return m.mkInt(int64(v))
		},
		vpkg + "ParamOr": func(m *Machine, _ *frame, _ *ssa.Function, a []Value) Value {
			if v, ok := m.Params[m.concStr(a[0], "param name")]; ok {
				return m.mkInt(int64(v))
			}
			return a[1]
		},
		vpkg + "IteInt64":  iteIntr,
		vpkg + "IteInt":    iteIntr,
		vpkg + "IteUint64": iteIntr,
		vpkg + "IteBool":   iteIntr,
		vpkg + "IteByte":   iteIntr,
		vpkg + "IteFloat64": iteIntr,
		vpkg + "And": func(m *Machine, _ *frame, _ *ssa.Function, a []Value) Value { return m.C.And(tT(a[0]), tT(a[1])) },
		vpkg + "Or":  func(m *Machine, _ *frame, _ *ssa.Function, a []Value) Value { return m.C.Or(tT(a[0]), tT(a[1])) },
		vpkg + "Not": func(m *Machine, _ *frame, _ *ssa.Function, a []Value) Value { return m.C.Not(tT(a[0])) },
		vpkg + "Implies": func(m *Machine, _ *frame, _ *ssa.Function, a []Value) Value {
			return m.C.Implies(tT(a[0]), tT(a[1]))
		},
		vpkg + "StrEq":   func(m *Machine, _ *frame, _ *ssa.Function, a []Value) Value { return m.strEq(a[0].(Str), a[1].(Str)) },
		vpkg + "StrLess": func(m *Machine, _ *frame, _ *ssa.Function, a []Value) Value { return m.strLess(a[0].(Str), a[1].(Str)) },
		vpkg + "Observe": func(m *Machine, _ *frame, _ *ssa.Function, a []Value) Value { return nil },
		vpkg + "FixedSchedule": func(m *Machine, _ *frame, _ *ssa.Function, a []Value) Value {
			m.fixedSchedule = tT(a[0]).Val != 0
			return nil
		},
		vpkg + "LastRegexpSource": func(m *Machine, _ *frame, _ *ssa.Function, a []Value) Value {
			if p, ok := m.natives["regexp.lastPattern"].(Str); ok {
				return p
			}
			return Str{}
		},
		vpkg + "LastRegexpSubject": func(m *Machine, _ *frame, _ *ssa.Function, a []Value) Value {
			if p, ok := m.natives["regexp.lastSubject"].(Str); ok {
				return p
			}
			return Str{}
		},
		vpkg + "Setenv": func(m *Machine, _ *frame, _ *ssa.Function, a []Value) Value {
			env, _ := m.natives["env"].(map[string]Str)
			if env == nil {
				env = map[string]Str{}
				m.natives["env"] = env
			}
			env[m.concStr(a[0], "Setenv key")] = a[1].(Str)
			return nil
		},
		"os.LookupEnv": func(m *Machine, _ *frame, _ *ssa.Function, a []Value) Value {
			env, _ := m.natives["env"].(map[string]Str)
			v, ok := env[m.concStr(a[0], "LookupEnv key")]
			return Tuple{v, m.C.Bool(ok)}
		},
		"os.Getenv": func(m *Machine, _ *frame, _ *ssa.Function, a []Value) Value {
			env, _ := m.natives["env"].(map[string]Str)
			return env[m.concStr(a[0], "Getenv key")]
		},
		"os.ReadDir": func(m *Machine, caller *frame, fn *ssa.Function, a []Value) Value {
			zp := m.P.Prog.ImportedPackage("github.com/cube2222/octosql/zzverif")
			if zp == nil || zp.Var("ReadDirFn") == nil || zp.Type("FakeDirEntry") == nil {
				m.abort("unsupported: os.ReadDir without the zzverif bridge")
			}
			f := *m.global(zp.Var("ReadDirFn"))
			if isNilFunc(f) || f == nil {
				m.abort("unsupported: os.ReadDir with zzverif.ReadDirFn unset")
			}
			res := m.call(caller, f, []Value{a[0]}).(Tuple)
			names, dirs, exists := res[0].(Slice), tT(res[1]), tT(res[2])
			if !m.Decide(exists) {
				e := m.mkError("open: no such file or directory")
				m.natives["os.notexist"] = e.(Iface).V
				return Tuple{Slice{}, e}
			}
			et := zp.Type("FakeDirEntry").Type()
			out := make([]Value, len(names.A))
			for i, n := range names.A {
				out[i] = Iface{T: et, V: Struct{n, dirs}}
			}
			return Tuple{Slice{A: out}, Iface{}}
		},
		"os.IsNotExist": func(m *Machine, _ *frame, _ *ssa.Function, a []Value) Value {
			iv, _ := a[0].(Iface)
			mark, ok := m.natives["os.notexist"]
			return m.C.Bool(ok && iv.T != nil && iv.V == mark)
		},
		vpkg + "SetStdin": func(m *Machine, _ *frame, _ *ssa.Function, a []Value) Value {
			m.natives["stdin"] = sliceBytes(a[0].(Slice))
			delete(m.natives, "stdin.err")
			return nil
		},
		vpkg + "SetStdinLateEOF": func(m *Machine, _ *frame, _ *ssa.Function, a []Value) Value {
			m.natives["stdin"] = sliceBytes(a[0].(Slice))
			delete(m.natives, "stdin.err")
			return nil
		},
		vpkg + "stdinFail": func(m *Machine, _ *frame, _ *ssa.Function, a []Value) Value {
			m.natives["stdin"] = sliceBytes(a[0].(Slice))
			m.natives["stdin.err"] = a[1]
			return nil
		},
		// (*os.File).Read: only standard input exists under the engine; it serves the bytes given to
		// zzverif.SetStdin (nothing = immediate EOF). With harness parameter STDIN_CHUNKS=1 every
		// read returns an arbitrary non-empty prefix of what fits (forked), otherwise all that fits.
		"(*os.File).Read": func(m *Machine, _ *frame, _ *ssa.Function, a []Value) Value {
			buf, _ := m.natives["stdin"].([]*term.T)
			dst := a[1].(Slice)
			if e, failing := m.natives["stdin.err"]; failing && len(buf) == 0 {
				return Tuple{m.mkInt(0), e.(Value)}
			}
			if len(buf) == 0 {
				eof := Value(Iface{})
				if iop := m.P.Prog.ImportedPackage("io"); iop != nil && iop.Var("EOF") != nil {
					eof = *m.global(iop.Var("EOF"))
				}
				return Tuple{m.mkInt(0), eof}
			}
			n := len(buf)
			if len(dst.A) < n {
				n = len(dst.A)
			}
			if n == 0 {
				return Tuple{m.mkInt(0), Iface{}}
			}
			if m.Params["STDIN_CHUNKS"] == 1 && n > 1 {
				n = 1 + m.Choose("stdin.chunk", n)
			}
			for i := 0; i < n; i++ {
				dst.A[i] = buf[i]
			}
			m.natives["stdin"] = buf[n:]
			return Tuple{m.mkInt(int64(n)), Iface{}}
		},
		// ---- HTTP GET + JSON decode bridge (plugin manifests, C28) ----
		// http.NewRequest records the URL; (*http.Client).Do hands it to zzverif.HTTPDo, which builds
		// the response from the harness hook zzverif.HTTPGetFn; json.NewDecoder(r).Decode(v) hands v
		// to zzverif.JSONDecode -> harness hook zzverif.JSONDecodeFn (encoding/json is reflection).
		"net/http.NewRequest": func(m *Machine, _ *frame, fn *ssa.Function, a []Value) Value {
			m.natives["http.url"] = a[1]
			return Tuple{m.zero(fn.Signature.Results().At(0).Type()), Iface{}}
		},
		"(*net/http.Request).WithContext": func(m *Machine, _ *frame, _ *ssa.Function, a []Value) Value { return a[0] },
		"(*net/http.Client).Do": func(m *Machine, caller *frame, _ *ssa.Function, a []Value) Value {
			u, ok := m.natives["http.url"].(Value)
			if !ok {
				m.abort("unsupported: http.Client.Do without http.NewRequest")
			}
			zp := m.P.Prog.ImportedPackage("github.com/cube2222/octosql/zzverif/zznet")
			if zp == nil || zp.Func("HTTPDo") == nil {
				m.abort("unsupported: net/http without the zzverif/zznet bridge")
			}
			return m.runBody(caller, zp.Func("HTTPDo"), []Value{u}, nil)
		},
		"encoding/json.NewDecoder": func(m *Machine, caller *frame, _ *ssa.Function, a []Value) Value {
			return m.callZZ(caller, "NewJSONDecoder", nil)
		},
		"(*encoding/json.Decoder).Decode": func(m *Machine, caller *frame, _ *ssa.Function, a []Value) Value {
			return m.callZZ(caller, "JSONDecode", []Value{a[1]})
		},
		"encoding/json.Marshal": func(m *Machine, caller *frame, _ *ssa.Function, a []Value) Value {
			return m.callZZ(caller, "JSONMarshal", []Value{a[0]})
		},
		"encoding/json.Unmarshal": func(m *Machine, caller *frame, _ *ssa.Function, a []Value) Value {
			return m.callZZ(caller, "JSONUnmarshal", []Value{a[0], a[1]})
		},
		"os.RemoveAll": func(m *Machine, _ *frame, _ *ssa.Function, a []Value) Value { return Iface{} },
		"os.MkdirAll": func(m *Machine, caller *frame, _ *ssa.Function, a []Value) Value {
			return m.callZZ(caller, "MkdirAll", []Value{a[0]})
		},
		"context.WithCancel": func(m *Machine, caller *frame, _ *ssa.Function, a []Value) Value {
			return m.callZZ(caller, "WithCancel", a)
		},
		"context.WithValue": func(m *Machine, caller *frame, _ *ssa.Function, a []Value) Value {
			return m.callZZ(caller, "WithValue", a)
		},
		vpkg + "Symbolic": func(m *Machine, _ *frame, _ *ssa.Function, a []Value) Value { return m.C.True },
		vpkg + "F64Lt": func(m *Machine, _ *frame, _ *ssa.Function, a []Value) Value { return m.C.FLt(tT(a[0]), tT(a[1])) },
		vpkg + "F64Eq": func(m *Machine, _ *frame, _ *ssa.Function, a []Value) Value { return m.C.FEq(tT(a[0]), tT(a[1])) },
		vpkg + "F64IsNaN": func(m *Machine, _ *frame, _ *ssa.Function, a []Value) Value { return m.C.FIsNaN(tT(a[0])) },

		// ---- math ----
		"math.Float64bits":     func(m *Machine, _ *frame, _ *ssa.Function, a []Value) Value { return a[0] },
		"math.Float64frombits": func(m *Machine, _ *frame, _ *ssa.Function, a []Value) Value { return a[0] },
		"math.Float32bits":     func(m *Machine, _ *frame, _ *ssa.Function, a []Value) Value { return a[0] },
		"math.Float32frombits": func(m *Machine, _ *frame, _ *ssa.Function, a []Value) Value { return a[0] },
		"math.Abs":             func(m *Machine, _ *frame, _ *ssa.Function, a []Value) Value { return m.C.FAbs(tT(a[0])) },
		"math.Sqrt":            func(m *Machine, _ *frame, _ *ssa.Function, a []Value) Value { return m.C.FSqrt(tT(a[0])) },
		"math.sqrt":            func(m *Machine, _ *frame, _ *ssa.Function, a []Value) Value { return m.C.FSqrt(tT(a[0])) },
		"math.Floor":           func(m *Machine, _ *frame, _ *ssa.Function, a []Value) Value { return m.C.FRound(tT(a[0]), 0) },
		"math.Ceil":            func(m *Machine, _ *frame, _ *ssa.Function, a []Value) Value { return m.C.FRound(tT(a[0]), 1) },
		"math.Trunc":           func(m *Machine, _ *frame, _ *ssa.Function, a []Value) Value { return m.C.FRound(tT(a[0]), 2) },
		"math.IsNaN":           func(m *Machine, _ *frame, _ *ssa.Function, a []Value) Value { return m.C.FIsNaN(tT(a[0])) },
		"math.Log":             ufMath("math.Log", math.Log),
		"math.Log2":            ufMath("math.Log2", math.Log2),
		"math.Log10":           ufMath("math.Log10", math.Log10),
		"math.Exp":             ufMath("math.Exp", math.Exp),
		"math.Pow": func(m *Machine, _ *frame, _ *ssa.Function, a []Value) Value {
			x, y := tT(a[0]), tT(a[1])
			if x.IsConst() && y.IsConst() {
				return m.C.Const(64, math.Float64bits(math.Pow(math.Float64frombits(x.Val), math.Float64frombits(y.Val))))
			}
			return m.C.UF("math.Pow", 64, x, y)
		},

		// ---- sync (cooperative scheduler: locks are no-ops) ----
		"(*sync.Mutex).Lock":      nop,
		"(*sync.Mutex).Unlock":    nop,
		"(*sync.Mutex).TryLock":   func(m *Machine, _ *frame, _ *ssa.Function, a []Value) Value { return m.C.True },
		"(*sync.RWMutex).Lock":    nop,
		"(*sync.RWMutex).Unlock":  nop,
		"(*sync.RWMutex).RLock":   nop,
		"(*sync.RWMutex).RUnlock": nop,
		"(*sync.Once).Do": func(m *Machine, caller *frame, _ *ssa.Function, a []Value) Value {
			p := a[0].(*Value)
			st := (*p).(Struct)
			// field 0 is `done` (atomic.Uint32 struct or uint32 depending on Go version)
			doneCell := &st[0]
			isDone := false
			switch d := (*doneCell).(type) {
			case *term.T:
				isDone = d.Val != 0
			case Struct:
				isDone = d[len(d)-1].(*term.T).Val != 0
			}
			if !isDone {
				switch d := (*doneCell).(type) {
				case *term.T:
					*doneCell = m.C.Const(d.W, 1)
				case Struct:
					d[len(d)-1] = m.C.Const(d[len(d)-1].(*term.T).W, 1)
				}
				m.call(caller, a[1], nil)
			}
			return nil
		},
		"(*sync.WaitGroup).Add": func(m *Machine, _ *frame, _ *ssa.Function, a []Value) Value {
			c := m.wgCounter(a[0])
			*c += int(tT(a[1]).Int())
			if *c < 0 {
				m.throw("sync: negative WaitGroup counter")
			}
			return nil
		},
		"(*sync.WaitGroup).Done": func(m *Machine, _ *frame, _ *ssa.Function, a []Value) Value {
			c := m.wgCounter(a[0])
			*c--
			if *c < 0 {
				m.throw("sync: negative WaitGroup counter")
			}
			return nil
		},
		"(*sync.WaitGroup).Wait": func(m *Machine, _ *frame, _ *ssa.Function, a []Value) Value {
			c := m.wgCounter(a[0])
			m.block(func() bool { return *c == 0 })
			return nil
		},
		"(*sync.Pool).Get": func(m *Machine, caller *frame, _ *ssa.Function, a []Value) Value {
			st := (*a[0].(*Value)).(Struct)
			newFn := st[len(st)-1]
			if isNilFunc(newFn) || newFn == nil {
				return Iface{}
			}
			return m.call(caller, newFn, nil)
		},
		"(*sync.Pool).Put": nop,
		// uilive (terminal repainting): a writer that discards
		"github.com/gosuri/uilive.New": func(m *Machine, _ *frame, fn *ssa.Function, a []Value) Value {
			cell := new(Value)
			*cell = m.zero(deref(fn.Signature.Results().At(0).Type()))
			return cell
		},
		"(*github.com/gosuri/uilive.Writer).Flush": func(m *Machine, _ *frame, fn *ssa.Function, a []Value) Value { return Iface{} },
		"(*github.com/gosuri/uilive.Writer).Start": nop,
		"(*github.com/gosuri/uilive.Writer).Stop":  nop,
		"(*github.com/gosuri/uilive.Writer).Write": func(m *Machine, _ *frame, fn *ssa.Function, a []Value) Value {
			return Tuple{m.mkInt(int64(len(a[1].(Slice).A))), Iface{}}
		},
		"runtime.Callers": func(m *Machine, _ *frame, _ *ssa.Function, a []Value) Value { return m.mkInt(0) },
		"runtime.Caller": func(m *Machine, _ *frame, fn *ssa.Function, a []Value) Value { return m.zeroResults(fn) },
		// regexp: native bridge for concrete patterns; the pattern string (possibly symbolic) is kept
		// so that harnesses can inspect the regex source the code under test builds.
		"regexp.Compile": func(m *Machine, _ *frame, fn *ssa.Function, a []Value) Value {
			p, err := m.regexpObj(a[0].(Str))
			if err != nil {
				return Tuple{(*Value)(nil), m.mkError(err.Error())}
			}
			return Tuple{p, Iface{}}
		},
		"regexp.MustCompile": func(m *Machine, _ *frame, fn *ssa.Function, a []Value) Value {
			p, err := m.regexpObj(a[0].(Str))
			if err != nil {
				panic(targetPanic{Iface{T: types.Typ[types.String], V: Str{S: "regexp: Compile: " + err.Error()}}})
			}
			return p
		},
		"(*regexp.Regexp).MatchString": func(m *Machine, _ *frame, fn *ssa.Function, a []Value) Value {
			re := m.regexpOf(a[0])
			subj := a[1].(Str)
			if ns := normStr(m.strBytes(subj)); ns.B == nil && re.re != nil {
				return m.C.Bool(re.re.MatchString(ns.S))
			}
			// symbolic pattern or subject: the regexp engine is outside the encoding; the result is
			// an arbitrary Boolean (harnesses inspect the pattern/subject through zzverif.LastRegexp*)
			m.natives["regexp.lastSubject"] = subj
			return m.ND("regexp.match", 0)
		},
		"(*regexp.Regexp).FindStringSubmatch": func(m *Machine, _ *frame, fn *ssa.Function, a []Value) Value {
			re := m.regexpOf(a[0])
			subj := normStr(m.strBytes(a[1].(Str)))
			if subj.B != nil || re.re == nil {
				m.abort("unsupported: regexp FindStringSubmatch with symbolic pattern or subject")
			}
			return strSlice(re.re.FindStringSubmatch(subj.S))
		},
		"(*regexp.Regexp).FindAllString": func(m *Machine, _ *frame, fn *ssa.Function, a []Value) Value {
			re := m.regexpOf(a[0])
			subj := normStr(m.strBytes(a[1].(Str)))
			if subj.B != nil || re.re == nil {
				m.abort("unsupported: regexp FindAllString with symbolic pattern or subject")
			}
			return strSlice(re.re.FindAllString(subj.S, int(tT(a[2]).Int())))
		},
		"(*regexp.Regexp).FindAllStringSubmatch": func(m *Machine, _ *frame, fn *ssa.Function, a []Value) Value {
			re := m.regexpOf(a[0])
			subj := normStr(m.strBytes(a[1].(Str)))
			if subj.B != nil || re.re == nil {
				m.abort("unsupported: regexp FindAllStringSubmatch with symbolic pattern or subject")
			}
			all := re.re.FindAllStringSubmatch(subj.S, int(tT(a[2]).Int()))
			if all == nil {
				return Slice{}
			}
			out := make([]Value, len(all))
			for i, x := range all {
				out[i] = strSlice(x)
			}
			return Slice{A: out}
		},
		"(*regexp.Regexp).FindString": func(m *Machine, _ *frame, fn *ssa.Function, a []Value) Value {
			re := m.regexpOf(a[0])
			subj := normStr(m.strBytes(a[1].(Str)))
			if subj.B != nil || re.re == nil {
				m.abort("unsupported: regexp FindString with symbolic pattern or subject")
			}
			return Str{S: re.re.FindString(subj.S)}
		},
		"(*regexp.Regexp).ReplaceAllString": func(m *Machine, _ *frame, fn *ssa.Function, a []Value) Value {
			re := m.regexpOf(a[0])
			subj, repl := normStr(m.strBytes(a[1].(Str))), normStr(m.strBytes(a[2].(Str)))
			if subj.B != nil || repl.B != nil || re.re == nil {
				m.abort("unsupported: regexp ReplaceAllString with symbolic operands")
			}
			return Str{S: re.re.ReplaceAllString(subj.S, repl.S)}
		},
		"(*regexp.Regexp).String": func(m *Machine, _ *frame, fn *ssa.Function, a []Value) Value { return m.regexpOf(a[0]).src },
		"regexp.QuoteMeta": func(m *Machine, _ *frame, fn *ssa.Function, a []Value) Value {
			in := a[0].(Str)
			if ns := normStr(m.strBytes(in)); ns.B == nil {
				return Str{S: regexp.QuoteMeta(ns.S)}
			}
			var out []*term.T
			for _, b := range m.strBytes(in) {
				special := m.C.False
				for _, c := range []byte(`\.+*?()|[]{}^$`) {
					special = m.C.Or(special, m.C.Eq(b, m.C.Const(8, uint64(c))))
				}
				if m.Decide(special) {
					out = append(out, m.C.Const(8, '\\'))
				}
				out = append(out, b)
			}
			return normStr(out)
		},
		"runtime.GOMAXPROCS": func(m *Machine, _ *frame, _ *ssa.Function, a []Value) Value {
			if v, ok := m.Params["GOMAXPROCS"]; ok {
				return m.mkInt(int64(v))
			}
			return m.mkInt(1)
		},
		"runtime.NumCPU":     func(m *Machine, _ *frame, _ *ssa.Function, a []Value) Value { return m.mkInt(1) },
		"runtime.Gosched":    func(m *Machine, _ *frame, _ *ssa.Function, a []Value) Value { m.yield(); return nil },
		"runtime.KeepAlive":  nop,
		"time.Sleep":         nop,


		// ---- sync/atomic primitives: plain read-modify-write under the cooperative scheduler ----
		"sync/atomic.AddInt32": func(m *Machine, _ *frame, _ *ssa.Function, a []Value) Value {
			p := a[0].(*Value)
			nv := m.C.Add((*p).(*term.T), tT(a[1]))
			*p = nv
			return nv
		},
		"sync/atomic.LoadInt32": func(m *Machine, _ *frame, _ *ssa.Function, a []Value) Value { return *a[0].(*Value) },
		"sync/atomic.StoreInt32": func(m *Machine, _ *frame, _ *ssa.Function, a []Value) Value { *a[0].(*Value) = a[1]; return nil },
		"sync/atomic.SwapInt32": func(m *Machine, _ *frame, _ *ssa.Function, a []Value) Value {
			p := a[0].(*Value)
			old := *p
			*p = a[1]
			return old
		},
		"sync/atomic.CompareAndSwapInt32": func(m *Machine, _ *frame, _ *ssa.Function, a []Value) Value {
			p := a[0].(*Value)
			if m.Decide(m.C.Eq((*p).(*term.T), tT(a[1]))) {
				*p = a[2]
				return m.C.True
			}
			return m.C.False
		},
		"sync/atomic.AddInt64": func(m *Machine, _ *frame, _ *ssa.Function, a []Value) Value {
			p := a[0].(*Value)
			nv := m.C.Add((*p).(*term.T), tT(a[1]))
			*p = nv
			return nv
		},
		"sync/atomic.LoadInt64": func(m *Machine, _ *frame, _ *ssa.Function, a []Value) Value { return *a[0].(*Value) },
		"sync/atomic.StoreInt64": func(m *Machine, _ *frame, _ *ssa.Function, a []Value) Value { *a[0].(*Value) = a[1]; return nil },
		"sync/atomic.SwapInt64": func(m *Machine, _ *frame, _ *ssa.Function, a []Value) Value {
			p := a[0].(*Value)
			old := *p
			*p = a[1]
			return old
		},
		"sync/atomic.CompareAndSwapInt64": func(m *Machine, _ *frame, _ *ssa.Function, a []Value) Value {
			p := a[0].(*Value)
			if m.Decide(m.C.Eq((*p).(*term.T), tT(a[1]))) {
				*p = a[2]
				return m.C.True
			}
			return m.C.False
		},
		"sync/atomic.AddUint32": func(m *Machine, _ *frame, _ *ssa.Function, a []Value) Value {
			p := a[0].(*Value)
			nv := m.C.Add((*p).(*term.T), tT(a[1]))
			*p = nv
			return nv
		},
		"sync/atomic.LoadUint32": func(m *Machine, _ *frame, _ *ssa.Function, a []Value) Value { return *a[0].(*Value) },
		"sync/atomic.StoreUint32": func(m *Machine, _ *frame, _ *ssa.Function, a []Value) Value { *a[0].(*Value) = a[1]; return nil },
		"sync/atomic.SwapUint32": func(m *Machine, _ *frame, _ *ssa.Function, a []Value) Value {
			p := a[0].(*Value)
			old := *p
			*p = a[1]
			return old
		},
		"sync/atomic.CompareAndSwapUint32": func(m *Machine, _ *frame, _ *ssa.Function, a []Value) Value {
			p := a[0].(*Value)
			if m.Decide(m.C.Eq((*p).(*term.T), tT(a[1]))) {
				*p = a[2]
				return m.C.True
			}
			return m.C.False
		},
		"sync/atomic.AddUint64": func(m *Machine, _ *frame, _ *ssa.Function, a []Value) Value {
			p := a[0].(*Value)
			nv := m.C.Add((*p).(*term.T), tT(a[1]))
			*p = nv
			return nv
		},
		"sync/atomic.LoadUint64": func(m *Machine, _ *frame, _ *ssa.Function, a []Value) Value { return *a[0].(*Value) },
		"sync/atomic.StoreUint64": func(m *Machine, _ *frame, _ *ssa.Function, a []Value) Value { *a[0].(*Value) = a[1]; return nil },
		"sync/atomic.SwapUint64": func(m *Machine, _ *frame, _ *ssa.Function, a []Value) Value {
			p := a[0].(*Value)
			old := *p
			*p = a[1]
			return old
		},
		"sync/atomic.CompareAndSwapUint64": func(m *Machine, _ *frame, _ *ssa.Function, a []Value) Value {
			p := a[0].(*Value)
			if m.Decide(m.C.Eq((*p).(*term.T), tT(a[1]))) {
				*p = a[2]
				return m.C.True
			}
			return m.C.False
		},
		"sync/atomic.AddUintptr": func(m *Machine, _ *frame, _ *ssa.Function, a []Value) Value {
			p := a[0].(*Value)
			nv := m.C.Add((*p).(*term.T), tT(a[1]))
			*p = nv
			return nv
		},
		"sync/atomic.LoadUintptr": func(m *Machine, _ *frame, _ *ssa.Function, a []Value) Value { return *a[0].(*Value) },
		"sync/atomic.StoreUintptr": func(m *Machine, _ *frame, _ *ssa.Function, a []Value) Value { *a[0].(*Value) = a[1]; return nil },
		"sync/atomic.SwapUintptr": func(m *Machine, _ *frame, _ *ssa.Function, a []Value) Value {
			p := a[0].(*Value)
			old := *p
			*p = a[1]
			return old
		},
		"sync/atomic.CompareAndSwapUintptr": func(m *Machine, _ *frame, _ *ssa.Function, a []Value) Value {
			p := a[0].(*Value)
			if m.Decide(m.C.Eq((*p).(*term.T), tT(a[1]))) {
				*p = a[2]
				return m.C.True
			}
			return m.C.False
		},
		"sync/atomic.LoadPointer":  func(m *Machine, _ *frame, _ *ssa.Function, a []Value) Value { return *a[0].(*Value) },
		"sync/atomic.StorePointer": func(m *Machine, _ *frame, _ *ssa.Function, a []Value) Value { *a[0].(*Value) = a[1]; return nil },

		// fastjson's unsafe string<->[]byte casts: copies
		"github.com/valyala/fastjson.b2s": func(m *Machine, _ *frame, _ *ssa.Function, a []Value) Value {
			return normStr(sliceBytes(a[0].(Slice)))
		},
		"github.com/valyala/fastjson.s2b": func(m *Machine, _ *frame, _ *ssa.Function, a []Value) Value {
			bs := m.strBytes(a[0].(Str))
			out := make([]Value, len(bs))
			for i, b := range bs {
				out[i] = b
			}
			return Slice{A: out}
		},

		// ---- strings.Builder ----
		"(*strings.Builder).copyCheck": nop,
		"(*strings.Builder).String": func(m *Machine, _ *frame, _ *ssa.Function, a []Value) Value {
			st := (*a[0].(*Value)).(Struct)
			buf := st[1].(Slice)
			bs := make([]*term.T, len(buf.A))
			for i, v := range buf.A {
				bs[i] = v.(*term.T)
			}
			return normStr(bs)
		},
		"(*strings.Builder).grow": func(m *Machine, _ *frame, _ *ssa.Function, a []Value) Value { return nil },
		"(*strings.Builder).Grow": func(m *Machine, _ *frame, _ *ssa.Function, a []Value) Value { return nil },

		// ---- internal/bytealg ----
		"internal/bytealg.IndexByteString": func(m *Machine, _ *frame, _ *ssa.Function, a []Value) Value {
			return m.indexByte(m.strBytes(a[0].(Str)), tT(a[1]))
		},
		"internal/bytealg.IndexByte": func(m *Machine, _ *frame, _ *ssa.Function, a []Value) Value {
			return m.indexByte(sliceBytes(a[0].(Slice)), tT(a[1]))
		},
		"internal/bytealg.CountString": func(m *Machine, _ *frame, _ *ssa.Function, a []Value) Value {
			return m.countByte(m.strBytes(a[0].(Str)), tT(a[1]))
		},
		"internal/bytealg.Count": func(m *Machine, _ *frame, _ *ssa.Function, a []Value) Value {
			return m.countByte(sliceBytes(a[0].(Slice)), tT(a[1]))
		},
		"internal/bytealg.Equal": func(m *Machine, _ *frame, _ *ssa.Function, a []Value) Value {
			return m.strEq(Str{B: sliceBytes(a[0].(Slice))}, Str{B: sliceBytes(a[1].(Slice))})
		},
		"internal/bytealg.Compare": func(m *Machine, _ *frame, _ *ssa.Function, a []Value) Value {
			x, y := Str{B: sliceBytes(a[0].(Slice))}, Str{B: sliceBytes(a[1].(Slice))}
			return m.C.Ite(m.strLess(x, y), m.C.Const(64, ^uint64(0)), m.C.Ite(m.strEq(x, y), m.C.Const(64, 0), m.C.Const(64, 1)))
		},
		"internal/bytealg.IndexString": func(m *Machine, _ *frame, _ *ssa.Function, a []Value) Value {
			return m.indexStr(m.strBytes(a[0].(Str)), m.strBytes(a[1].(Str)))
		},
		"internal/bytealg.Index": func(m *Machine, _ *frame, _ *ssa.Function, a []Value) Value {
			return m.indexStr(sliceBytes(a[0].(Slice)), sliceBytes(a[1].(Slice)))
		},
		"internal/bytealg.MakeNoZero": func(m *Machine, _ *frame, _ *ssa.Function, a []Value) Value {
			n := m.concInt(tT(a[0]), 1<<20)
			out := make([]Value, n)
			for i := range out {
				out[i] = m.C.Const(8, 0)
			}
			return Slice{A: out}
		},
		"internal/bytealg.Cutover": func(m *Machine, _ *frame, _ *ssa.Function, a []Value) Value { return m.mkInt(1 << 30) },
		"strings.Index": func(m *Machine, _ *frame, _ *ssa.Function, a []Value) Value {
			return m.indexStr(m.strBytes(a[0].(Str)), m.strBytes(a[1].(Str)))
		},
		"strings.Compare": func(m *Machine, _ *frame, _ *ssa.Function, a []Value) Value {
			x, y := a[0].(Str), a[1].(Str)
			return m.C.Ite(m.strLess(x, y), m.C.Const(64, ^uint64(0)), m.C.Ite(m.strEq(x, y), m.C.Const(64, 0), m.C.Const(64, 1)))
		},
		"internal/stringslite.Index": func(m *Machine, _ *frame, _ *ssa.Function, a []Value) Value {
			return m.indexStr(m.strBytes(a[0].(Str)), m.strBytes(a[1].(Str)))
		},
		"strings.Repeat": func(m *Machine, _ *frame, _ *ssa.Function, a []Value) Value {
			cnt := tT(a[1])
			if m.Decide(m.C.Slt(cnt, m.C.Const(64, 0))) {
				panic(targetPanic{Iface{T: types.Typ[types.String], V: Str{S: "strings: negative Repeat count"}}})
			}
			n := m.concInt(cnt, 64)
			out := Str{}
			for i := 0; i < n; i++ {
				out = m.strConcat(out, a[0].(Str))
			}
			return out
		},

		"internal/stringslite.Clone": func(m *Machine, _ *frame, _ *ssa.Function, a []Value) Value { return a[0] },
		"strings.Clone":               func(m *Machine, _ *frame, _ *ssa.Function, a []Value) Value { return a[0] },

		// ---- errors ----
		"errors.Is": func(m *Machine, caller *frame, _ *ssa.Function, a []Value) Value { return m.errorsIs(caller, a[0], a[1]) },
		"errors.As": func(m *Machine, caller *frame, _ *ssa.Function, a []Value) Value { return m.errorsAs(caller, a[0], a[1]) },

		// ---- fmt ----
		"fmt.Sprintf": func(m *Machine, caller *frame, _ *ssa.Function, a []Value) Value {
			return m.sprintf(caller, a[0].(Str), a[1].(Slice).A)
		},
		"fmt.Sprint": func(m *Machine, caller *frame, _ *ssa.Function, a []Value) Value {
			return m.sprint(caller, a[0].(Slice).A, false)
		},
		"fmt.Sprintln": func(m *Machine, caller *frame, _ *ssa.Function, a []Value) Value {
			return m.strConcat(m.sprint(caller, a[0].(Slice).A, true), Str{S: "\n"})
		},
		"fmt.Errorf": func(m *Machine, caller *frame, _ *ssa.Function, a []Value) Value {
			return m.errorf(caller, a[0].(Str), a[1].(Slice).A)
		},
		"fmt.Fprintf": func(m *Machine, caller *frame, _ *ssa.Function, a []Value) Value {
			s, _ := m.sprintfCore(caller, m.concStr(a[1], "format string"), a[2].(Slice).A)
			return m.writeTo(caller, a[0], s)
		},
		"fmt.Fprint": func(m *Machine, caller *frame, _ *ssa.Function, a []Value) Value {
			return m.writeTo(caller, a[0], m.sprint(caller, a[1].(Slice).A, false))
		},
		"fmt.Fprintln": func(m *Machine, caller *frame, _ *ssa.Function, a []Value) Value {
			return m.writeTo(caller, a[0], m.strConcat(m.sprint(caller, a[1].(Slice).A, true), Str{S: "\n"}))
		},
		"fmt.Println": func(m *Machine, _ *frame, _ *ssa.Function, a []Value) Value {
			return Tuple{m.mkInt(0), Iface{}}
		},
		"fmt.Printf": func(m *Machine, _ *frame, _ *ssa.Function, a []Value) Value {
			return Tuple{m.mkInt(0), Iface{}}
		},
		"fmt.Print": func(m *Machine, _ *frame, _ *ssa.Function, a []Value) Value {
			return Tuple{m.mkInt(0), Iface{}}
		},
		"log.Printf":   nop,
		"log.Println":  nop,
		"log.Print":    nop,

		// ---- ristretto cache: an association list per cache object. Get returns what the last Set
		// stored under an equal key (a real cache may also miss; the hit is the behaviour that lets
		// two users of one cache interfere, the miss is what the code has to handle anyway and is
		// exercised by every first lookup). Keys are compared with Go's interface equality.
		"github.com/dgraph-io/ristretto.NewCache": func(m *Machine, _ *frame, fn *ssa.Function, a []Value) Value {
			res := fn.Signature.Results()
			cell := new(Value)
			*cell = m.zero(deref(res.At(0).Type()))
			return Tuple{cell, Iface{}}
		},
		"(*github.com/dgraph-io/ristretto.Cache).Get": func(m *Machine, _ *frame, fn *ssa.Function, a []Value) Value {
			entries, _ := m.natives["ristretto"].(map[*Value][][2]Value)
			cell, _ := a[0].(*Value)
			for _, e := range entries[cell] {
				if eq := m.eq(e[0], a[1]); eq.IsConst() && eq.Val != 0 {
					return Tuple{e[1], m.C.True}
				}
			}
			return Tuple{Iface{}, m.C.False}
		},
		"(*github.com/dgraph-io/ristretto.Cache).Set": func(m *Machine, _ *frame, fn *ssa.Function, a []Value) Value {
			entries, _ := m.natives["ristretto"].(map[*Value][][2]Value)
			if entries == nil {
				entries = map[*Value][][2]Value{}
				m.natives["ristretto"] = entries
			}
			cell, _ := a[0].(*Value)
			entries[cell] = append([][2]Value{{a[1], a[2]}}, entries[cell]...)
			return m.C.True
		},

		// ---- zyedidia hashmap: the real code runs, with the user-supplied hash closure replaced by
		// the constant 0. For any hash consistent with the supplied equality (obligation C09) the
		// observable behaviour of the open-addressing map is that of an association list.
		"github.com/zyedidia/generic/hashmap.New": func(m *Machine, caller *frame, fn *ssa.Function, a []Value) Value {
			na := append([]Value(nil), a...)
			na[2] = &Native{Kind: "const-hash", Obj: func(m *Machine, caller *frame, args []Value) Value { return m.C.Const(64, 0) }}
			return m.runBody(caller, fn, na, nil)
		},

		// ---- time.Now: arbitrary non-decreasing instants (wall clock reading, no monotonic part) ----
		"time.Now": func(m *Machine, _ *frame, fn *ssa.Function, a []Value) Value {
			sec := m.ND("time.Now.sec", 64)
			nsec := m.ND("time.Now.nsec", 64)
			C := m.C
			lo, hi := C.Const(64, 1600000000), C.Const(64, 4000000000)
			m.Assume(C.And(C.Sle(lo, sec), C.Slt(sec, hi)))
			m.Assume(C.And(C.Sle(C.Const(64, 0), nsec), C.Slt(nsec, C.Const(64, 1000000000))))
			if prev, ok := m.natives["time.Now.prev"].([2]*term.T); ok {
				m.Assume(C.Or(C.Slt(prev[0], sec), C.And(C.Eq(prev[0], sec), C.Sle(prev[1], nsec))))
			}
			m.natives["time.Now.prev"] = [2]*term.T{sec, nsec}
			var loc Value = (*Value)(nil)
			if tp := m.P.Prog.ImportedPackage("time"); tp != nil {
				if g := tp.Var("localLoc"); g != nil {
					loc = m.global(g)
				}
			}
			return Struct{nsec, C.Add(sec, C.Const(64, 62135596800)), loc}
		},
		"github.com/oklog/ulid/v2.Now":       func(m *Machine, _ *frame, fn *ssa.Function, a []Value) Value { return m.C.Const(64, 1700000000000) },
		"github.com/oklog/ulid/v2.Timestamp": func(m *Machine, _ *frame, fn *ssa.Function, a []Value) Value { return m.C.Const(64, 1700000000000) },
		// ulid.MustNew(ms, entropy): with an entropy source, fresh pairwise distinct identifiers (the
		// library's contract); with a NIL entropy source the identifier is a function of the
		// timestamp alone, and ulid.Now() above is constant: two such identifiers are EQUAL (two
		// calls within one millisecond), which is what the real library gives.
		"github.com/oklog/ulid/v2.MustNew": func(m *Machine, _ *frame, fn *ssa.Function, a []Value) Value {
			if iv, ok := a[1].(Iface); ok && iv.T == nil {
				arr := make(Array, 16)
				for i := range arr {
					arr[i] = m.C.Const(8, 0)
				}
				return arr
			}
			n, _ := m.natives["ulid.counter"].(int)
			n++
			m.natives["ulid.counter"] = n
			arr := make(Array, 16)
			for i := range arr {
				arr[i] = m.C.Const(8, 0)
			}
			arr[14] = m.C.Const(8, uint64(n>>8))
			arr[15] = m.C.Const(8, uint64(n))
			return arr
		},

		// parquet-go's ValueOf(interface{}) goes through reflect; for int64 it is makeValueInt64
		"github.com/segmentio/parquet-go.ValueOf": func(m *Machine, caller *frame, fn *ssa.Function, a []Value) Value {
			iv, ok := a[0].(Iface)
			if ok && iv.T != nil {
				if b, isBasic := iv.T.Underlying().(*types.Basic); isBasic && (b.Kind() == types.Int64 || b.Kind() == types.Int) {
					if mk := fn.Pkg.Func("makeValueInt64"); mk != nil {
						return m.runBody(caller, mk, []Value{iv.V}, nil)
					}
				}
			}
			m.abort("unsupported: parquet.ValueOf of a non-int64 value")
			return nil
		},

		// ---- sort ----
		"sort.Slice":       sortSliceIntr,
		"sort.SliceStable": sortSliceIntr,

		// ---- strconv: concrete fast paths ----
		"strconv.FormatFloat": func(m *Machine, caller *frame, fn *ssa.Function, a []Value) Value {
			f := tT(a[0])
			if !f.IsConst() {
				m.abort("unsupported: FormatFloat of symbolic float")
			}
			return Str{S: strconv.FormatFloat(math.Float64frombits(f.Val), byte(tT(a[1]).Val), int(tT(a[2]).Int()), int(tT(a[3]).Int()))}
		},
	}
}

func nop(m *Machine, _ *frame, _ *ssa.Function, a []Value) Value { return nil }

func iteIntr(m *Machine, _ *frame, _ *ssa.Function, a []Value) Value {
	return m.C.Ite(tT(a[0]), tT(a[1]), tT(a[2]))
}

func ufMath(name string, f func(float64) float64) Intrinsic {
	return func(m *Machine, _ *frame, _ *ssa.Function, a []Value) Value {
		x := tT(a[0])
		if x.IsConst() {
			return m.C.Const(64, math.Float64bits(f(math.Float64frombits(x.Val))))
		}
		return m.C.UF(name, 64, x)
	}
}

func sliceBytes(s Slice) []*term.T {
	out := make([]*term.T, len(s.A))
	for i, v := range s.A {
		out[i] = v.(*term.T)
	}
	return out
}

func (m *Machine) wgCounter(recv Value) *int {
	p := recv.(*Value)
	key := fmt.Sprintf("wg:%p", p)
	if c, ok := m.natives[key]; ok {
		return c.(*int)
	}
	c := new(int)
	m.natives[key] = c
	return c
}

func (m *Machine) indexByte(bs []*term.T, c *term.T) Value {
	for i, b := range bs {
		if m.Decide(m.C.Eq(b, c)) {
			return m.mkInt(int64(i))
		}
	}
	return m.mkInt(-1)
}

func (m *Machine) countByte(bs []*term.T, c *term.T) Value {
	n := m.C.Const(64, 0)
	for _, b := range bs {
		n = m.C.Add(n, m.C.BoolToBV(m.C.Eq(b, c), 64))
	}
	return n
}

func (m *Machine) indexStr(s, sub []*term.T) Value {
	if len(sub) == 0 {
		return m.mkInt(0)
	}
	for i := 0; i+len(sub) <= len(s); i++ {
		c := m.C.True
		for j := range sub {
			c = m.C.And(c, m.C.Eq(s[i+j], sub[j]))
		}
		if m.Decide(c) {
			return m.mkInt(int64(i))
		}
	}
	return m.mkInt(-1)
}

// ---------- errors.Is / errors.As ----------

func (m *Machine) lookupMethodByName(t types.Type, name string) *ssa.Function {
	ms := m.P.Prog.MethodSets.MethodSet(t)
	for i := 0; i < ms.Len(); i++ {
		sel := ms.At(i)
		if sel.Obj().Name() == name {
			return m.P.Prog.MethodValue(sel)
		}
	}
	return nil
}

func (m *Machine) unwrapErr(caller *frame, e Iface) (Iface, []Iface) {
	if e.T == nil {
		return Iface{}, nil
	}
	f := m.lookupMethodByName(e.T, "Unwrap")
	if f == nil {
		return Iface{}, nil
	}
	res := f.Signature.Results()
	if res.Len() != 1 {
		return Iface{}, nil
	}
	r := m.call(caller, f, []Value{e.V})
	switch r := r.(type) {
	case Iface:
		return r, nil
	case Slice:
		var out []Iface
		for _, v := range r.A {
			out = append(out, v.(Iface))
		}
		return Iface{}, out
	}
	return Iface{}, nil
}

func (m *Machine) errorsIs(caller *frame, errV, targetV Value) Value {
	err, _ := errV.(Iface)
	target, _ := targetV.(Iface)
	if err.T == nil || target.T == nil {
		return m.mkBool(err.T == nil && target.T == nil)
	}
	comparable := types.Comparable(target.T)
	var walk func(e Iface) bool
	walk = func(e Iface) bool {
		for e.T != nil {
			if comparable && types.Identical(e.T, target.T) {
				c := m.eq(e.V, target.V)
				if m.Decide(c) {
					return true
				}
			}
			if f := m.lookupMethodByName(e.T, "Is"); f != nil && f.Signature.Params().Len() == 1 {
				r := m.call(caller, f, []Value{e.V, target})
				if b, ok := r.(*term.T); ok && m.Decide(b) {
					return true
				}
			}
			next, multi := m.unwrapErr(caller, e)
			if multi != nil {
				for _, x := range multi {
					if walk(x) {
						return true
					}
				}
				return false
			}
			e = next
		}
		return false
	}
	return m.mkBool(walk(err))
}

func (m *Machine) errorsAs(caller *frame, errV, targetV Value) Value {
	err, _ := errV.(Iface)
	target, _ := targetV.(Iface)
	if target.T == nil {
		m.throw("errors: target cannot be nil")
	}
	pt, ok := target.T.Underlying().(*types.Pointer)
	if !ok {
		m.throw("errors: target must be a non-nil pointer")
	}
	cell := target.V.(*Value)
	want := pt.Elem()
	var walk func(e Iface) bool
	walk = func(e Iface) bool {
		for e.T != nil {
			if it, isI := want.Underlying().(*types.Interface); isI {
				if m.implements(e.T, it) {
					*cell = e
					return true
				}
			} else if types.Identical(e.T, want) {
				storeInto(cell, e.V)
				return true
			}
			next, multi := m.unwrapErr(caller, e)
			if multi != nil {
				for _, x := range multi {
					if walk(x) {
						return true
					}
				}
				return false
			}
			e = next
		}
		return false
	}
	return m.mkBool(walk(err))
}

// ---------- fmt ----------

// render produces a best-effort string for a value boxed in an interface.
func (m *Machine) render(caller *frame, v Value, verb byte) Str {
	iv, ok := v.(Iface)
	if !ok {
		return Str{S: "?"}
	}
	if iv.T == nil {
		return Str{S: "<nil>"}
	}
	if verb != 'd' && verb != 'T' {
		// error / Stringer
		if f := m.lookupMethodByName(iv.T, "Error"); f != nil && f.Signature.Params().Len() == 0 {
			if s, ok := m.call(caller, f, []Value{iv.V}).(Str); ok {
				return s
			}
		}
		if f := m.lookupMethodByName(iv.T, "String"); f != nil && f.Signature.Params().Len() == 0 && f.Signature.Results().Len() == 1 {
			if s, ok := m.call(caller, f, []Value{iv.V}).(Str); ok {
				return s
			}
		}
	}
	if verb == 'T' {
		return Str{S: iv.T.String()}
	}
	switch x := iv.V.(type) {
	case Str:
		if verb == 'q' {
			if x.B == nil {
				return Str{S: strconv.Quote(x.S)}
			}
			return m.strConcat(m.strConcat(Str{S: "\""}, x), Str{S: "\""})
		}
		return x
	case *term.T:
		if !x.IsConst() {
			return Str{S: "<symbolic>"}
		}
		if b := basicOf(iv.T); b != nil {
			switch {
			case b.Info()&types.IsBoolean != 0:
				return Str{S: strconv.FormatBool(x.Val != 0)}
			case b.Info()&types.IsFloat != 0:
				if x.W == 32 {
					return Str{S: strconv.FormatFloat(float64(math.Float32frombits(uint32(x.Val))), 'g', -1, 32)}
				}
				f := math.Float64frombits(x.Val)
				if verb == 'f' {
					return Str{S: strconv.FormatFloat(f, 'f', 6, 64)}
				}
				return Str{S: fmt.Sprint(f)}
			case b.Info()&types.IsUnsigned != 0:
				if verb == 'x' {
					return Str{S: strconv.FormatUint(x.Val, 16)}
				}
				if verb == 'c' {
					return Str{S: string(rune(x.Val))}
				}
				return Str{S: strconv.FormatUint(x.Val, 10)}
			default:
				if verb == 'x' {
					return Str{S: strconv.FormatInt(x.Int(), 16)}
				}
				if verb == 'c' {
					return Str{S: string(rune(x.Int()))}
				}
				return Str{S: strconv.FormatInt(x.Int(), 10)}
			}
		}
	case Slice:
		out := Str{S: "["}
		if st, ok := iv.T.Underlying().(*types.Slice); ok {
			for i, e := range x.A {
				if i > 0 {
					out = m.strConcat(out, Str{S: " "})
				}
				out = m.strConcat(out, m.render(caller, m.boxForRender(st.Elem(), e), verb))
			}
		}
		return m.strConcat(out, Str{S: "]"})
	case *Value:
		if x == nil {
			return Str{S: "<nil>"}
		}
		return Str{S: "0xc000000000"}
	}
	return Str{S: "<" + iv.T.String() + ">"}
}

func (m *Machine) boxForRender(t types.Type, v Value) Value {
	if _, ok := t.Underlying().(*types.Interface); ok {
		return v
	}
	return Iface{T: t, V: v}
}

func (m *Machine) sprint(caller *frame, args []Value, ln bool) Str {
	out := Str{}
	for i, a := range args {
		if i > 0 {
			addSpace := ln
			if !ln {
				// Sprint adds spaces between operands when neither is a string
				_, s1 := args[i-1].(Iface).V.(Str)
				_, s2 := a.(Iface).V.(Str)
				addSpace = !s1 && !s2
			}
			if addSpace {
				out = m.strConcat(out, Str{S: " "})
			}
		}
		out = m.strConcat(out, m.render(caller, a, 'v'))
	}
	return out
}

func (m *Machine) sprintfCore(caller *frame, format string, args []Value) (Str, Value) {
	out := Str{}
	var wrapped Value
	ai := 0
	for i := 0; i < len(format); i++ {
		c := format[i]
		if c != '%' {
			j := i
			for j < len(format) && format[j] != '%' {
				j++
			}
			out = m.strConcat(out, Str{S: format[i:j]})
			i = j - 1
			continue
		}
		i++
		if i >= len(format) {
			out = m.strConcat(out, Str{S: "%!(NOVERB)"})
			break
		}
		// flags / width / precision
		for i < len(format) && strings.IndexByte("+-# 0123456789.", format[i]) >= 0 {
			i++
		}
		if i >= len(format) {
			break
		}
		verb := format[i]
		if verb == '%' {
			out = m.strConcat(out, Str{S: "%"})
			continue
		}
		if ai >= len(args) {
			out = m.strConcat(out, Str{S: "%!" + string(verb) + "(MISSING)"})
			continue
		}
		a := args[ai]
		ai++
		if verb == 'w' {
			wrapped = a
			verb = 'v'
		}
		out = m.strConcat(out, m.render(caller, a, verb))
	}
	return out, wrapped
}

func (m *Machine) sprintf(caller *frame, format Str, args []Value) Value {
	f := m.concStr(format, "format string")
	s, _ := m.sprintfCore(caller, f, args)
	return s
}

func (m *Machine) errorf(caller *frame, format Str, args []Value) Value {
	f := m.concStr(format, "format string")
	s, wrapped := m.sprintfCore(caller, f, args)
	fmtPkg := m.P.Prog.ImportedPackage("fmt")
	if wrapped != nil && fmtPkg != nil {
		if wt := fmtPkg.Type("wrapError"); wt != nil {
			cell := new(Value)
			*cell = Struct{s, wrapped}
			return Iface{T: types.NewPointer(wt.Type()), V: cell}
		}
	}
	errPkg := m.P.Prog.ImportedPackage("errors")
	if errPkg != nil {
		if et := errPkg.Type("errorString"); et != nil {
			cell := new(Value)
			*cell = Struct{s}
			return Iface{T: types.NewPointer(et.Type()), V: cell}
		}
	}
	m.abort("fmt.Errorf: errors package not loaded")
	return nil
}

// ---------- sort.Slice ----------

func sortSliceIntr(m *Machine, caller *frame, _ *ssa.Function, a []Value) Value {
	iv := a[0].(Iface)
	sl, ok := iv.V.(Slice)
	if !ok {
		m.abort("sort.Slice on non-slice")
	}
	less := a[1]
	n := len(sl.A)
	// insertion sort (stable) calling the real less closure; elements are swapped in place
	for i := 1; i < n; i++ {
		for j := i; j > 0; j-- {
			r := m.call(caller, less, []Value{m.mkInt(int64(j)), m.mkInt(int64(j - 1))}).(*term.T)
			if !m.Decide(r) {
				break
			}
			tmp := copyVal(sl.A[j])
			storeInto(&sl.A[j], copyVal(sl.A[j-1]))
			storeInto(&sl.A[j-1], tmp)
		}
	}
	return nil
}

type regexpNative struct {
	src Str
	re  *regexp.Regexp
}

// regexpObj builds the engine-side regexp object; symbolic patterns are kept uncompiled.
func (m *Machine) regexpObj(pat Str) (*Value, error) {
	rn := &regexpNative{src: pat}
	if ns := normStr(m.strBytes(pat)); ns.B == nil {
		re, err := regexp.Compile(ns.S)
		if err != nil {
			return nil, err
		}
		rn.re = re
	}
	m.natives["regexp.lastPattern"] = pat
	cell := new(Value)
	*cell = &Native{Kind: "regexp", Obj: rn}
	return cell, nil
}

func (m *Machine) regexpOf(v Value) *regexpNative {
	p, _ := v.(*Value)
	if p == nil {
		m.throw("invalid memory address or nil pointer dereference")
	}
	n, ok := (*p).(*Native)
	if !ok {
		m.abort("unsupported: regexp object not created through Compile")
	}
	return n.Obj.(*regexpNative)
}

func (m *Machine) mkError(msg string) Value {
	errPkg := m.P.Prog.ImportedPackage("errors")
	if errPkg != nil {
		if et := errPkg.Type("errorString"); et != nil {
			cell := new(Value)
			*cell = Struct{Str{S: msg}}
			return Iface{T: types.NewPointer(et.Type()), V: cell}
		}
	}
	m.abort("errors package not loaded")
	return nil
}

// writeTo calls w.Write([]byte(s)) on an io.Writer held in an interface value.
func (m *Machine) writeTo(caller *frame, w Value, s Str) Value {
	iv, _ := w.(Iface)
	if iv.T == nil {
		m.throw("invalid memory address or nil pointer dereference")
	}
	f := m.lookupMethodByName(iv.T, "Write")
	if f == nil {
		m.abort("fmt.Fprint*: writer has no Write method")
	}
	bs := m.strBytes(s)
	arr := make([]Value, len(bs))
	for i, b := range bs {
		arr[i] = b
	}
	return m.call(caller, f, []Value{iv.V, Slice{A: arr}})
}

func strSlice(ss []string) Value {
	if ss == nil {
		return Slice{}
	}
	out := make([]Value, len(ss))
	for i, x := range ss {
		out[i] = Str{S: x}
	}
	return Slice{A: out}
}

// callZZ calls a bridge function of the zzverif package (interpreted).
func (m *Machine) callZZ(caller *frame, name string, args []Value) Value {
	zp := m.P.Prog.ImportedPackage("github.com/cube2222/octosql/zzverif")
	if zp == nil || zp.Func(name) == nil {
		m.abort("unsupported: zzverif bridge " + name + " missing")
	}
	return m.runBody(caller, zp.Func(name), args, nil)
}
