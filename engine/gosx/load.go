package gosx

import (
	"fmt"
	"go/types"
	"os"
	"path/filepath"
	"strings"

	"golang.org/x/tools/go/packages"
	"golang.org/x/tools/go/ssa"
	"golang.org/x/tools/go/ssa/ssautil"
)

// BuildOverlay maps every file under harnessDir to the same relative path under repoDir.
// Test files are skipped unless withTests is set.
func BuildOverlay(harnessDir, repoDir string, withTests bool) (map[string]string, error) {
	out := map[string]string{}
	err := filepath.Walk(harnessDir, func(p string, info os.FileInfo, err error) error {
		if err != nil {
			return err
		}
		if info.IsDir() || !strings.HasSuffix(p, ".go") {
			return nil
		}
		if strings.HasSuffix(p, "_test.go") && !withTests {
			return nil
		}
		rel, _ := filepath.Rel(harnessDir, p)
		out[filepath.Join(repoDir, rel)] = p
		return nil
	})
	return out, err
}

var denyPrefixes = []string{
	"os", "syscall", "runtime", "reflect", "internal/reflectlite", "internal/poll", "internal/syscall", "net", "crypto",
	"encoding/json", "encoding/gob", "os/exec", "os/signal", "io/ioutil", "io/fs", "log", "testing", "unsafe", "plugin",
	"google.golang.org/grpc", "google.golang.org/protobuf/internal", "google.golang.org/protobuf/reflect", "github.com/spf13", "github.com/dgraph-io/ristretto",
	"flag", "internal/abi", "internal/cpu", "internal/godebug", "internal/testlog", "sync", "context", "regexp", "fmt",
}

func defaultDeny(path string) bool {
	if path == "sync/atomic" {
		return false // typed wrappers are plain Go over the primitives, which are intrinsics
	}
	for _, d := range denyPrefixes {
		if path == d || strings.HasPrefix(path, d+"/") {
			return true
		}
	}
	return false
}

// Load type-checks repoDir (with the overlay) and builds SSA for the listed packages and all
// their dependencies. Everything is regenerated from the working tree on every call.
func Load(repoDir string, overlay map[string]string, patterns []string) (*Program, map[string]*ssa.Package, error) {
	ov := map[string][]byte{}
	for virt, real := range overlay {
		b, err := os.ReadFile(real)
		if err != nil {
			return nil, nil, err
		}
		ov[virt] = b
	}
	cfg := &packages.Config{
		Mode: packages.NeedName | packages.NeedFiles | packages.NeedCompiledGoFiles | packages.NeedImports | packages.NeedDeps |
			packages.NeedTypes | packages.NeedTypesSizes | packages.NeedSyntax | packages.NeedTypesInfo | packages.NeedModule,
		Dir:        repoDir,
		Overlay:    ov,
		BuildFlags: []string{"-tags=verif"},
		Env:        append(os.Environ(), "GOFLAGS=-mod=mod", "GOPROXY=off", "GOSUMDB=off", "GOTOOLCHAIN=local", "CGO_ENABLED=0"),
	}
	pkgs, err := packages.Load(cfg, patterns...)
	if err != nil {
		return nil, nil, err
	}
	var errs []string
	packages.Visit(pkgs, nil, func(p *packages.Package) {
		for _, e := range p.Errors {
			errs = append(errs, e.Error())
		}
	})
	if len(errs) > 0 {
		if len(errs) > 20 {
			errs = errs[:20]
		}
		return nil, nil, fmt.Errorf("load errors:\n%s", strings.Join(errs, "\n"))
	}
	prog, _ := ssautil.AllPackages(pkgs, ssa.InstantiateGenerics)
	prog.Build()
	byPath := map[string]*ssa.Package{}
	for _, p := range prog.AllPackages() {
		byPath[p.Pkg.Path()] = p
	}
	P := &Program{Prog: prog, Sizes: types.SizesFor("gc", "amd64"), InterpDeny: defaultDeny}
	if rt := byPath["runtime"]; rt != nil {
		if t := rt.Type("errorString"); t != nil {
			P.rtErrStr = t.Type()
		}
	}
	return P, byPath, nil
}
