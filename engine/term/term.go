// Package term implements a hash-consed DAG of SMT terms (Bool and BitVec sorts, IEEE-754
// double operations carried as 64-bit patterns) with constant folding, an SMT-LIB2 printer
// and an evaluator (substitution + folding).
package term

import (
	"fmt"
	"math"
	"math/bits"
	"strings"
)

type Op uint8

const (
	OpConst Op = iota
	OpVar
	// Bool results
	OpNot
	OpAnd
	OpOr
	OpEq
	OpUlt
	OpUle
	OpSlt
	OpSle
	OpFLt
	OpFLe
	OpFEq
	OpFIsNaN
	// BV results (or Bool for Ite over Bool)
	OpIte
	OpAdd
	OpSub
	OpMul
	OpUDiv
	OpSDiv
	OpURem
	OpSRem
	OpBAnd
	OpBOr
	OpBXor
	OpBNot
	OpNeg
	OpShl
	OpLShr
	OpAShr
	OpConcat
	OpExtract // P1=hi P2=lo
	OpZExt    // W = new width
	OpSExt
	// FP over BV64
	OpFAdd
	OpFSub
	OpFMul
	OpFDiv
	OpFSqrt
	OpFRound // P1 = mode: 0 floor, 1 ceil, 2 trunc, 3 nearest-even
	OpSIToF  // arg any width, result 64
	OpUIToF
	OpFToSI // result W bits; Go/amd64 semantics
	OpFToUI
	OpUF // uninterpreted function Name(args) -> BV W
)

var opNames = map[Op]string{
	OpNot: "not", OpAnd: "and", OpOr: "or", OpEq: "=", OpUlt: "bvult", OpUle: "bvule", OpSlt: "bvslt", OpSle: "bvsle",
	OpIte: "ite", OpAdd: "bvadd", OpSub: "bvsub", OpMul: "bvmul", OpUDiv: "bvudiv", OpSDiv: "bvsdiv", OpURem: "bvurem",
	OpSRem: "bvsrem", OpBAnd: "bvand", OpBOr: "bvor", OpBXor: "bvxor", OpBNot: "bvnot", OpNeg: "bvneg", OpShl: "bvshl",
	OpLShr: "bvlshr", OpAShr: "bvashr", OpConcat: "concat",
}

// T is a term. W==0 means Bool sort, otherwise a bit-vector of W bits (W<=64).
type T struct {
	Op   Op
	W    int
	P1   int
	P2   int
	Val  uint64
	Name string
	Args []*T
	ID   int
	H    uint64 // structural hash (independent of construction order)
	D    int32  // depth
}

func (t *T) IsConst() bool { return t.Op == OpConst }
func (t *T) IsBool() bool  { return t.W == 0 }

// Int returns the constant value sign-extended.
func (t *T) Int() int64 { return int64(sext(t.Val, t.W)) }

type key struct {
	op         Op
	w, p1, p2  int
	val        uint64
	name       string
	a0, a1, a2 int
}

type Ctx struct {
	// Rep maps a term to an equal (under the current path condition) canonical representative.
	// It is installed per path by the executor; every composite term is built over canonical
	// arguments, so that facts like a=b make f(a) and f(b) the same node.
	Rep   map[*T]*T
	// Ranges holds signed bounds [lo, hi] known (from the current path condition) for
	// bit-vector terms; installed per path by the executor, used for sound simplifications
	// (masking, extract/extend round trips, comparisons against constants).
	Ranges map[*T][2]int64
	table map[key]*T
	All   []*T
	Vars  []*T
	True  *T
	False *T
}

func NewCtx() *Ctx {
	c := &Ctx{table: map[key]*T{}}
	c.False = c.mk(OpConst, 0, 0, 0, 0, "")
	c.True = c.mk(OpConst, 0, 0, 0, 1, "")
	return c
}

func mix(h, v uint64) uint64 {
	h ^= v + 0x9e3779b97f4a7c15 + (h << 6) + (h >> 2)
	h *= 0xff51afd7ed558ccd
	h ^= h >> 33
	return h
}

func commutative(op Op) bool {
	switch op {
	case OpAnd, OpOr, OpEq, OpAdd, OpMul, OpBAnd, OpBOr, OpBXor:
		return true
	}
	return false
}

// Less is a construction-order-independent total preorder used to pick representatives.
func Less(a, b *T) bool {
	if a.IsConst() != b.IsConst() {
		return a.IsConst()
	}
	if a.D != b.D {
		return a.D < b.D
	}
	return a.H < b.H
}

func (c *Ctx) mk(op Op, w, p1, p2 int, val uint64, name string, args ...*T) *T {
	if len(c.Rep) > 0 && len(args) > 0 {
		changed := false
		for _, a := range args {
			if _, ok := c.Rep[a]; ok {
				changed = true
				break
			}
		}
		if changed {
			na := make([]*T, len(args))
			for i, a := range args {
				if r, ok := c.Rep[a]; ok {
					na[i] = r
				} else {
					na[i] = a
				}
			}
			return c.Apply(&T{Op: op, W: w, P1: p1, P2: p2, Val: val, Name: name}, na)
		}
	}
	k := key{op: op, w: w, p1: p1, p2: p2, val: val, name: name, a0: -1, a1: -1, a2: -1}
	if len(args) > 0 {
		k.a0 = args[0].ID
	}
	if len(args) > 1 {
		k.a1 = args[1].ID
	}
	if len(args) > 2 {
		k.a2 = args[2].ID
	}
	if len(args) > 3 {
		// n-ary (UF): fold the remaining ids into name
		var sb strings.Builder
		sb.WriteString(name)
		for _, a := range args[3:] {
			fmt.Fprintf(&sb, ",%d", a.ID)
		}
		k.name = sb.String()
	}
	if t, ok := c.table[k]; ok {
		if r, ok := c.Rep[t]; ok {
			return r
		}
		return t
	}
	t := &T{Op: op, W: w, P1: p1, P2: p2, Val: val, Name: name, ID: len(c.All)}
	h := mix(mix(mix(mix(uint64(op)+1, uint64(w)), uint64(p1)<<8^uint64(p2)), val), 0)
	for i := 0; i < len(name); i++ {
		h = mix(h, uint64(name[i]))
	}
	if len(args) > 0 {
		t.Args = append([]*T(nil), args...)
		if commutative(op) && len(args) == 2 {
			x, y := args[0].H, args[1].H
			if x > y {
				x, y = y, x
			}
			h = mix(mix(h, x), y)
		} else {
			for _, a := range args {
				h = mix(h, a.H)
			}
		}
		for _, a := range args {
			if a.D+1 > t.D {
				t.D = a.D + 1
			}
		}
	}
	t.H = h
	c.table[k] = t
	c.All = append(c.All, t)
	if op == OpVar {
		c.Vars = append(c.Vars, t)
	}
	return t
}

// Canon returns the representative of t under Rep.
func (c *Ctx) Canon(t *T) *T {
	if r, ok := c.Rep[t]; ok {
		return r
	}
	return t
}

func mask(w int) uint64 {
	if w >= 64 {
		return ^uint64(0)
	}
	return (uint64(1) << uint(w)) - 1
}

func sext(v uint64, w int) uint64 {
	if w >= 64 || w == 0 {
		return v
	}
	if v&(1<<uint(w-1)) != 0 {
		return v | ^mask(w)
	}
	return v & mask(w)
}

func (c *Ctx) Bool(b bool) *T {
	if b {
		return c.True
	}
	return c.False
}

func (c *Ctx) Const(w int, v uint64) *T {
	if w == 0 {
		return c.Bool(v != 0)
	}
	return c.mk(OpConst, w, 0, 0, v&mask(w), "")
}

func (c *Ctx) Var(name string, w int) *T { return c.mk(OpVar, w, 0, 0, 0, name) }

func (c *Ctx) Not(a *T) *T {
	if a.IsConst() {
		return c.Bool(a.Val == 0)
	}
	if a.Op == OpNot {
		return a.Args[0]
	}
	return c.mk(OpNot, 0, 0, 0, 0, "", a)
}

func (c *Ctx) And(a, b *T) *T {
	if a.IsConst() {
		if a.Val == 0 {
			return c.False
		}
		return b
	}
	if b.IsConst() {
		if b.Val == 0 {
			return c.False
		}
		return a
	}
	if a == b {
		return a
	}
	if a.ID > b.ID {
		a, b = b, a
	}
	return c.mk(OpAnd, 0, 0, 0, 0, "", a, b)
}

func (c *Ctx) Or(a, b *T) *T {
	if a.IsConst() {
		if a.Val != 0 {
			return c.True
		}
		return b
	}
	if b.IsConst() {
		if b.Val != 0 {
			return c.True
		}
		return a
	}
	if a == b {
		return a
	}
	if a.ID > b.ID {
		a, b = b, a
	}
	return c.mk(OpOr, 0, 0, 0, 0, "", a, b)
}

func (c *Ctx) Implies(a, b *T) *T { return c.Or(c.Not(a), b) }

func (c *Ctx) Eq(a, b *T) *T {
	if a.W != b.W {
		panic(fmt.Sprintf("term.Eq width mismatch %d %d", a.W, b.W))
	}
	if a == b {
		return c.True
	}
	if a.IsConst() && b.IsConst() {
		return c.Bool(a.Val == b.Val)
	}
	if a.W == 0 {
		// boolean equality
		if a.IsConst() {
			if a.Val != 0 {
				return b
			}
			return c.Not(b)
		}
		if b.IsConst() {
			if b.Val != 0 {
				return a
			}
			return c.Not(a)
		}
	}
	// (= (ite c k1 k2) k) simplifications
	if b.IsConst() && a.Op == OpIte && a.Args[1].IsConst() && a.Args[2].IsConst() {
		t1 := a.Args[1].Val == b.Val
		t2 := a.Args[2].Val == b.Val
		switch {
		case t1 && t2:
			return c.True
		case t1:
			return a.Args[0]
		case t2:
			return c.Not(a.Args[0])
		default:
			return c.False
		}
	}
	if a.IsConst() && b.Op == OpIte {
		return c.Eq(b, a)
	}
	if a.ID > b.ID {
		a, b = b, a
	}
	return c.mk(OpEq, 0, 0, 0, 0, "", a, b)
}

func (c *Ctx) cmp(op Op, a, b *T) *T {
	if a.W != b.W || a.W == 0 {
		panic(fmt.Sprintf("term.cmp width mismatch %d %d", a.W, b.W))
	}
	if a.IsConst() && b.IsConst() {
		switch op {
		case OpUlt:
			return c.Bool(a.Val < b.Val)
		case OpUle:
			return c.Bool(a.Val <= b.Val)
		case OpSlt:
			return c.Bool(a.Int() < b.Int())
		case OpSle:
			return c.Bool(a.Int() <= b.Int())
		}
	}
	if a == b {
		return c.Bool(op == OpUle || op == OpSle)
	}
	if len(c.Ranges) > 0 || a.IsConst() || b.IsConst() {
		l1, h1, ok1 := c.rangeOf(a, 0)
		l2, h2, ok2 := c.rangeOf(b, 0)
		if ok1 && ok2 {
			signedOK := op == OpSlt || op == OpSle || (l1 >= 0 && l2 >= 0)
			if signedOK {
				switch op {
				case OpSlt, OpUlt:
					if h1 < l2 {
						return c.True
					}
					if l1 >= h2 {
						return c.False
					}
				case OpSle, OpUle:
					if h1 <= l2 {
						return c.True
					}
					if l1 > h2 {
						return c.False
					}
				}
			}
		}
	}
	return c.mk(op, 0, 0, 0, 0, "", a, b)
}

func (c *Ctx) Ult(a, b *T) *T { return c.cmp(OpUlt, a, b) }
func (c *Ctx) Ule(a, b *T) *T { return c.cmp(OpUle, a, b) }
func (c *Ctx) Slt(a, b *T) *T { return c.cmp(OpSlt, a, b) }
func (c *Ctx) Sle(a, b *T) *T { return c.cmp(OpSle, a, b) }

func (c *Ctx) Ite(cond, a, b *T) *T {
	if a.W != b.W {
		panic("term.Ite width mismatch")
	}
	if cond.IsConst() {
		if cond.Val != 0 {
			return a
		}
		return b
	}
	if a == b {
		return a
	}
	if a.W == 0 && a.IsConst() && b.IsConst() {
		if a.Val != 0 {
			return cond
		}
		return c.Not(cond)
	}
	if cond.Op == OpNot {
		return c.Ite(cond.Args[0], b, a)
	}
	return c.mk(OpIte, a.W, 0, 0, 0, "", cond, a, b)
}

func (c *Ctx) bin(op Op, a, b *T) *T {
	if a.W != b.W || a.W == 0 {
		panic(fmt.Sprintf("term.bin %d width mismatch %d %d", op, a.W, b.W))
	}
	w := a.W
	if a.IsConst() && b.IsConst() {
		x, y := a.Val, b.Val
		var r uint64
		switch op {
		case OpAdd:
			r = x + y
		case OpSub:
			r = x - y
		case OpMul:
			r = x * y
		case OpUDiv:
			if y == 0 {
				r = mask(w)
			} else {
				r = x / y
			}
		case OpURem:
			if y == 0 {
				r = x
			} else {
				r = x % y
			}
		case OpSDiv:
			sx, sy := a.Int(), b.Int()
			if sy == 0 {
				if sx < 0 {
					r = 1
				} else {
					r = mask(w)
				}
			} else if sy == -1 {
				r = uint64(-sx)
			} else {
				r = uint64(sx / sy)
			}
		case OpSRem:
			sx, sy := a.Int(), b.Int()
			if sy == 0 {
				r = x
			} else if sy == -1 {
				r = 0
			} else {
				r = uint64(sx % sy)
			}
		case OpBAnd:
			r = x & y
		case OpBOr:
			r = x | y
		case OpBXor:
			r = x ^ y
		case OpShl:
			if y >= uint64(w) {
				r = 0
			} else {
				r = x << y
			}
		case OpLShr:
			if y >= uint64(w) {
				r = 0
			} else {
				r = x >> y
			}
		case OpAShr:
			sx := a.Int()
			if y >= uint64(w) {
				if sx < 0 {
					r = mask(w)
				} else {
					r = 0
				}
			} else {
				r = uint64(sx >> y)
			}
		}
		return c.Const(w, r)
	}
	// identities
	switch op {
	case OpAdd:
		if a.IsConst() && a.Val == 0 {
			return b
		}
		if b.IsConst() && b.Val == 0 {
			return a
		}
	case OpSub:
		if b.IsConst() && b.Val == 0 {
			return a
		}
		if a == b {
			return c.Const(w, 0)
		}
	case OpMul:
		if a.IsConst() {
			if a.Val == 0 {
				return a
			}
			if a.Val == 1 {
				return b
			}
		}
		if b.IsConst() {
			if b.Val == 0 {
				return b
			}
			if b.Val == 1 {
				return a
			}
		}
	case OpBAnd:
		if a.IsConst() {
			if a.Val == 0 {
				return a
			}
			if a.Val == mask(w) {
				return b
			}
		}
		if b.IsConst() {
			if b.Val == 0 {
				return b
			}
			if b.Val == mask(w) {
				return a
			}
		}
		if a == b {
			return a
		}
		for _, p := range [][2]*T{{a, b}, {b, a}} {
			m, x := p[0], p[1]
			if !m.IsConst() {
				continue
			}
			if lo, hi, ok := c.rangeOf(x, 0); ok && lo >= 0 {
				k := uint(bits.Len64(uint64(hi))) // x < 2^k
				low := mask(int(k))
				if k < 64 && m.Val&low == low { // the mask keeps every bit x can have
					return x
				}
				if k < 64 && m.Val&low == 0 { // the mask keeps none of them
					return c.Const(w, 0)
				}
			}
		}
	case OpBOr:
		if a.IsConst() && a.Val == 0 {
			return b
		}
		if b.IsConst() && b.Val == 0 {
			return a
		}
		if a == b {
			return a
		}
	case OpBXor:
		if a.IsConst() && a.Val == 0 {
			return b
		}
		if b.IsConst() && b.Val == 0 {
			return a
		}
	case OpShl, OpLShr, OpAShr:
		if b.IsConst() && b.Val == 0 {
			return a
		}
	}
	switch op {
	case OpAdd, OpMul, OpBAnd, OpBOr, OpBXor:
		if a.ID > b.ID {
			a, b = b, a
		}
	}
	return c.mk(op, w, 0, 0, 0, "", a, b)
}

func (c *Ctx) Add(a, b *T) *T  { return c.bin(OpAdd, a, b) }
func (c *Ctx) Sub(a, b *T) *T  { return c.bin(OpSub, a, b) }
func (c *Ctx) Mul(a, b *T) *T  { return c.bin(OpMul, a, b) }
func (c *Ctx) UDiv(a, b *T) *T { return c.bin(OpUDiv, a, b) }
func (c *Ctx) SDiv(a, b *T) *T { return c.bin(OpSDiv, a, b) }
func (c *Ctx) URem(a, b *T) *T { return c.bin(OpURem, a, b) }
func (c *Ctx) SRem(a, b *T) *T { return c.bin(OpSRem, a, b) }
func (c *Ctx) BAnd(a, b *T) *T { return c.bin(OpBAnd, a, b) }
func (c *Ctx) BOr(a, b *T) *T  { return c.bin(OpBOr, a, b) }
func (c *Ctx) BXor(a, b *T) *T { return c.bin(OpBXor, a, b) }
func (c *Ctx) Shl(a, b *T) *T  { return c.bin(OpShl, a, b) }
func (c *Ctx) LShr(a, b *T) *T { return c.bin(OpLShr, a, b) }
func (c *Ctx) AShr(a, b *T) *T { return c.bin(OpAShr, a, b) }

func (c *Ctx) BNot(a *T) *T {
	if a.IsConst() {
		return c.Const(a.W, ^a.Val)
	}
	return c.mk(OpBNot, a.W, 0, 0, 0, "", a)
}

func (c *Ctx) Neg(a *T) *T {
	if a.IsConst() {
		return c.Const(a.W, -a.Val)
	}
	return c.mk(OpNeg, a.W, 0, 0, 0, "", a)
}

func (c *Ctx) Concat(hi, lo *T) *T {
	w := hi.W + lo.W
	if w > 64 {
		panic("term.Concat >64 bits")
	}
	if hi.IsConst() && lo.IsConst() {
		return c.Const(w, hi.Val<<uint(lo.W)|lo.Val)
	}
	return c.mk(OpConcat, w, 0, 0, 0, "", hi, lo)
}

func (c *Ctx) Extract(a *T, hi, lo int) *T {
	w := hi - lo + 1
	if lo == 0 && w == a.W {
		return a
	}
	if a.IsConst() {
		return c.Const(w, a.Val>>uint(lo))
	}
	if a.Op == OpZExt || a.Op == OpSExt {
		inner := a.Args[0]
		if hi < inner.W {
			return c.Extract(inner, hi, lo)
		}
	}
	return c.mk(OpExtract, w, hi, lo, 0, "", a)
}

func (c *Ctx) ZExt(a *T, w int) *T {
	if w == a.W {
		return a
	}
	if w < a.W {
		return c.Extract(a, w-1, 0)
	}
	if a.Op == OpExtract && a.P2 == 0 && a.Args[0].W == w {
		if lo, hi, ok := c.rangeOf(a.Args[0], 0); ok && lo >= 0 && a.W < 64 && hi < int64(1)<<uint(a.W) {
			return a.Args[0]
		}
	}
	if a.IsConst() {
		return c.Const(w, a.Val)
	}
	return c.mk(OpZExt, w, 0, 0, 0, "", a)
}

func (c *Ctx) SExt(a *T, w int) *T {
	if w == a.W {
		return a
	}
	if w < a.W {
		return c.Extract(a, w-1, 0)
	}
	if a.Op == OpExtract && a.P2 == 0 && a.Args[0].W == w {
		if lo, hi, ok := c.rangeOf(a.Args[0], 0); ok && fitsSigned(lo, hi, a.W) {
			return a.Args[0]
		}
	}
	// sext(x +/- y) = sext(x) +/- sext(y) when the narrow operation cannot overflow
	if (a.Op == OpAdd || a.Op == OpSub) && len(c.Ranges) > 0 {
		if _, _, ok := c.rangeOf(a, 0); ok { // rangeOf only succeeds for Add/Sub when the result fits
			if _, _, ok1 := c.rangeOf(a.Args[0], 0); ok1 {
				if _, _, ok2 := c.rangeOf(a.Args[1], 0); ok2 {
					if _, direct := c.Ranges[a]; !direct {
						x, y := c.SExt(a.Args[0], w), c.SExt(a.Args[1], w)
						if a.Op == OpAdd {
							return c.Add(x, y)
						}
						return c.Sub(x, y)
					}
				}
			}
		}
	}
	if a.IsConst() {
		return c.Const(w, sext(a.Val, a.W))
	}
	return c.mk(OpSExt, w, 0, 0, 0, "", a)
}

// BoolToBV gives (ite b 1 0) of width w.
func (c *Ctx) BoolToBV(b *T, w int) *T { return c.Ite(b, c.Const(w, 1), c.Const(w, 0)) }

// ---------- floating point (float64 as BV64) ----------

func f(v uint64) float64  { return math.Float64frombits(v) }
func fb(x float64) uint64 { return math.Float64bits(x) }

func (c *Ctx) fbin(op Op, a, b *T) *T {
	if a.W != 64 || b.W != 64 {
		panic("term.fbin: width")
	}
	if a.IsConst() && b.IsConst() {
		x, y := f(a.Val), f(b.Val)
		var r float64
		switch op {
		case OpFAdd:
			r = x + y
		case OpFSub:
			r = x - y
		case OpFMul:
			r = x * y
		case OpFDiv:
			r = x / y
		}
		return c.Const(64, fb(r))
	}
	return c.mk(op, 64, 0, 0, 0, "", a, b)
}
func (c *Ctx) FAdd(a, b *T) *T { return c.fbin(OpFAdd, a, b) }
func (c *Ctx) FSub(a, b *T) *T { return c.fbin(OpFSub, a, b) }
func (c *Ctx) FMul(a, b *T) *T { return c.fbin(OpFMul, a, b) }
func (c *Ctx) FDiv(a, b *T) *T { return c.fbin(OpFDiv, a, b) }
func (c *Ctx) FNeg(a *T) *T    { return c.BXor(a, c.Const(64, 1<<63)) }
func (c *Ctx) FAbs(a *T) *T    { return c.BAnd(a, c.Const(64, ^uint64(1<<63))) }
func (c *Ctx) FSqrt(a *T) *T {
	if a.IsConst() {
		return c.Const(64, fb(math.Sqrt(f(a.Val))))
	}
	return c.mk(OpFSqrt, 64, 0, 0, 0, "", a)
}
func (c *Ctx) FRound(a *T, mode int) *T {
	if a.IsConst() {
		x := f(a.Val)
		switch mode {
		case 0:
			x = math.Floor(x)
		case 1:
			x = math.Ceil(x)
		case 2:
			x = math.Trunc(x)
		case 3:
			x = math.RoundToEven(x)
		}
		return c.Const(64, fb(x))
	}
	return c.mk(OpFRound, 64, mode, 0, 0, "", a)
}
func (c *Ctx) fcmp(op Op, a, b *T) *T {
	if a.IsConst() && b.IsConst() {
		x, y := f(a.Val), f(b.Val)
		switch op {
		case OpFLt:
			return c.Bool(x < y)
		case OpFLe:
			return c.Bool(x <= y)
		case OpFEq:
			return c.Bool(x == y)
		}
	}
	return c.mk(op, 0, 0, 0, 0, "", a, b)
}
func (c *Ctx) FLt(a, b *T) *T { return c.fcmp(OpFLt, a, b) }
func (c *Ctx) FLe(a, b *T) *T { return c.fcmp(OpFLe, a, b) }
func (c *Ctx) FEq(a, b *T) *T { return c.fcmp(OpFEq, a, b) }
func (c *Ctx) FIsNaN(a *T) *T {
	if a.IsConst() {
		return c.Bool(math.IsNaN(f(a.Val)))
	}
	return c.mk(OpFIsNaN, 0, 0, 0, 0, "", a)
}
func (c *Ctx) SIToF(a *T) *T {
	if a.IsConst() {
		return c.Const(64, fb(float64(a.Int())))
	}
	return c.mk(OpSIToF, 64, 0, 0, 0, "", a)
}
func (c *Ctx) UIToF(a *T) *T {
	if a.IsConst() {
		return c.Const(64, fb(float64(a.Val)))
	}
	return c.mk(OpUIToF, 64, 0, 0, 0, "", a)
}

// FToSI: float64 -> signed int of width w with the amd64 rule (NaN / out of range -> MinInt64,
// narrower widths truncate the 64-bit result).
func (c *Ctx) FToSI(a *T, w int) *T {
	if a.IsConst() {
		x := f(a.Val)
		var r int64
		if math.IsNaN(x) || x >= 9223372036854775808.0 || x < -9223372036854775808.0 {
			r = math.MinInt64
		} else {
			r = int64(x)
		}
		return c.Const(w, uint64(r))
	}
	t := c.mk(OpFToSI, 64, 0, 0, 0, "", a)
	return c.Extract(t, w-1, 0)
}

// FToUI: float64 -> uint64 following the gc/amd64 sequence: x < 2^63 ? cvttsd2si(x) : cvttsd2si(x-2^63) ^ 0x8000...
func (c *Ctx) FToUI(a *T, w int) *T {
	two63 := c.Const(64, fb(9223372036854775808.0))
	lo := c.FToSI(a, 64)
	hi := c.BXor(c.FToSI(c.FSub(a, two63), 64), c.Const(64, 1<<63))
	r := c.Ite(c.FLt(a, two63), lo, hi)
	return c.Extract(r, w-1, 0)
}

func (c *Ctx) UF(name string, w int, args ...*T) *T { return c.mk(OpUF, w, 0, 0, 0, name, args...) }

// Apply rebuilds a term of shape t over new arguments (used by Eval / substitution).
func (c *Ctx) Apply(t *T, args []*T) *T {
	switch t.Op {
	case OpConst, OpVar:
		return t
	case OpNot:
		return c.Not(args[0])
	case OpAnd:
		return c.And(args[0], args[1])
	case OpOr:
		return c.Or(args[0], args[1])
	case OpEq:
		return c.Eq(args[0], args[1])
	case OpUlt, OpUle, OpSlt, OpSle:
		return c.cmp(t.Op, args[0], args[1])
	case OpFLt, OpFLe, OpFEq:
		return c.fcmp(t.Op, args[0], args[1])
	case OpFIsNaN:
		return c.FIsNaN(args[0])
	case OpIte:
		return c.Ite(args[0], args[1], args[2])
	case OpAdd, OpSub, OpMul, OpUDiv, OpSDiv, OpURem, OpSRem, OpBAnd, OpBOr, OpBXor, OpShl, OpLShr, OpAShr:
		return c.bin(t.Op, args[0], args[1])
	case OpBNot:
		return c.BNot(args[0])
	case OpNeg:
		return c.Neg(args[0])
	case OpConcat:
		return c.Concat(args[0], args[1])
	case OpExtract:
		return c.Extract(args[0], t.P1, t.P2)
	case OpZExt:
		return c.ZExt(args[0], t.W)
	case OpSExt:
		return c.SExt(args[0], t.W)
	case OpFAdd, OpFSub, OpFMul, OpFDiv:
		return c.fbin(t.Op, args[0], args[1])
	case OpFSqrt:
		return c.FSqrt(args[0])
	case OpFRound:
		return c.FRound(args[0], t.P1)
	case OpSIToF:
		return c.SIToF(args[0])
	case OpUIToF:
		return c.UIToF(args[0])
	case OpFToSI:
		return c.FToSI(args[0], 64)
	case OpUF:
		return c.UF(t.Name, t.W, args...)
	}
	panic("term.Apply: unknown op")
}

// Eval evaluates t under the model (variables absent from the model are 0). ok=false if the
// value cannot be determined (uninterpreted function).
func (c *Ctx) Eval(t *T, model map[*T]uint64, memo map[*T]*T) (uint64, bool) {
	r := c.subst(t, model, memo)
	if r.IsConst() {
		return r.Val, true
	}
	return 0, false
}

func (c *Ctx) subst(t *T, model map[*T]uint64, memo map[*T]*T) *T {
	switch t.Op {
	case OpConst:
		return t
	case OpVar:
		return c.Const(t.W, model[t])
	}
	if r, ok := memo[t]; ok {
		return r
	}
	// short-circuit for ite / and / or to keep evaluation cheap
	var r *T
	switch t.Op {
	case OpIte:
		cv := c.subst(t.Args[0], model, memo)
		if cv.IsConst() {
			if cv.Val != 0 {
				r = c.subst(t.Args[1], model, memo)
			} else {
				r = c.subst(t.Args[2], model, memo)
			}
		}
	}
	if r == nil {
		args := make([]*T, len(t.Args))
		for i, a := range t.Args {
			args[i] = c.subst(a, model, memo)
		}
		r = c.Apply(t, args)
	}
	memo[t] = r
	return r
}

// ---------- SMT-LIB printing ----------

func SortOf(t *T) string {
	if t.W == 0 {
		return "Bool"
	}
	return fmt.Sprintf("(_ BitVec %d)", t.W)
}

// Ref is how a term is referred to inside other expressions.
func Ref(t *T) string {
	switch t.Op {
	case OpConst:
		if t.W == 0 {
			if t.Val != 0 {
				return "true"
			}
			return "false"
		}
		return fmt.Sprintf("(_ bv%d %d)", t.Val, t.W)
	case OpVar:
		return "|" + t.Name + "|"
	}
	return fmt.Sprintf("t%d", t.ID)
}

func toFP(s string) string { return "((_ to_fp 11 53) " + s + ")" }

// IsFPValued reports whether t is an FP operation whose BV64 result needs an auxiliary constant.
func IsFPValued(t *T) bool {
	switch t.Op {
	case OpFAdd, OpFSub, OpFMul, OpFDiv, OpFSqrt, OpFRound, OpSIToF, OpUIToF:
		return true
	}
	return false
}

// Body returns the SMT-LIB expression for a non-leaf term over Ref()s of its arguments.
// For FP-valued terms the returned expression has sort Float64 (caller binds it through to_fp).
func Body(t *T) string {
	a := func(i int) string { return Ref(t.Args[i]) }
	switch t.Op {
	case OpNot, OpBNot, OpNeg:
		return "(" + opNames[t.Op] + " " + a(0) + ")"
	case OpAnd, OpOr, OpEq, OpUlt, OpUle, OpSlt, OpSle, OpAdd, OpSub, OpMul, OpUDiv, OpSDiv, OpURem, OpSRem,
		OpBAnd, OpBOr, OpBXor, OpShl, OpLShr, OpAShr, OpConcat:
		return "(" + opNames[t.Op] + " " + a(0) + " " + a(1) + ")"
	case OpIte:
		return "(ite " + a(0) + " " + a(1) + " " + a(2) + ")"
	case OpExtract:
		return fmt.Sprintf("((_ extract %d %d) %s)", t.P1, t.P2, a(0))
	case OpZExt:
		return fmt.Sprintf("((_ zero_extend %d) %s)", t.W-t.Args[0].W, a(0))
	case OpSExt:
		return fmt.Sprintf("((_ sign_extend %d) %s)", t.W-t.Args[0].W, a(0))
	case OpFLt:
		return "(fp.lt " + toFP(a(0)) + " " + toFP(a(1)) + ")"
	case OpFLe:
		return "(fp.leq " + toFP(a(0)) + " " + toFP(a(1)) + ")"
	case OpFEq:
		return "(fp.eq " + toFP(a(0)) + " " + toFP(a(1)) + ")"
	case OpFIsNaN:
		return "(fp.isNaN " + toFP(a(0)) + ")"
	case OpFAdd:
		return "(fp.add RNE " + toFP(a(0)) + " " + toFP(a(1)) + ")"
	case OpFSub:
		return "(fp.sub RNE " + toFP(a(0)) + " " + toFP(a(1)) + ")"
	case OpFMul:
		return "(fp.mul RNE " + toFP(a(0)) + " " + toFP(a(1)) + ")"
	case OpFDiv:
		return "(fp.div RNE " + toFP(a(0)) + " " + toFP(a(1)) + ")"
	case OpFSqrt:
		return "(fp.sqrt RNE " + toFP(a(0)) + ")"
	case OpFRound:
		mode := [...]string{"RTN", "RTP", "RTZ", "RNE"}[t.P1]
		return "(fp.roundToIntegral " + mode + " " + toFP(a(0)) + ")"
	case OpSIToF:
		return "((_ to_fp 11 53) RNE " + a(0) + ")"
	case OpUIToF:
		return "((_ to_fp_unsigned 11 53) RNE " + a(0) + ")"
	case OpFToSI:
		x := toFP(a(0))
		// in range: -2^63 <= x < 2^63
		lo := "(fp #b1 #b10000111110 #x0000000000000)"
		hi := "(fp #b0 #b10000111110 #x0000000000000)"
		return "(ite (and (fp.geq " + x + " " + lo + ") (fp.lt " + x + " " + hi + ")) ((_ fp.to_sbv 64) RTZ " + x + ") #x8000000000000000)"
	case OpUF:
		var sb strings.Builder
		sb.WriteString("(|" + t.Name + "|")
		for i := range t.Args {
			sb.WriteString(" " + a(i))
		}
		sb.WriteString(")")
		return sb.String()
	}
	panic(fmt.Sprintf("term.Body: op %d", t.Op))
}

// String renders a compact human-readable form (bounded depth) for evidence samples.
func String(t *T, depth int) string {
	switch t.Op {
	case OpConst:
		if t.W == 0 {
			return fmt.Sprint(t.Val != 0)
		}
		return fmt.Sprint(t.Int())
	case OpVar:
		return t.Name
	}
	if depth <= 0 {
		return "…"
	}
	name := opNames[t.Op]
	if name == "" {
		name = fmt.Sprintf("op%d", t.Op)
	}
	var sb strings.Builder
	sb.WriteString("(" + name)
	for _, a := range t.Args {
		sb.WriteString(" " + String(a, depth-1))
	}
	sb.WriteString(")")
	return sb.String()
}

// HasHardArith reports whether the DAG under t contains mul/div/rem with a non-trivial operand.
func HasHardArith(t *T, seen map[*T]bool) bool {
	if seen[t] {
		return false
	}
	seen[t] = true
	switch t.Op {
	case OpMul, OpUDiv, OpSDiv, OpURem, OpSRem:
		a, b := t.Args[0], t.Args[1]
		if (!a.IsConst() && !b.IsConst()) || (a.IsConst() && bits.Len64(a.Val) > 16) || (b.IsConst() && bits.Len64(b.Val) > 16) {
			return true
		}
	}
	for _, a := range t.Args {
		if HasHardArith(a, seen) {
			return true
		}
	}
	return false
}

// HasFP reports whether the DAG under t contains floating-point operations.
func HasFP(t *T, seen map[*T]bool) bool {
	if seen[t] {
		return false
	}
	seen[t] = true
	switch t.Op {
	case OpFLt, OpFLe, OpFEq, OpFIsNaN, OpFAdd, OpFSub, OpFMul, OpFDiv, OpFSqrt, OpFRound, OpSIToF, OpUIToF, OpFToSI, OpFToUI:
		return true
	}
	for _, a := range t.Args {
		if HasFP(a, seen) {
			return true
		}
	}
	return false
}

// RangeOf returns signed bounds for t (as a two's complement number of width t.W), if known.
func (c *Ctx) RangeOf(t *T) (lo, hi int64, ok bool) {
	return c.rangeOf(t, 0)
}

func fitsSigned(lo, hi int64, w int) bool {
	if w >= 64 {
		return true
	}
	return lo >= -(int64(1)<<uint(w-1)) && hi < int64(1)<<uint(w-1)
}

func (c *Ctx) rangeOf(t *T, depth int) (int64, int64, bool) {
	if t.W == 0 {
		return 0, 0, false
	}
	if t.IsConst() {
		v := t.Int()
		return v, v, true
	}
	if r, ok := c.Ranges[t]; ok {
		return r[0], r[1], true
	}
	if depth > 6 {
		return 0, 0, false
	}
	switch t.Op {
	case OpZExt:
		a := t.Args[0]
		if lo, hi, ok := c.rangeOf(a, depth+1); ok && lo >= 0 {
			return lo, hi, true
		}
		if a.W < 63 {
			return 0, int64(1)<<uint(a.W) - 1, true
		}
	case OpSExt:
		a := t.Args[0]
		if lo, hi, ok := c.rangeOf(a, depth+1); ok {
			return lo, hi, true
		}
		if a.W < 64 {
			return -(int64(1) << uint(a.W-1)), int64(1)<<uint(a.W-1) - 1, true
		}
	case OpExtract:
		if t.P2 == 0 {
			if lo, hi, ok := c.rangeOf(t.Args[0], depth+1); ok && fitsSigned(lo, hi, t.W) {
				return lo, hi, true
			}
		}
	case OpBAnd:
		for _, a := range t.Args {
			if a.IsConst() && a.Int() >= 0 {
				return 0, a.Int(), true
			}
		}
	case OpBOr, OpBXor:
		l1, h1, ok1 := c.rangeOf(t.Args[0], depth+1)
		l2, h2, ok2 := c.rangeOf(t.Args[1], depth+1)
		if ok1 && ok2 && l1 >= 0 && l2 >= 0 {
			k := bits.Len64(uint64(h1))
			if k2 := bits.Len64(uint64(h2)); k2 > k {
				k = k2
			}
			if k < 63 {
				return 0, int64(1)<<uint(k) - 1, true
			}
		}
	case OpURem:
		if b := t.Args[1]; b.IsConst() && b.Int() > 0 {
			return 0, b.Int() - 1, true
		}
	case OpSRem:
		if b := t.Args[1]; b.IsConst() && b.Int() > 0 {
			if lo, _, ok := c.rangeOf(t.Args[0], depth+1); ok && lo >= 0 {
				return 0, b.Int() - 1, true
			}
			return -(b.Int() - 1), b.Int() - 1, true
		}
	case OpAdd, OpSub:
		l1, h1, ok1 := c.rangeOf(t.Args[0], depth+1)
		l2, h2, ok2 := c.rangeOf(t.Args[1], depth+1)
		if ok1 && ok2 {
			const lim = int64(1) << 61
			if l1 > -lim && h1 < lim && l2 > -lim && h2 < lim {
				var lo, hi int64
				if t.Op == OpAdd {
					lo, hi = l1+l2, h1+h2
				} else {
					lo, hi = l1-h2, h1-l2
				}
				if fitsSigned(lo, hi, t.W) {
					return lo, hi, true
				}
			}
		}
	case OpIte:
		l1, h1, ok1 := c.rangeOf(t.Args[1], depth+1)
		l2, h2, ok2 := c.rangeOf(t.Args[2], depth+1)
		if ok1 && ok2 {
			if l2 < l1 {
				l1 = l2
			}
			if h2 > h1 {
				h1 = h2
			}
			return l1, h1, true
		}
	}
	return 0, 0, false
}

// NoteRange intersects the known range of t with [lo, hi].
func (c *Ctx) NoteRange(t *T, lo, hi int64) {
	if c.Ranges == nil || t.IsConst() || t.W == 0 {
		return
	}
	if r, ok := c.Ranges[t]; ok {
		if r[0] > lo {
			lo = r[0]
		}
		if r[1] < hi {
			hi = r[1]
		}
	} else if l0, h0, ok := c.rangeOf(t, 0); ok {
		if l0 > lo {
			lo = l0
		}
		if h0 < hi {
			hi = h0
		}
	}
	c.Ranges[t] = [2]int64{lo, hi}
}
