package main

import (
	"bytes"
	"encoding/json"
	"fmt"
	"go/ast"
	"go/parser"
	"go/token"
	"os"
	"os/exec"
	"path/filepath"
	"regexp"
	"sort"
	"strconv"
	"strings"

	"verif/engine/gosx"
)

type Confirmed struct {
	V         *gosx.Violation
	Outcome   string // native outcome
	NativeTag string
	Matches   bool
	File      string
}

type replayVector struct {
	Harness string            `json:"harness"`
	Pkg     string            `json:"pkg"`
	Tag     string            `json:"tag"`
	Known   string            `json:"known,omitempty"`
	ND      map[string]uint64 `json:"nd"`
	Params  map[string]int    `json:"params"`
	Detail  string            `json:"detail,omitempty"`
}

func goEnv() []string {
	return append(os.Environ(), "GOFLAGS=-mod=mod", "GOPROXY=off", "GOSUMDB=off", "GOTOOLCHAIN=local")
}

// harnessFuncs lists the parameterless top-level functions named Verif* in the harness files of a package dir.
func harnessFuncs(dir string) (pkgName string, funcs []string, err error) {
	fset := token.NewFileSet()
	ents, err := os.ReadDir(dir)
	if err != nil {
		return "", nil, err
	}
	for _, e := range ents {
		if e.IsDir() || !strings.HasSuffix(e.Name(), ".go") || strings.HasSuffix(e.Name(), "_test.go") {
			continue
		}
		f, err := parser.ParseFile(fset, filepath.Join(dir, e.Name()), nil, 0)
		if err != nil {
			return "", nil, err
		}
		pkgName = f.Name.Name
		for _, d := range f.Decls {
			fd, ok := d.(*ast.FuncDecl)
			if !ok || fd.Recv != nil || !strings.HasPrefix(fd.Name.Name, "Verif") {
				continue
			}
			if fd.Type.Params.NumFields() == 0 && fd.Type.Results.NumFields() == 0 && fd.Type.TypeParams.NumFields() == 0 {
				funcs = append(funcs, fd.Name.Name)
			}
		}
	}
	sort.Strings(funcs)
	return
}

// makeReplayOverlay writes the go-build overlay (harness files + generated test drivers) and
// returns its path.
func makeReplayOverlay(tmp string, pkgs []string) (string, error) {
	ov, err := gosx.BuildOverlay(verifDir+"/harness", repoDir, true)
	if err != nil {
		return "", err
	}
	for _, pkg := range pkgs {
		rel := strings.TrimPrefix(pkg, modPath+"/")
		hdir := filepath.Join(verifDir, "harness", rel)
		name, funcs, err := harnessFuncs(hdir)
		if err != nil {
			return "", err
		}
		var sb strings.Builder
		fmt.Fprintf(&sb, "package %s\n\nimport (\n\t\"testing\"\n\n\t\"%s/zzverif\"\n)\n\n", name, modPath)
		sb.WriteString("func TestZZVerifReplay(t *testing.T) {\n\tzzverif.RunReplay(t, map[string]func(){\n")
		for _, f := range funcs {
			fmt.Fprintf(&sb, "\t\t%q: %s,\n", f, f)
		}
		sb.WriteString("\t})\n}\n")
		gen := filepath.Join(tmp, strings.ReplaceAll(rel, "/", "_")+"_zz_verif_replay_test.go")
		if err := os.WriteFile(gen, []byte(sb.String()), 0o644); err != nil {
			return "", err
		}
		ov[filepath.Join(repoDir, rel, "zz_verif_replay_test.go")] = gen
	}
	data, _ := json.Marshal(map[string]interface{}{"Replace": ov})
	path := filepath.Join(tmp, "overlay.json")
	return path, os.WriteFile(path, data, 0o644)
}

var vreplayRe = regexp.MustCompile(`^VREPLAY (\d+) (\S+) tag=(.*)$`)

// runNative replays vectors (all of one package) and returns outcome/tag per vector.
func runNative(tmp, overlayPath, pkg string, vecs []replayVector) (map[int][2]string, string, error) {
	vf := filepath.Join(tmp, "vectors.json")
	data, _ := json.Marshal(vecs)
	if err := os.WriteFile(vf, data, 0o644); err != nil {
		return nil, "", err
	}
	// compile the test binary (the package directory may exist only in the overlay, so the
	// binary is run from the repository root rather than through `go test`)
	bin := filepath.Join(tmp, "replay-"+sanitizePkg(pkg)+".test")
	var out bytes.Buffer
	if _, err := os.Stat(bin); err != nil {
		build := exec.Command("go", "test", "-c", "-tags=verif", "-vet=off", "-overlay", overlayPath, "-o", bin, pkg)
		build.Dir = repoDir
		build.Env = goEnv()
		build.Stdout = &out
		build.Stderr = &out
		if err := build.Run(); err != nil {
			return nil, out.String(), fmt.Errorf("native replay build failed: %v", err)
		}
	}
	// The replay binary stops after a vector that hangs (its process state is unusable then); it is
	// started again on the remaining vectors.
	res := map[int][2]string{}
	var err error
	for start := 0; start < len(vecs); {
		data, _ := json.Marshal(vecs[start:])
		if werr := os.WriteFile(vf, data, 0o644); werr != nil {
			return nil, "", werr
		}
		cmd := exec.Command(bin, "-test.run", "^TestZZVerifReplay$", "-test.v", "-test.timeout", "600s")
		cmd.Dir = repoDir
		cmd.Env = append(goEnv(), "VERIF_REPLAY_FILE="+vf)
		var runOut bytes.Buffer
		cmd.Stdout = &runOut
		cmd.Stderr = &runOut
		err = cmd.Run()
		out.Write(runOut.Bytes())
		hungAt := -1
		for _, l := range strings.Split(runOut.String(), "\n") {
			if m := vreplayRe.FindStringSubmatch(strings.TrimSpace(l)); m != nil {
				i, _ := strconv.Atoi(m[1])
				res[start+i] = [2]string{m[2], m[3]}
				if m[2] == "hang" {
					hungAt = i
				}
			}
		}
		if hungAt < 0 {
			break
		}
		start += hungAt + 1
	}
	if os.Getenv("VCHECK_DEBUG") != "" {
		fmt.Fprintln(os.Stderr, out.String())
	}
	if len(res) == 0 && err != nil {
		return res, out.String(), fmt.Errorf("native replay failed: %v", err)
	}
	return res, out.String(), nil
}

// replayViolations replays every violation natively; a violation is confirmed only when the
// native run fails the same assertion (or panics, for tag "panic").
func replayViolations(viols []*gosx.Violation, property string) ([]*Confirmed, error) {
	tmp, err := os.MkdirTemp("", "vcheck-replay-")
	if err != nil {
		return nil, err
	}
	defer os.RemoveAll(tmp)
	byPkg := map[string][]*gosx.Violation{}
	var pkgs []string
	for _, v := range viols {
		if _, ok := byPkg[v.Pkg]; !ok {
			pkgs = append(pkgs, v.Pkg)
		}
		byPkg[v.Pkg] = append(byPkg[v.Pkg], v)
	}
	sort.Strings(pkgs)
	overlayPath, err := makeReplayOverlay(tmp, pkgs)
	if err != nil {
		return nil, err
	}
	var out []*Confirmed
	for _, pkg := range pkgs {
		vs := byPkg[pkg]
		vecs := make([]replayVector, len(vs))
		for i, v := range vs {
			vecs[i] = replayVector{Harness: v.Harness, Pkg: v.Pkg, Tag: v.Tag, Known: v.Known, ND: v.ND, Params: v.Params, Detail: v.Detail}
		}
		res, log, err := runNative(tmp, overlayPath, pkg, vecs)
		if err != nil {
			return out, fmt.Errorf("%v\n%s", err, tail(log, 40))
		}
		for i, v := range vs {
			r, ok := res[i]
			c := &Confirmed{V: v, Outcome: "missing", NativeTag: ""}
			if ok {
				c.Outcome, c.NativeTag = r[0], r[1]
			}
			switch {
			case v.Tag == "panic":
				c.Matches = c.Outcome == "panic"
			case v.Tag == "hang":
				c.Matches = c.Outcome == "hang"
			default:
				c.Matches = c.Outcome == "assert-failed" && c.NativeTag == v.Tag
			}
			out = append(out, c)
		}
	}
	return out, nil
}

func tail(s string, n int) string {
	lines := strings.Split(s, "\n")
	if len(lines) > n {
		lines = lines[len(lines)-n:]
	}
	return strings.Join(lines, "\n")
}

// cmdReplay replays a committed replay file: vcheck replay <path>
func cmdReplay(args []string) int {
	if len(args) < 1 {
		fmt.Fprintln(os.Stderr, "usage: vcheck replay <file>")
		return 2
	}
	data, err := os.ReadFile(args[0])
	if err != nil {
		fmt.Fprintln(os.Stderr, err)
		return 2
	}
	var vec replayVector
	if err := json.Unmarshal(data, &vec); err != nil {
		fmt.Fprintln(os.Stderr, err)
		return 2
	}
	v := &gosx.Violation{Harness: vec.Harness, Pkg: vec.Pkg, Tag: vec.Tag, Known: vec.Known, ND: vec.ND, Params: vec.Params}
	cs, err := replayViolations([]*gosx.Violation{v}, "")
	if err != nil {
		fmt.Fprintln(os.Stderr, err)
		return 2
	}
	for _, c := range cs {
		fmt.Printf("replay %s tag=%s: native outcome=%s tag=%s reproduced=%v\n", c.V.Harness, c.V.Tag, c.Outcome, c.NativeTag, c.Matches)
		if c.Matches {
			return 1
		}
	}
	return 0
}

func sanitizePkg(p string) string {
	return strings.NewReplacer("/", "_", ".", "_").Replace(p)
}
