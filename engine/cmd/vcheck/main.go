package main

import (
	"flag"
	"fmt"
	"os"
	"sort"
	"strconv"
	"strings"
	"time"

	"verif/engine/gosx"
)

var repoDir = envOr("VCHECK_REPO", "/repo")
const verifDir = "/verif"
const modPath = "github.com/cube2222/octosql"

func envOr(k, d string) string {
	if v := os.Getenv(k); v != "" {
		return v
	}
	return d
}

func main() {
	if len(os.Args) < 2 {
		fmt.Fprintln(os.Stderr, "usage: vcheck run|harness|replay|selftest ...")
		os.Exit(2)
	}
	switch os.Args[1] {
	case "harness":
		os.Exit(cmdHarness(os.Args[2:]))
	case "run":
		os.Exit(cmdRun(os.Args[2:]))
	case "replay":
		os.Exit(cmdReplay(os.Args[2:]))
	default:
		fmt.Fprintln(os.Stderr, "unknown command", os.Args[1])
		os.Exit(2)
	}
}

type paramFlag map[string]int

func (p paramFlag) String() string { return fmt.Sprint(map[string]int(p)) }
func (p paramFlag) Set(s string) error {
	kv := strings.SplitN(s, "=", 2)
	if len(kv) != 2 {
		return fmt.Errorf("want k=v")
	}
	v, err := strconv.Atoi(kv[1])
	if err != nil {
		return err
	}
	p[kv[0]] = v
	return nil
}

func defaultCfg() gosx.Config {
	return gosx.Config{Workers: 16, SolverTimeout: 5000, MaxSteps: 5_000_000, MaxDecisions: 4000, MaxViolPerTag: 3}
}

// cmdHarness: developer entry point, explores one harness function and prints a summary.
func cmdHarness(args []string) int {
	fs := flag.NewFlagSet("harness", flag.ExitOnError)
	pkg := fs.String("pkg", "", "package path relative to the module (e.g. octosql)")
	fn := fs.String("func", "", "harness function")
	workers := fs.Int("workers", 16, "workers")
	trace := fs.Bool("trace", false, "engine panics are not caught")
	maxPaths := fs.Int64("maxpaths", 0, "stop after this many paths")
	wall := fs.Duration("wall", 0, "wall budget")
	doReplay := fs.Bool("replay", true, "replay violations natively")
	solverMs := fs.Int("solverms", 0, "base solver timeout in ms")
	maxSteps := fs.Int64("maxsteps", 0, "instruction budget per path")
	params := paramFlag{}
	fs.Var(params, "p", "harness parameter k=v (repeatable)")
	fs.Parse(args)
	t0 := time.Now()
	full := modPath + "/" + *pkg
	overlay, err := gosx.BuildOverlay(verifDir+"/harness", repoDir, false)
	if err != nil {
		fmt.Fprintln(os.Stderr, err)
		return 2
	}
	P, pkgs, err := gosx.Load(repoDir, overlay, []string{full})
	if err != nil {
		fmt.Fprintln(os.Stderr, err)
		return 2
	}
	fmt.Fprintf(os.Stderr, "loaded in %v\n", time.Since(t0))
	sp := pkgs[full]
	if sp == nil {
		fmt.Fprintln(os.Stderr, "package not found", full)
		return 2
	}
	f := sp.Func(*fn)
	if f == nil {
		fmt.Fprintln(os.Stderr, "function not found", *fn)
		return 2
	}
	cfg := defaultCfg()
	cfg.Workers = *workers
	cfg.Trace = *trace
	cfg.MaxPaths = *maxPaths
	cfg.WallBudget = *wall
	if *solverMs > 0 {
		cfg.SolverTimeout = *solverMs
	}
	if *maxSteps > 0 {
		cfg.MaxSteps = *maxSteps
	}
	ex := gosx.NewExplorer(P, f, params, cfg)
	res := ex.Run()
	printResult(res)
	if *doReplay && len(res.Violations) > 0 {
		confirmed, err := replayViolations(res.Violations, "DEV")
		if err != nil {
			fmt.Fprintln(os.Stderr, "replay error:", err)
		}
		for _, c := range confirmed {
			fmt.Printf("replay: %s tag=%s known=%q -> %s (%s)\n", c.V.Harness, c.V.Tag, c.V.Known, c.Outcome, c.NativeTag)
		}
	}
	return 0
}

func printResult(r *gosx.Result) {
	fmt.Printf("harness %s: paths=%d pruned=%d decisions=%d steps=%d wall=%v exhaustive=%v\n", r.Harness, r.Paths, r.Pruned, r.Decisions, r.Steps, r.Wall.Round(time.Millisecond), r.Exhaustive)
	fmt.Printf("  outcomes=%v\n  solver: queries=%d sat=%d unsat=%d unknown=%d errors=%d time=%v backends=%v\n", r.Outcomes, r.Solver.Queries, r.Solver.Sat, r.Solver.Unsat, r.Solver.Unknown, r.Solver.Errors, r.Solver.Time.Round(time.Millisecond), r.Solver.ByBackend)
	if len(r.Inconclusive) > 0 {
		fmt.Printf("  inconclusive: %v\n", r.Inconclusive)
	}
	var tags []string
	for t := range r.Sites {
		tags = append(tags, t)
	}
	sort.Strings(tags)
	for _, t := range tags {
		s := r.Sites[t]
		fmt.Printf("  site %-40s reached=%d proved=%d failed=%d\n", t, s.Reached, s.Proved, s.Failed)
	}
	for _, v := range r.Violations {
		fmt.Printf("  violation tag=%s known=%q detail=%q nd=%v\n", v.Tag, v.Known, v.Detail, v.ND)
	}
}
