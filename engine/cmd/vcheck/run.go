package main

import (
	"crypto/sha256"
	"encoding/hex"
	"encoding/json"
	"flag"
	"fmt"
	"os"
	"path/filepath"
	"sort"
	"strconv"
	"strings"
	"time"

	"golang.org/x/tools/go/ssa"

	"verif/engine/gosx"
)

type harnessCfg struct {
	Pkg       string           `json:"pkg"`
	Func      string           `json:"func"`
	Quick     map[string]int   `json:"quick"`
	Thorough  map[string]int   `json:"thorough"`
	Instances []map[string]int `json:"instances"`
	QuickInstances []map[string]int `json:"quick_instances"`
	MaxSteps  int64            `json:"max_steps"`
	SolverMs  int              `json:"solver_ms"`
	Note      string           `json:"note"`
	ThoroughOnly bool          `json:"thorough_only"`
}

type propCfg struct {
	Property    string       `json:"property"`
	Harnesses   []harnessCfg `json:"harnesses"`
	Stubs       []string     `json:"stubs"`
	Assumptions []string     `json:"assumptions"`
	Bounds      map[string]string `json:"bounds"`
	Outside     []string     `json:"outside"`
	WallQuick   string       `json:"wall_quick"`
	WallThorough string      `json:"wall_thorough"`
}

type knownFile struct {
	Known []struct {
		ID       string `json:"id"`
		Property string `json:"property"`
		What     string `json:"what"`
	} `json:"known"`
	Fixed []struct {
		Property string `json:"property"`
		Commit   string `json:"commit"`
		What     string `json:"what"`
	} `json:"fixed"`
}

// instJob is one harness instance of a run, with its (latest) exploration result.
type instJob struct {
	h       harnessCfg
	full    string
	f       *ssa.Function
	params  map[string]int
	res     *gosx.Result
	share   time.Duration
	retried bool
}

func loadKnown() (*knownFile, error) {
	var kf knownFile
	data, err := os.ReadFile(filepath.Join(verifDir, "known_findings.json"))
	if err != nil {
		if os.IsNotExist(err) {
			return &kf, nil
		}
		return nil, err
	}
	return &kf, json.Unmarshal(data, &kf)
}

func mergeParams(ms ...map[string]int) map[string]int {
	out := map[string]int{}
	for _, m := range ms {
		for k, v := range m {
			out[k] = v
		}
	}
	return out
}

func paramString(p map[string]int) string {
	var ks []string
	for k := range p {
		ks = append(ks, k)
	}
	sort.Strings(ks)
	var sb strings.Builder
	for i, k := range ks {
		if i > 0 {
			sb.WriteByte(',')
		}
		fmt.Fprintf(&sb, "%s=%d", k, p[k])
	}
	return sb.String()
}

type harnessReport struct {
	Harness      string                    `json:"harness"`
	Params       string                    `json:"params"`
	Paths        int64                     `json:"paths"`
	Pruned       int64                     `json:"pruned_by_assumption"`
	Decisions    int64                     `json:"decisions"`
	Steps        int64                     `json:"instructions"`
	Outcomes     map[string]int64          `json:"outcomes"`
	Inconclusive map[string]int64          `json:"inconclusive,omitempty"`
	Sites        map[string]*gosx.SiteStat `json:"sites"`
	Exhaustive   bool                      `json:"exhaustive"`
	WallS        float64                   `json:"wall_s"`
	Queries      int                       `json:"solver_queries"`
	MaxDecisions int                       `json:"max_decisions_on_a_path"`
}

func cmdRun(args []string) int {
	fs := flag.NewFlagSet("run", flag.ExitOnError)
	prop := fs.String("property", "", "property id")
	tier := fs.String("tier", "quick", "quick|thorough")
	workers := fs.Int("workers", 16, "workers")
	only := fs.String("only", "", "only harnesses whose func name contains this")
	fs.Parse(args)
	if t := os.Getenv("VERIF_TIER"); t != "" && *tier == "" {
		*tier = t
	}
	seed := int64(0)
	if s := os.Getenv("VERIF_SEED"); s != "" {
		seed, _ = strconv.ParseInt(s, 10, 64)
	}
	t0 := time.Now()
	var pc propCfg
	data, err := os.ReadFile(filepath.Join(verifDir, "props", *prop+".json"))
	if err != nil {
		fmt.Fprintln(os.Stderr, err)
		return 2
	}
	if err := json.Unmarshal(data, &pc); err != nil {
		fmt.Fprintln(os.Stderr, "props:", err)
		return 2
	}
	kf, err := loadKnown()
	if err != nil {
		fmt.Fprintln(os.Stderr, "known_findings.json:", err)
		return 2
	}
	knownIDs := map[string]string{}
	for _, k := range kf.Known {
		if k.Property == pc.Property {
			knownIDs[k.ID] = k.What
		}
	}
	overlay, err := gosx.BuildOverlay(verifDir+"/harness", repoDir, false)
	if err != nil {
		fmt.Fprintln(os.Stderr, err)
		return 2
	}
	patSet := map[string]bool{}
	var patterns []string
	for _, h := range pc.Harnesses {
		full := modPath + "/" + h.Pkg
		if !patSet[full] {
			patSet[full] = true
			patterns = append(patterns, full)
		}
	}
	P, pkgs, err := gosx.Load(repoDir, overlay, patterns)
	if err != nil {
		// The tree does not type-check with the harnesses: cannot decide anything.
		fmt.Fprintln(os.Stderr, "load failed:", err)
		return 2
	}
	loadS := time.Since(t0).Seconds()
	wallBudget := time.Duration(0)
	wb := pc.WallQuick
	if *tier == "thorough" {
		wb = pc.WallThorough
	}
	if wb != "" {
		wallBudget, _ = time.ParseDuration(wb)
	} else if *tier == "thorough" {
		wallBudget = 40 * time.Minute // default: a thorough run ends within about 40 minutes (+ replays)
	} else {
		wallBudget = 30 * time.Minute
	}
	// number of harness instances this run will execute (to share the wall budget fairly)
	remaining := 0
	for _, h := range pc.Harnesses {
		if (*only != "" && !strings.Contains(h.Func, *only)) || (h.ThoroughOnly && *tier != "thorough") {
			continue
		}
		n := len(h.Instances)
		if *tier == "quick" && h.QuickInstances != nil {
			n = len(h.QuickInstances)
		}
		if n == 0 {
			n = 1
		}
		remaining += n
	}

	var reports []harnessReport
	var allViol []*gosx.Violation
	var witnesses []*gosx.Violation
	var samples []interface{}
	totalPaths, totalDec, totalQueries, totalSym := int64(0), int64(0), 0, int64(0)
	var solverTime time.Duration
	queries := map[string]int{"sat": 0, "unsat": 0, "unknown": 0, "errors": 0}
	backends := map[string]int{}
	exhaustive := true
	perSite := map[string]*gosx.SiteStat{}
	crossChecked, crossDisagree := int64(0), int64(0)

	var jobs []*instJob
	for _, h := range pc.Harnesses {
		if *only != "" && !strings.Contains(h.Func, *only) {
			continue
		}
		if h.ThoroughOnly && *tier != "thorough" {
			continue
		}
		full := modPath + "/" + h.Pkg
		sp := pkgs[full]
		var f *ssa.Function
		if sp != nil {
			f = sp.Func(h.Func)
		}
		if f == nil {
			fmt.Fprintf(os.Stderr, "harness %s.%s not found\n", h.Pkg, h.Func)
			return 2
		}
		base := h.Quick
		if *tier == "thorough" && h.Thorough != nil {
			base = mergeParams(h.Quick, h.Thorough)
		}
		insts := h.Instances
		if *tier == "quick" && h.QuickInstances != nil {
			insts = h.QuickInstances
		}
		if len(insts) == 0 {
			insts = []map[string]int{{}}
		}
		for _, inst := range insts {
			params := mergeParams(base, inst)
			jobs = append(jobs, &instJob{h: h, full: full, f: f, params: params})
		}
	}

	runJob := func(j *instJob, share time.Duration) {
		h := j.h
		cfg := defaultCfg()
		cfg.Workers = *workers
		cfg.Seed = seed
		if h.MaxSteps > 0 {
			cfg.MaxSteps = h.MaxSteps
		}
		if h.SolverMs > 0 {
			cfg.SolverTimeout = h.SolverMs
		}
		if *tier == "thorough" {
			cfg.CrossCheckPct = 2
		}
		cfg.WallBudget = share
		cfg.Witnesses = 4
		ex := gosx.NewExplorer(P, j.f, j.params, cfg)
		res := ex.Run()
		j.res = res
		j.share = share
		fmt.Fprintf(os.Stderr, "[%s] %s(%s): paths=%d decisions=%d queries=%d viol=%d exhaustive=%v wall=%.1fs %v\n", pc.Property, h.Func, paramString(j.params),
			res.Paths, res.Decisions, res.Solver.Queries, len(res.Violations), res.Exhaustive, res.Wall.Seconds(), res.Inconclusive)
	}
	stoppedByBudget := func(j *instJob) bool {
		if j.res == nil || j.res.Exhaustive || len(j.res.Violations) > 0 {
			return false
		}
		for reason := range j.res.Inconclusive {
			if strings.HasPrefix(reason, "budget: exploration stopped") {
				return true
			}
		}
		return false
	}
	// first pass: an instance may use up to three fair shares of what is left (never less than
	// 20 s), so that one heavy instance cannot starve the ones after it
	for i, j := range jobs {
		left := wallBudget - time.Since(t0)
		share := left * 3 / time.Duration(len(jobs)-i)
		if share > left {
			share = left
		}
		if share < 20*time.Second {
			share = 20 * time.Second
		}
		runJob(j, share)
	}
	// second pass: what is left of the wall budget goes to the instances the first pass had to stop
	// (exploration is stateless, so they start again; only worth it with clearly more time)
	for {
		var pending []*instJob
		for _, j := range jobs {
			if stoppedByBudget(j) && !j.retried {
				pending = append(pending, j)
			}
		}
		if len(pending) == 0 {
			break
		}
		left := wallBudget - time.Since(t0)
		j := pending[0]
		share := left / time.Duration(len(pending))
		j.retried = true
		if share < 2*j.share {
			continue
		}
		fmt.Fprintf(os.Stderr, "[%s] second pass for %s(%s) with %.0fs\n", pc.Property, j.h.Func, paramString(j.params), share.Seconds())
		runJob(j, share)
	}

	for _, j := range jobs {
		h, res, full, params := j.h, j.res, j.full, j.params
		{
			rep := harnessReport{Harness: h.Func, Params: paramString(params), Paths: res.Paths, Pruned: res.Pruned, Decisions: res.Decisions,
				Steps: res.Steps, Outcomes: res.Outcomes, Inconclusive: res.Inconclusive, Sites: res.Sites, Exhaustive: res.Exhaustive,
				WallS: res.Wall.Seconds(), Queries: res.Solver.Queries, MaxDecisions: res.MaxPathDecisions}
			if len(rep.Inconclusive) == 0 {
				rep.Inconclusive = nil
			}
			reports = append(reports, rep)
			totalPaths += res.Paths
			totalSym += res.SymbolicPaths
			totalDec += res.Decisions
			totalQueries += res.Solver.Queries
			solverTime += res.Solver.Time
			queries["sat"] += res.Solver.Sat
			queries["unsat"] += res.Solver.Unsat
			queries["unknown"] += res.Solver.Unknown
			queries["errors"] += res.Solver.Errors
			for k, v := range res.Solver.ByBackend {
				backends[k] += v
			}
			crossChecked += res.CrossChecked
			crossDisagree += res.CrossDisagree
			if !res.Exhaustive {
				exhaustive = false
			}
			for tag, s := range res.Sites {
				key := h.Func + ":" + tag
				if perSite[key] == nil {
					perSite[key] = &gosx.SiteStat{}
				}
				perSite[key].Reached += s.Reached
				perSite[key].Proved += s.Proved
				perSite[key].Failed += s.Failed
			}
			allViol = append(allViol, res.Violations...)
			for _, w := range res.Witnesses {
				witnesses = append(witnesses, &gosx.Violation{Harness: h.Func, Pkg: full, Tag: "<witness>", ND: w, Params: params})
			}
			for i, s := range res.Samples {
				if i < 2 && len(samples) < 12 {
					samples = append(samples, map[string]interface{}{"harness": h.Func, "params": rep.Params, "outcome": s.Outcome,
						"decisions": s.Decisions, "path_condition": s.PC, "model": s.Model})
				}
			}
		}
	}

	// ---- native replay: violations and path witnesses ----
	newConfirmed, knownConfirmed, spurious := []*Confirmed{}, map[string]*Confirmed{}, []*Confirmed{}
	validated, mismatched := 0, 0
	var replayErr string
	if len(allViol)+len(witnesses) > 0 {
		cs, err := replayViolations(append(append([]*gosx.Violation{}, allViol...), witnesses...), pc.Property)
		if err != nil {
			replayErr = err.Error()
			fmt.Fprintln(os.Stderr, "replay error:", err)
		}
		for _, c := range cs {
			if c.V.Tag == "<witness>" {
				if c.Outcome == "ok" {
					validated++
				} else {
					mismatched++
					fmt.Fprintf(os.Stderr, "translator mismatch: witness of %s natively gave %s tag=%s nd=%v\n", c.V.Harness, c.Outcome, c.NativeTag, c.V.ND)
				}
				continue
			}
			switch {
			case !c.Matches:
				spurious = append(spurious, c)
			case c.V.Known != "" && knownIDs[c.V.Known] != "":
				if knownConfirmed[c.V.Known] == nil {
					knownConfirmed[c.V.Known] = c
				}
			default:
				newConfirmed = append(newConfirmed, c)
			}
		}
	}
	if mismatched > 0 || len(spurious) > 0 || replayErr != "" {
		exhaustive = false
	}

	exit := 0
	var violLines []string
	os.MkdirAll(filepath.Join(verifDir, "replays", pc.Property), 0o755)
	seenTag := map[string]bool{}
	for _, c := range newConfirmed {
		key := c.V.Harness + "|" + c.V.Tag + "|" + c.V.Known
		if seenTag[key] {
			continue
		}
		seenTag[key] = true
		vec := replayVector{Harness: c.V.Harness, Pkg: c.V.Pkg, Tag: c.V.Tag, Known: c.V.Known, ND: c.V.ND, Params: c.V.Params, Detail: c.V.Detail}
		b, _ := json.MarshalIndent(vec, "", " ")
		sum := sha256.Sum256(b)
		path := filepath.Join(verifDir, "replays", pc.Property, fmt.Sprintf("%s-%s-%s.json", c.V.Harness, sanitize(c.V.Tag), hex.EncodeToString(sum[:4])))
		os.WriteFile(path, b, 0o644)
		line := fmt.Sprintf("VIOLATION property=%s replay=%s", pc.Property, path)
		violLines = append(violLines, line)
		fmt.Println(line)
		fmt.Printf("  harness=%s assertion=%s params=%s detail=%q\n", c.V.Harness, c.V.Tag, paramString(c.V.Params), c.V.Detail)
		exit = 1
	}
	var knownSeen []string
	var kids []string
	for id := range knownIDs {
		kids = append(kids, id)
	}
	sort.Strings(kids)
	for _, id := range kids {
		if c := knownConfirmed[id]; c != nil {
			fmt.Printf("KNOWN-FINDING: property=%s %s: %s (harness %s, assertion %s; reproduced natively)\n", pc.Property, id, knownIDs[id], c.V.Harness, c.V.Tag)
			knownSeen = append(knownSeen, id)
		} else {
			fmt.Fprintf(os.Stderr, "note: known finding %s was not exhibited by this run\n", id)
		}
	}

	// ---- evidence ----
	var funcs []string
	P.FuncsSeen.Range(func(k, _ interface{}) bool {
		f := k.(*ssa.Function)
		name := f.String()
		if strings.Contains(name, "/zzverif") {
			return true
		}
		funcs = append(funcs, name)
		return true
	})
	sort.Strings(funcs)
	repoFuncs := 0
	for _, f := range funcs {
		if strings.Contains(f, modPath) {
			repoFuncs++
		}
	}
	funcsOut := funcs
	if len(funcsOut) > 300 {
		// keep the repository's own functions first
		var a, b []string
		for _, f := range funcs {
			if strings.Contains(f, modPath) {
				a = append(a, f)
			} else {
				b = append(b, f)
			}
		}
		funcsOut = append(a, b...)
		if len(funcsOut) > 300 {
			funcsOut = funcsOut[:300]
		}
	}
	var spur []interface{}
	for _, c := range spurious {
		spur = append(spur, map[string]interface{}{"harness": c.V.Harness, "assertion": c.V.Tag, "known": c.V.Known, "native_outcome": c.Outcome, "native_tag": c.NativeTag, "nd": c.V.ND})
	}
	if len(samples) == 0 {
		samples = append(samples, map[string]interface{}{"note": "no symbolic path completed"})
	}
	states := totalPaths
	if states < 1 {
		states = 1
	}
	trans := totalDec
	if trans < 1 {
		trans = 1
	}
	ev := map[string]interface{}{
		"property_id": pc.Property,
		"tier":        *tier,
		"seed":        seed,
		"level":       "model_checking",
		"wall_s":      time.Since(t0).Seconds(),
		"violations":  len(violLines),
		"assumptions": append(append([]string{}, pc.Assumptions...), pc.Stubs...),
		"coverage": map[string]interface{}{
			"states":                        states,
			"transitions":                   trans,
			"traces_validated_against_impl": validated,
			"samples":                       samples,
			"evaluations":                   totalQueries,
			"distinct_nontrivial":           totalSym,
			"rule":                          "states = completed execution paths of the real code (each path is one solver-checked equivalence class of inputs: every branch on a symbolic value was decided by an SMT feasibility query); transitions = symbolic branch decisions; evaluations = SMT queries discharged; distinct_nontrivial = completed paths whose path condition mentions at least one symbolic input (distinct by construction: decision prefixes are pairwise different).",
			"exhaustive":                    exhaustive,
			"technique":                     "bounded symbolic execution of the real Go code (go/ssa regenerated from /repo on this run) with SMT (z3 / cvc5) deciding every branch and assertion; counterexamples replayed natively",
			"bounds":                        pc.Bounds,
			"outside_claim":                 pc.Outside,
			"stubs":                         pc.Stubs,
			"harness_runs":                  reports,
			"per_site_reach":                perSite,
			"functions_encoded_count":       len(funcs),
			"functions_encoded_repo_count":  repoFuncs,
			"functions_encoded":             funcsOut,
			"queries":                       queries,
			"solver_backends":               backends,
			"solver_time_s":                 solverTime.Seconds(),
			"load_and_ssa_s":                loadS,
			"translator_witness_mismatches": mismatched,
			"spurious_counterexamples":      spur,
			"known_findings_seen":           knownSeen,
			"cross_checked_queries":         crossChecked,
			"cross_check_disagreements":     crossDisagree,
			"violation_lines":               violLines,
			"replay_error":                  replayErr,
		},
	}
	os.MkdirAll(filepath.Join(verifDir, "evidence"), 0o755)
	b, _ := json.MarshalIndent(ev, "", " ")
	if err := os.WriteFile(filepath.Join(verifDir, "evidence", pc.Property+".json"), b, 0o644); err != nil {
		fmt.Fprintln(os.Stderr, err)
	}
	fmt.Printf("%s %s: %d paths, %d decisions, %d queries (%.1fs solver), exhaustive=%v, new violations=%d, known=%d, spurious=%d, witnesses validated=%d mismatched=%d, wall %.1fs\n",
		pc.Property, *tier, totalPaths, totalDec, totalQueries, solverTime.Seconds(), exhaustive, len(violLines), len(knownSeen), len(spurious), validated, mismatched, time.Since(t0).Seconds())
	return exit
}

func sanitize(s string) string {
	return strings.Map(func(r rune) rune {
		if (r >= 'a' && r <= 'z') || (r >= 'A' && r <= 'Z') || (r >= '0' && r <= '9') || r == '-' || r == '_' {
			return r
		}
		return '_'
	}, s)
}
