package main

func cmdRun(args []string) int { return 2 }
