// Package solver drives long-lived SMT solver processes (z3 -in, cvc5 --incremental) over pipes.
package solver

import (
	"bufio"
	"fmt"
	"io"
	"os"
	"os/exec"
	"strconv"
	"strings"
	"time"

	"verif/engine/term"
)

type Result int

const (
	Unknown Result = iota
	Sat
	Unsat
)

func (r Result) String() string { return [...]string{"unknown", "sat", "unsat"}[r] }

type proc struct {
	kind    string
	args    []string
	cmd     *exec.Cmd
	in      io.WriteCloser
	out     *bufio.Reader
	lines   chan string
	emitted map[int]bool
	ufs     map[string]bool
	buf     strings.Builder
	dead    bool
}

type Stats struct {
	Queries, Sat, Unsat, Unknown, Errors, Restarts int
	Time                                         time.Duration
	ByBackend                                    map[string]int
}

type Solver struct {
	Ctx       *term.Ctx
	TimeoutMs int
	procs     []*proc
	Stats     Stats
	lastSat   *proc
	Log       io.Writer
}

func New(ctx *term.Ctx, timeoutMs int) *Solver {
	s := &Solver{Ctx: ctx, TimeoutMs: timeoutMs}
	s.Stats.ByBackend = map[string]int{}
	s.procs = []*proc{
		{kind: "z3", args: []string{"z3", "-in"}},
		{kind: "cvc5", args: []string{"cvc5", "--incremental", "--produce-models", "--lang=smt2"}},
		{kind: "cvc5-int", args: []string{"cvc5", "--incremental", "--produce-models", "--lang=smt2", "--solve-bv-as-int=sum"}},
	}
	return s
}

func (s *Solver) Close() {
	for _, p := range s.procs {
		p.kill()
	}
}

func (p *proc) start() error {
	p.cmd = exec.Command(p.args[0], p.args[1:]...)
	var err error
	p.in, err = p.cmd.StdinPipe()
	if err != nil {
		return err
	}
	out, err := p.cmd.StdoutPipe()
	if err != nil {
		return err
	}
	p.cmd.Stderr = nil
	if err := p.cmd.Start(); err != nil {
		return err
	}
	p.out = bufio.NewReaderSize(out, 1<<16)
	p.emitted = map[int]bool{}
	p.ufs = map[string]bool{}
	p.dead = false
	p.lines = make(chan string, 64)
	go func(r *bufio.Reader, ch chan string) {
		for {
			l, err := r.ReadString('\n')
			if l != "" {
				ch <- strings.TrimRight(l, "\r\n")
			}
			if err != nil {
				close(ch)
				return
			}
		}
	}(p.out, p.lines)
	p.buf.Reset()
	p.buf.WriteString("(set-option :produce-models true)\n(set-logic ALL)\n")
	return nil
}

func (p *proc) kill() {
	if p.cmd != nil && p.cmd.Process != nil {
		p.in.Close()
		p.cmd.Process.Kill()
		p.cmd.Wait()
	}
	p.cmd = nil
	p.dead = true
}

func (p *proc) ensure() error {
	if p.cmd == nil {
		return p.start()
	}
	return nil
}

// emit writes definitions for every not-yet-defined node below t.
func (p *proc) emit(t *term.T) {
	if t.Op == term.OpConst || p.emitted[t.ID] {
		return
	}
	// iterative post-order
	type fr struct {
		t *term.T
		i int
	}
	stack := []fr{{t, 0}}
	for len(stack) > 0 {
		top := &stack[len(stack)-1]
		if top.i < len(top.t.Args) {
			a := top.t.Args[top.i]
			top.i++
			if a.Op != term.OpConst && !p.emitted[a.ID] {
				stack = append(stack, fr{a, 0})
			}
			continue
		}
		n := top.t
		stack = stack[:len(stack)-1]
		if p.emitted[n.ID] {
			continue
		}
		p.emitted[n.ID] = true
		switch {
		case n.Op == term.OpVar:
			fmt.Fprintf(&p.buf, "(declare-const %s %s)\n", term.Ref(n), term.SortOf(n))
		case n.Op == term.OpUF:
			sig := n.Name
			if !p.ufs[sig] {
				p.ufs[sig] = true
				var sb strings.Builder
				for _, a := range n.Args {
					sb.WriteString(term.SortOf(a) + " ")
				}
				fmt.Fprintf(&p.buf, "(declare-fun |%s| (%s) %s)\n", n.Name, sb.String(), term.SortOf(n))
			}
			fmt.Fprintf(&p.buf, "(define-fun %s () %s %s)\n", term.Ref(n), term.SortOf(n), term.Body(n))
		case term.IsFPValued(n):
			fmt.Fprintf(&p.buf, "(declare-const %s (_ BitVec 64))\n(assert (= ((_ to_fp 11 53) %s) %s))\n", term.Ref(n), term.Ref(n), term.Body(n))
		default:
			fmt.Fprintf(&p.buf, "(define-fun %s () %s %s)\n", term.Ref(n), term.SortOf(n), term.Body(n))
		}
	}
}

func (p *proc) flush() error {
	if p.buf.Len() == 0 {
		return nil
	}
	if dir := os.Getenv("VCHECK_LOG_SOLVER"); dir != "" && p.cmd != nil && p.cmd.Process != nil {
		f, err := os.OpenFile(fmt.Sprintf("%s/%s-%d.smt2", dir, p.kind, p.cmd.Process.Pid), os.O_APPEND|os.O_CREATE|os.O_WRONLY, 0o644)
		if err == nil {
			f.WriteString(p.buf.String())
			f.Close()
		}
	}
	_, err := io.WriteString(p.in, p.buf.String())
	p.buf.Reset()
	return err
}

// readLine waits for one output line until the deadline.
func (p *proc) readLine(deadline time.Time) (string, bool) {
	d := time.Until(deadline)
	if d < 0 {
		d = 0
	}
	select {
	case l, ok := <-p.lines:
		if !ok {
			return "", false
		}
		return l, true
	case <-time.After(d):
		return "", false
	}
}

func (p *proc) check(assumps []*term.T, timeoutMs int) (Result, bool) {
	if err := p.ensure(); err != nil {
		return Unknown, true
	}
	for _, a := range assumps {
		p.emit(a)
	}
	if p.kind == "z3" {
		fmt.Fprintf(&p.buf, "(set-option :timeout %d)\n", timeoutMs)
	} else {
		fmt.Fprintf(&p.buf, "(set-option :tlimit-per %d)\n", timeoutMs)
	}
	p.buf.WriteString("(check-sat-assuming (")
	for _, a := range assumps {
		p.buf.WriteString(term.Ref(a))
		p.buf.WriteByte(' ')
	}
	p.buf.WriteString("))\n")
	if err := p.flush(); err != nil {
		p.kill()
		return Unknown, true
	}
	deadline := time.Now().Add(time.Duration(timeoutMs)*time.Millisecond + 5*time.Second)
	hadErr := false
	for {
		l, ok := p.readLine(deadline)
		if !ok {
			p.kill()
			return Unknown, true
		}
		switch {
		case l == "sat":
			if hadErr {
				return Unknown, true
			}
			return Sat, false
		case l == "unsat":
			if hadErr {
				return Unknown, true
			}
			return Unsat, false
		case l == "unknown" || strings.HasPrefix(l, "timeout"):
			return Unknown, hadErr
		case strings.HasPrefix(l, "(error"):
			hadErr = true
			if strings.Contains(l, "interrupted") || strings.Contains(l, "tlimit") {
				// cvc5 reports time limit as an error then continues
			}
		case l == "":
		default:
			// unexpected chatter (warnings); ignore
		}
	}
}

func parseVal(s string) (uint64, bool) {
	s = strings.TrimSpace(s)
	switch {
	case s == "true":
		return 1, true
	case s == "false":
		return 0, true
	case strings.HasPrefix(s, "#x"):
		v, err := strconv.ParseUint(s[2:], 16, 64)
		return v, err == nil
	case strings.HasPrefix(s, "#b"):
		v, err := strconv.ParseUint(s[2:], 2, 64)
		return v, err == nil
	case strings.HasPrefix(s, "(_ bv"):
		f := strings.Fields(s[5:])
		v, err := strconv.ParseUint(f[0], 10, 64)
		return v, err == nil
	}
	return 0, false
}

func (p *proc) model(vars []*term.T) (map[*term.T]uint64, bool) {
	m := map[*term.T]uint64{}
	if len(vars) == 0 {
		return m, true
	}
	const chunk = 200
	for off := 0; off < len(vars); off += chunk {
		end := off + chunk
		if end > len(vars) {
			end = len(vars)
		}
		part := vars[off:end]
		for _, v := range part {
			p.emit(v)
		}
		p.buf.WriteString("(get-value (")
		for _, v := range part {
			p.buf.WriteString(term.Ref(v))
			p.buf.WriteByte(' ')
		}
		p.buf.WriteString("))\n")
		if err := p.flush(); err != nil {
			p.kill()
			return nil, false
		}
		deadline := time.Now().Add(20 * time.Second)
		var sb strings.Builder
		depth, started := 0, false
		for !started || depth > 0 {
			l, ok := p.readLine(deadline)
			if !ok {
				p.kill()
				return nil, false
			}
			if strings.HasPrefix(l, "(error") {
				return nil, false
			}
			for _, ch := range l {
				if ch == '(' {
					depth++
					started = true
				} else if ch == ')' {
					depth--
				}
			}
			sb.WriteString(l)
			sb.WriteByte(' ')
		}
		// parse ((name val) (name val) ...)
		s := strings.TrimSpace(sb.String())
		s = s[1 : len(s)-1]
		i := 0
		vi := 0
		for i < len(s) && vi < len(part) {
			// find next '('
			for i < len(s) && s[i] != '(' {
				i++
			}
			if i >= len(s) {
				break
			}
			// matching paren
			d, j := 0, i
			for ; j < len(s); j++ {
				if s[j] == '(' {
					d++
				} else if s[j] == ')' {
					d--
					if d == 0 {
						break
					}
				}
			}
			pair := s[i+1 : j]
			i = j + 1
			// pair = "name value": name may be |quoted|
			var rest string
			if strings.HasPrefix(pair, "|") {
				k := strings.Index(pair[1:], "|")
				rest = pair[k+2:]
			} else {
				k := strings.IndexAny(pair, " \t")
				rest = pair[k+1:]
			}
			v, ok := parseVal(rest)
			if !ok {
				return nil, false
			}
			m[part[vi]] = v
			vi++
		}
		if vi != len(part) {
			return nil, false
		}
	}
	return m, true
}

func hasFP(assumps []*term.T) bool {
	seen := map[*term.T]bool{}
	for _, a := range assumps {
		if term.HasFP(a, seen) {
			return true
		}
	}
	return false
}

func hasHard(assumps []*term.T) bool {
	seen := map[*term.T]bool{}
	for _, a := range assumps {
		if term.HasHardArith(a, seen) {
			return true
		}
	}
	return false
}

// Check decides satisfiability of the conjunction of assumps (Boolean terms).
func (s *Solver) Check(assumps []*term.T) Result {
	t0 := time.Now()
	defer func() { s.Stats.Time += time.Since(t0) }()
	s.Stats.Queries++
	lits := assumps[:0:0]
	for _, a := range assumps {
		if a.IsConst() {
			if a.Val == 0 {
				s.Stats.Unsat++
				return Unsat
			}
			continue
		}
		lits = append(lits, a)
	}
	order := []int{0, 1}
	timeouts := []int{s.TimeoutMs, 2 * s.TimeoutMs, 6 * s.TimeoutMs}
	if hasHard(lits) && !hasFP(lits) {
		order = []int{0, 2, 1}
		timeouts[0] = s.TimeoutMs / 2
	}
	for _, i := range order {
		p := s.procs[i]
		r, bad := p.check(lits, timeouts[i])
		if bad {
			s.Stats.Errors++
			if p.dead {
				s.Stats.Restarts++
			}
		}
		if r != Unknown {
			s.Stats.ByBackend[p.kind]++
			if r == Sat {
				s.Stats.Sat++
				s.lastSat = p
			} else {
				s.Stats.Unsat++
			}
			return r
		}
	}
	s.Stats.Unknown++
	return Unknown
}

// Model returns values for vars after a Sat answer.
func (s *Solver) Model(vars []*term.T) (map[*term.T]uint64, bool) {
	if s.lastSat == nil {
		return nil, false
	}
	t0 := time.Now()
	defer func() { s.Stats.Time += time.Since(t0) }()
	return s.lastSat.model(vars)
}

// CrossCheck re-asks an answered query to the other back ends and reports disagreement.
func (s *Solver) CrossCheck(assumps []*term.T, want Result) (agree bool, detail string) {
	lits := assumps[:0:0]
	for _, a := range assumps {
		if a.IsConst() {
			if a.Val == 0 {
				return true, "" // trivially unsat (constant false assumption): nothing to cross-check
			}
			continue
		}
		lits = append(lits, a)
	}
	// Only the second solver is asked (the first one produced the answer). Anything but a
	// definite opposite answer counts as "not contradicted"; after an indefinite answer the
	// process is restarted so that no late output can be mistaken for a later reply.
	p := s.procs[1]
	r, bad := p.check(lits, 2*s.TimeoutMs)
	if r == Unknown || bad {
		p.kill()
		return true, ""
	}
	if r != want {
		if dir := os.Getenv("VCHECK_DUMP_DISAGREE"); dir != "" {
			s.dumpQuery(dir, lits, want, r)
		}
		return false, fmt.Sprintf("%s says %s, expected %s", p.kind, r, want)
	}
	return true, ""
}

// dumpQuery writes a self-contained SMT-LIB script for the query (debugging aid).
func (s *Solver) dumpQuery(dir string, lits []*term.T, want, got Result) {
	p := &proc{kind: "dump", emitted: map[int]bool{}, ufs: map[string]bool{}}
	p.buf.WriteString("(set-option :produce-models true)\n(set-logic ALL)\n")
	for _, a := range lits {
		p.emit(a)
	}
	p.buf.WriteString("(check-sat-assuming (")
	for _, a := range lits {
		p.buf.WriteString(term.Ref(a) + " ")
	}
	fmt.Fprintf(&p.buf, "))\n; first solver: %s, second solver: %s\n", want, got)
	s.Stats.Errors++
	os.WriteFile(fmt.Sprintf("%s/disagree-%d.smt2", dir, s.Stats.Queries), []byte(p.buf.String()), 0o644)
}
